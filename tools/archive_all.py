#!/usr/bin/env python3
"""Development tool: build /verif/seeded/ from the confirmed sub-agent material.

  seeds   /tmp/seed_out/<Cxx[b]>/<k>/{patch.diff,demo.py,meta.json}
          kept only if: the patch applies to /repo HEAD, the demonstration exits 0 on the unchanged tree and non-zero with the
          patch (tools/try_seeds.py --demo --json DEMO.json), and the repository's tests still pass with the patch
          (tools/confirm_seeds.py -> /tmp/seed_confirm/<name>.json; front-end-only patches have no tests that import them).
  benign  /tmp/benign_out/<area>/<k>/{patch.diff,meta.json}  behaviour-preserving refactorings (kept if they apply).

usage: archive_all.py DEMO.json CHECKS.json     (CHECKS.json = try_seeds.py --checks all --json, for the 'detected by' table)
Writes seeded/<name>/..., seeded/benign/<area>_<k>/..., seeded/index.json (read by the thorough tier) and seeded/INDEX.md.
"""
import glob, json, os, re, shutil, sys
VERIF = os.path.dirname(os.path.dirname(os.path.abspath(__file__)))
OUT = os.path.join(VERIF, "seeded")
demo = {r["dir"].rstrip("/"): r for r in json.load(open(sys.argv[1]))}
checks = {r["dir"].rstrip("/"): r for r in json.load(open(sys.argv[2]))}
index, rows, skipped = [], [], []
for d in sorted(glob.glob("/tmp/seed_out/*/[0-9]")):
    name = "%s_%s" % (os.path.basename(os.path.dirname(d)), os.path.basename(d))
    dm, ck = demo.get(d), checks.get(d)
    cj = "/tmp/seed_confirm/%s.json" % name
    conf = json.load(open(cj)) if os.path.exists(cj) else None
    why = None
    if dm is None or ck is None or not dm.get("applies"):
        why = "no result / patch does not apply"
    elif not (dm.get("demo_pristine") == 0 and dm.get("demo_patched") not in (0, None)):
        why = "demonstration not confirmed (pristine=%s patched=%s)" % (dm.get("demo_pristine"), dm.get("demo_patched"))
    elif conf is None:
        why = "repository tests not re-run yet"
    elif conf.get("dbm_test_contains") and not conf["dbm_test_contains"]["passed"]:
        why = "TestDBMDict::test_contains fails with the patch"
    elif conf.get("passed") is False:
        why = "repository tests fail with the patch: %s" % conf.get("unexpected_failures")
    if why:
        skipped.append((name, why))
        continue
    meta = {}
    try:
        meta = json.load(open(os.path.join(d, "meta.json")))
    except Exception:
        pass
    prop = (meta.get("property") or os.path.basename(os.path.dirname(d)))[:3]
    dst = os.path.join(OUT, name)
    os.makedirs(dst, exist_ok=True)
    shutil.copy(os.path.join(d, "patch.diff"), os.path.join(dst, "patch.diff"))
    shutil.copy(os.path.join(d, "demo.py"), os.path.join(dst, "demo.py"))
    fired = {}
    for pid, f in (ck.get("fired") or {}).items():
        rule = None
        for line in f.get("first", []):
            m = re.search(r"\[(R[\d.]+)\]", line)
            if m:
                rule = m.group(1)
                break
        fired[pid] = {"exit": f["exit"], "rule": rule, "first_report": (f.get("first") or [""])[0].strip()[:300]}
    json.dump({
        "property": prop,
        "breaks": meta.get("summary", ""),
        "files": meta.get("files", conf.get("files", [])),
        "needs_to_manifest": meta.get("needs_to_manifest", ""),
        "why_tests_pass": meta.get("why_tests_pass", ""),
        "origin": "independent sub-agent given only the property text and a private worktree",
        "confirmed_here": {
            "demo": "cd <scratch export of /repo HEAD> && HOME=<tmp> /venv/bin/python demo.py -> exit %s on the unchanged tree, exit %s with patch.diff applied" % (dm.get("demo_pristine"), dm.get("demo_patched")),
            "tests": conf.get("cmd") or conf.get("note", ""),
            "tests_summary": conf.get("summary", "") + ((" ; " + conf["dbm_test_contains"]["cmd"] + ": " + conf["dbm_test_contains"]["summary"])
                                                       if conf.get("dbm_test_contains") else ""),
            "checks_run": "every registered quick check with --root <patched scratch copy>",
        },
        "detected_by": fired,
        "detected_by_own_property_check": prop in fired,
    }, open(os.path.join(dst, "meta.json"), "w"), indent=1)
    index.append({"name": name, "path": name, "kind": "seed", "property": prop, "own": prop in fired})
    rows.append((name, prop, meta.get("summary", ""), fired))
nb = 0
for d in sorted(glob.glob("/tmp/benign_out/*/[0-9]*")):
    area, k = os.path.basename(os.path.dirname(d)), os.path.basename(d)
    if not os.path.exists(os.path.join(d, "patch.diff")):
        continue
    name = "benign/%s_%s" % (area, k)
    dst = os.path.join(OUT, "benign", "%s_%s" % (area, k))
    os.makedirs(dst, exist_ok=True)
    shutil.copy(os.path.join(d, "patch.diff"), os.path.join(dst, "patch.diff"))
    meta = {}
    try:
        meta = json.load(open(os.path.join(d, "meta.json")))
    except Exception:
        pass
    json.dump({"kind": "behaviour-preserving refactoring", "area": area, "summary": meta.get("summary", ""), "files": meta.get("files", []),
               "why_equivalent": meta.get("why_equivalent", ""), "tests_run_by_author": meta.get("tests_run", ""),
               "origin": "independent sub-agent given only the area and a private worktree; every check must stay silent on it"},
              open(os.path.join(dst, "meta.json"), "w"), indent=1)
    index.append({"name": name, "path": "benign/%s_%s" % (area, k), "kind": "benign"})
    nb += 1
json.dump(index, open(os.path.join(OUT, "index.json"), "w"), indent=1)
with open(os.path.join(OUT, "INDEX.md"), "w") as f:
    f.write("# Independently produced changes used to test the checks\n\n")
    f.write("## Seeded defects (%d)\n\nEach breaks the named property, passes the repository's tests and needs something specific to manifest; `demo.py` exits 0 on the "
            "unchanged tree and non-zero with `patch.diff` applied.  Columns: which registered checks report it (rule of the first report).\n\n" % len(rows))
    f.write("| change | property | what was changed | reported by |\n|---|---|---|---|\n")
    for name, prop, summ, fired in rows:
        by = ", ".join("%s%s %s" % ("**" if pid == prop else "", pid, (v["rule"] or "") + ("**" if pid == prop else "")) for pid, v in sorted(fired.items())) or "_none_"
        f.write("| %s | %s | %s | %s |\n" % (name, prop, summ.replace("|", "/")[:260], by))
    f.write("\n## Behaviour-preserving refactorings (%d)\n\nEvery registered check stays silent on each of them (`seeded/benign/<area>_<k>/`); the thorough tier re-applies them.\n" % nb)
print("seeds archived", len(rows), "benign", nb)
for n, w in skipped:
    print("skipped", n, "-", w)
