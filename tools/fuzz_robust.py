#!/usr/bin/env python3
"""Development tool: robustness sweep.  Applies random syntactic mutations (statement deletion, swap, condition
negation, constant tweak, operator swap, call-argument drop) to scratch copies of /repo and runs every check with
--root; reports ANALYSIS-ERROR (exit 2) outcomes, which would be analysis crashes on compilable code."""
import ast, os, random, shutil, subprocess, sys, tempfile, json, concurrent.futures as cf
VERIF = os.path.dirname(os.path.dirname(os.path.abspath(__file__)))
sys.path.insert(0, VERIF)
from sa.selftest import copy_tree
from sa.model import EXCLUDE_DIRS

def py_files(root):
    out = []
    for dp, dn, fn in os.walk(root):
        dn[:] = [d for d in dn if d not in EXCLUDE_DIRS and not d.startswith(".")]
        for f in fn:
            if f.endswith(".py") and not f.startswith("run_"):
                out.append(os.path.relpath(os.path.join(dp, f), root))
    return sorted(out)

class Mut(ast.NodeTransformer):
    def __init__(self, rng, target):
        self.rng, self.target, self.i, self.done = rng, target, 0, None
    def generic_visit(self, node):
        node = super().generic_visit(node)
        return node
    def _hit(self):
        self.i += 1
        return self.i == self.target
    def visit_If(self, node):
        self.generic_visit(node)
        if self._hit():
            self.done = "negate-if L%d" % node.lineno
            node.test = ast.UnaryOp(op=ast.Not(), operand=node.test)
        return node
    def visit_Compare(self, node):
        self.generic_visit(node)
        if self._hit():
            swaps = {ast.Lt: ast.LtE, ast.LtE: ast.Lt, ast.Gt: ast.GtE, ast.GtE: ast.Gt, ast.Eq: ast.NotEq, ast.NotEq: ast.Eq, ast.Is: ast.IsNot, ast.IsNot: ast.Is, ast.In: ast.NotIn, ast.NotIn: ast.In}
            t = type(node.ops[0])
            if t in swaps:
                self.done = "cmp-swap L%d" % node.lineno
                node.ops[0] = swaps[t]()
        return node
    def visit_Constant(self, node):
        if isinstance(node.value, int) and not isinstance(node.value, bool) and self._hit():
            self.done = "const+1 L%d" % getattr(node, "lineno", 0)
            return ast.copy_location(ast.Constant(value=node.value + 1), node)
        return node
    def visit_BinOp(self, node):
        self.generic_visit(node)
        if self._hit():
            swaps = {ast.Add: ast.Sub, ast.Sub: ast.Add, ast.Mult: ast.FloorDiv, ast.FloorDiv: ast.Mult}
            t = type(node.op)
            if t in swaps:
                self.done = "binop-swap L%d" % node.lineno
                node.op = swaps[t]()
        return node
    def visit_Call(self, node):
        self.generic_visit(node)
        if self._hit() and len(node.args) >= 2:
            self.done = "drop-arg L%d" % node.lineno
            node.args = node.args[:-1]
        return node
    def visit_FunctionDef(self, node):
        self.generic_visit(node)
        if self._hit() and len(node.body) >= 3:
            k = self.rng.randrange(len(node.body))
            if not isinstance(node.body[k], (ast.Return, ast.FunctionDef, ast.ClassDef)) and not (k == 0 and isinstance(node.body[0], ast.Expr)):
                self.done = "del-stmt L%d" % node.body[k].lineno
                del node.body[k]
        elif self._hit() and len(node.body) >= 3:
            k = self.rng.randrange(len(node.body) - 1)
            self.done = "swap-stmt L%d" % node.body[k].lineno
            node.body[k], node.body[k + 1] = node.body[k + 1], node.body[k]
        return node
    visit_AsyncFunctionDef = visit_FunctionDef

def one(seed):
    rng = random.Random(seed)
    tmp = tempfile.mkdtemp(prefix="fuzz_")
    try:
        copy_tree(tmp)
        files = [f for f in py_files(tmp) if not f.endswith("__init__.py") or "toolkit" in f]
        rel = rng.choice(files)
        src = open(os.path.join(tmp, rel)).read()
        tree = ast.parse(src)
        n = sum(1 for _ in ast.walk(tree))
        for attempt in range(20):
            m = Mut(rng, rng.randrange(1, max(2, n // 3)))
            t2 = m.visit(ast.parse(src))
            if m.done:
                break
        if not m.done:
            return None
        ast.fix_missing_locations(t2)
        try:
            new = ast.unparse(t2)
            compile(new, rel, "exec")
        except Exception:
            return None
        open(os.path.join(tmp, rel), "w").write(new)
        bad = []
        fired = []
        for i in range(1, 21):
            pid = "C%02d" % i
            p = subprocess.run(["/venv/bin/python", "-B", "-m", "sa", pid, "--root", tmp], cwd=VERIF, capture_output=True, text=True)
            if p.returncode == 2:
                lines = [l for l in (p.stdout + p.stderr).splitlines() if "ANALYSIS-ERROR" in l or "Error" in l][-2:]
                bad.append((pid, lines))
            elif p.returncode == 1:
                fired.append(pid)
        return {"seed": seed, "file": rel, "mutation": m.done, "exit2": bad, "fired": fired}
    finally:
        shutil.rmtree(tmp, ignore_errors=True)

def main():
    n = int(sys.argv[1]) if len(sys.argv) > 1 else 64
    base = int(sys.argv[2]) if len(sys.argv) > 2 else 0
    res = []
    with cf.ProcessPoolExecutor(14) as ex:
        for r in ex.map(one, range(base, base + n)):
            if r:
                res.append(r)
                if r["exit2"]:
                    print("EXIT2", r["file"], r["mutation"], r["exit2"])
                    sys.stdout.flush()
    print("variants", len(res), "with exit2:", sum(1 for r in res if r["exit2"]), "detected by some check:", sum(1 for r in res if r["fired"]))
    json.dump(res, open("/tmp/fuzz_robust.json", "w"), indent=1)
main()
