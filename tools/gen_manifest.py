#!/usr/bin/env python3
"""Regenerate MANIFEST.json from the registry below (run from /verif)."""
import json, os
HERE = os.path.dirname(os.path.dirname(os.path.abspath(__file__)))
ids = [json.loads(l)["id"] for l in open(os.path.join(HERE, "properties.jsonl"))]

# property -> (technique, level text, level note, design section)
CLAIMED = {
 "C10": ("abstract interpretation over a finite state lattice + who-may-call + path enumeration (ast/CFG)",
         "Decides, for every path of the three server request handlers, in which service states each durable write, "
         "state store, search and reply can execute (lattice P({0,1,2}), entry = top, condition refinement), that refusal "
         "paths are effect-free and answer once, that persistence dominates acknowledgement, that only the two uploading "
         "handlers write, and that foreign sids never reach the dispatch. This is the complete guard structure of the "
         "state machine for sequentially processed requests; it is a structural (all-paths) argument, not a run.",
         "Trusted: CPython's ast parser, the rule tables in sa/props/c10.py, the CFG/dominator engine. Assumes requests "
         "of one sid are processed one at a time (overlap is C12), the file system keeps what was written (C13), and the "
         "websocket library delivers in order. Values of payloads are not examined."),
 "C11": ("abstract interpretation over the exact 5-bit flag domain (interprocedural) + dominance/post-dominance rules",
         "Decides, for the six client operations, that every durable write, flag store and message send can execute only "
         "when the prerequisite flags of that operation hold (exact finite domain of flag pairs, interprocedural through "
         "the Service methods, upload flags havocked at awaits), that refusals are effect-free, that no predicate result is "
         "dropped and the configuration validity check guards service creation, that the key file has a single guarded "
         "writer and no deleter, that getters/setters agree on one bit per flag, that each flag store is followed by "
         "persistence and that an alias cannot be overwritten; that the re-synchronisation with the server's state, evaluated for the "
         "3 server states x all flag vectors with helper methods evaluated in place and undecidable conditions taken both ways, "
         "changes exactly the two upload flags; that the sid is derived after salting (by role, not by name). "
         "A structural all-paths argument about the guard structure.",
         "Trusted: CPython's ast parser, the row table (prerequisites per operation, frozen from frontend/README.md and the "
         "property) in sa/props/c11.py, the CFG engine. Assumes each operation runs on a Service freshly loaded from disk "
         "and that only the echo handlers run concurrently with an awaiting operation. Behaviour against a live server and "
         "byte contents of files are not examined."),
 "C12": ("atomic-region (await-point) analysis on the connection manager's CFG + lock-discipline and dominance rules",
         "Decides, under asyncio's scheduling model (control changes hands only at await / async with / async for), whether "
         "the registry check-then-act, the durable-state snapshot taken by the Service constructor, and the registry entry "
         "used by the clean-up can be separated from their use by an await; that every registry mutation is under the lock; "
         "and that the serialisation mechanism is present and dominates request processing (CONTROL notice, await of the "
         "previous connection's closure - Service.wait_closed returns normally only through the direct await of the socket's "
         "wait_closed(), on every path including handlers -, registration before an awaited start, receive loop reachable only through start, "
         "one shared manager). Three genuine races of the unchanged tree are listed as known findings; any other construct "
         "violating the same rules is reported.",
         "Trusted: CPython's ast parser, sa/props/c12.py, the CFG engine, and asyncio's run-to-await semantics. Liveness and "
         "the adequacy of the one-second clean-up delay are not examined; no interleaving is executed."),
 "C13": ("static crash-prefix enumeration over extracted durable effect sequences + loader/predicate agreement (ast/CFG)",
         "Decides, for every prefix of every durable effect sequence of the persisting handlers on both sides (crash points "
         "are exactly the program points between durable micro-steps: mkdir, open-truncate, fill, rename, unlink), that the "
         "loader extracted from the constructors neither raises nor reports a state that is not backed by complete "
         "artifacts, and that the interrupted step is visibly complete or can be retried; plus the direct rules (predicate "
         "covers reads, state file written last and replaced atomically, retry-tolerant mkdir). The quantifier over crash "
         "points is discharged by enumeration of an abstract, source-derived model - nothing is executed.",
         "Trusted: CPython's ast parser, sa/props/c13.py (the micro-step model of open/replace/mkdir/unlink and the pre/post "
         "state table of the five persisting operations), the CFG path enumeration. Assumes rename is atomic and a crash "
         "falls between file-system calls; fsync/torn writes are not modelled."),
 "C07": ("interprocedural alias analysis on flow-sensitive use-def terms (ast/CFG)",
         "Decides the premise of the property for the library layer: no statement reachable from the scheme constructors, "
         "_parse_config, _Gen/_Enc/_Trap/_Search, their public wrappers and the toolkit/structures helpers they call mutates "
         "an object reachable from a parameter (database, key, config dict, index, token), from self outside __init__, or "
         "from a module global (DEFAULT_CONFIG). Shallow copies keep elements aliased; deepcopy and immutable results cut "
         "the alias; callee mutation summaries are propagated to call sites; no method that stores into the configuration object is "
         "called after that object was built. Since no state survives a call, search order "
         "cannot matter. All 9 schemes, all paths; nothing is executed.",
         "Trusted: CPython's ast parser, the alias rules in sa/props/c07.py (which constructors copy shallowly/deeply, which "
         "methods mutate), the use-def engine sa/terms.py. Assumes deepcopy and bytes/int/tuple values do not alias; C-level "
         "or reflective mutation (setattr by name is flagged, ctypes etc. are not modelled)."),
 "C02": ("CFG exploration of the miss path of every token-indexed lookup + index-provenance classification on use-def terms",
         "Decides the structural content of the property for all nine _Search functions: every load from an encrypted-database "
         "container (also inside comprehensions) is classified by container kind (from how _Enc builds it) and by where its "
         "index comes from (token, earlier hit, bounded range); token-indexed dictionary lookups must tolerate a miss, and the "
         "CFG is explored under the assumption that the lookup missed - no use of the missed value, no raise, no decryption, "
         "no addition to the result, and walks over consecutive labels end at the first gap; list containers are indexed only "
         "by hit-derived or range-bounded values; DP17's trial decryption rejects foreign slots; dummy keywords are >= 16 fresh "
         "random bytes. Holds for every absent keyword because it is a statement about all paths a miss can take.",
         "Trusted: CPython's ast parser, sa/terms.py (use-def reconstruction), sa/props/c02.py. Assumes labels of absent "
         "keywords do not collide with stored labels (quality of PRF/PRP, not of this code) and that KeyError/IndexError are "
         "the exceptions container loads raise. Values are not computed."),
 "C06": ("dominance (sort-before-build) in the table builders + provenance of slot-index terms (use-def) in _Enc; no seeding of the shared generator (who-may-call); imports R15.4 for the PRP behind key-derived placement",
         "Decides both mechanisms the property names. (1) In the six schemes that specify it, every dictionary of the encrypted "
         "database reaches the EDB constructor from a builder classmethod in which a sort by the pair's first component "
         "dominates the dict construction from the same list, with no reordering in between. (2) Every store into an array of "
         "PiPtr, Pi2Lev and SSE1 has an index term that derives from an element popped from random.sample over exactly the free "
         "range, or from a PRP keyed with the master key applied to a counter; DP17 draws the bucket with random.choice and "
         "shuffles each bucket before encrypting it. A counter, len(), range variable or ordered list as slot source is "
         "reported. Structural, all paths, nothing executed.",
         "Trusted: CPython's ast parser, sa/terms.py, sa/props/c06.py (accepted sources of randomness). The statistical "
         "quality of `random` / the PRP and the probability bound of the property are not examined."),
 "C04": ("taint analysis over use-def derivation terms (sources, keyed-primitive sanitisers, EDB/token sinks)",
         "Decides that no path exists from a secret (keyword, identifier, master key, per-list key) to anything stored in the "
         "encrypted database or placed in a token except through the message position of a primitive whose key argument is "
         "key material (or an XOR mask made from one): a complete argument for 'no plaintext by construction' in all nine "
         "schemes, fillers included (SSE-2's clear identifiers are the one frozen exception). Also decides that every label "
         "is keyed, that AES-CBC's IV is os.urandom(block size) drawn inside Encrypt and emitted, and that keys/fillers come "
         "from os.urandom/KeyGen. What remains is the quality of the primitives.",
         "Trusted: CPython's ast parser, sa/terms.py, the sanitiser table in sa/props/c04.py. Assumes HMAC/AES/Feistel hide "
         "their message under a secret key; lengths and counts are not treated as content; pairwise distinctness of concrete "
         "ciphertexts is a property of the library cipher and is not examined."),
 "C05": ("symbolic length analysis (polynomials over configuration parameters) of all stored terms + dominance rules",
         "Decides the static core of the property: for every container of every scheme's encrypted database, all labels have "
         "one symbolic byte length and all values one unit length, real and filler entries alike (ENC(n) models the "
         "ciphertext of an n-byte message, configuration slots are expanded through _parse_config, level factors 2^i are "
         "stripped); the trip count of every filler loop is free of keyword- or list-dependent terms; each container the "
         "property lists as padded still receives os.urandom fillers; blocks are zero-padded to a size free of per-list "
         "quantities; database padding dominates the level loop; the level count is ceil(log2 N).",
         "Trusted: CPython's ast parser, sa/terms.py, sa/symlen.py (length algebra), sa/props/c05.py. Assumes identifiers "
         "have exactly param_identifier_size bytes (valid-database domain) and len(Encrypt(k,m)) depends only on len(m) "
         "(C14). Equality of measured shapes on concrete databases is not examined."),
 "C03": ("writer/reader agreement of wire formats on use-def terms + symbolic field lengths modulo enforced equalities",
         "Decides, for all 36 structure classes, that serialize and deserialize agree: field sequence (concatenation / pickled "
         "tuple) vs slices, pieces and unpacking; constructor parameter->attribute order; every fixed-offset field length, as a "
         "polynomial in the configuration parameters, equals the symbolic length the field has where the object is constructed "
         "(_Gen/_Trap) modulo the equalities that the primitives' run-time guards enforce; the checked total equals the sum; "
         "headers are written, skipped and verified symmetrically; __eq__ compares every slot. Also decides that _Search reads "
         "only index, token and self.config, that a config object is a function of its dict (no module-level tables, no "
         "environment, no slot re-derived after construction by a method called from the algorithms), and that each loader names existing classes and the advertised scheme path.",
         "Trusted: CPython's ast parser, sa/terms.py, sa/symlen.py, sa/contracts.py, sa/props/c03.py. Assumes pickle "
         "round-trips built-in containers of bytes. Equality of concrete deserialized objects is not computed."),
 "C08": ("set comparison of consumed vs demanded configuration keys, refusal contracts decided on must-facts (reach / refuse), symbolic length contracts, registries by path summaries",
         "Decides the three structural mechanisms that make a bad configuration loud: (1) every key a _parse_config reads is in "
         "the literal list given to check_param_exist (which dominates the reads) or flows only into a name registry that "
         "raises on unknown names; (2) the length guards of HmacPRF, AESxCBC, BitwiseFPEPRP and LubyRackoffPRP exist, compare "
         "len(parameter) with the declared length, raise ValueError and dominate the work, every scheme constructs its "
         "primitives with the length keywords of the reviewed tree (so the guards are armed), and each of the ~100 primitive "
         "calls is symbolically identical to or armed by its declaration; (3) six scheme-level cross-checks and the four name "
         "registries still refuse. The quantification over the whole configuration grid (correct results for every accepted "
         "configuration) is NOT decided - that needs execution.",
         "Trusted: CPython's ast parser, sa/props/c08.py (the frozen tables GUARDS and CTOR_KW, confirmed by reading), "
         "sa/contracts.py, sa/symlen.py. Numeric sanity of values (negative sizes, non-integers) is value-level."),
 "C01": ("writer/reader agreement of derivation spines (use-def terms), symbolic thresholds/geometry, boundary evaluation of one guard",
         "Does NOT decide round-trip equality over all databases (value-level). Decides the agreements between _Enc and "
         "_Trap o _Search that every counter-example found so far violates, for all nine schemes: each label looked up by "
         "_Search (token fields replaced by what _Trap puts into them) has the same derivation spine - primitive, key root, "
         "domain-separation constant, counter start/step, encoding width, slice/piece position - as a label _Enc stores in "
         "that container; the scheme algorithms and the PRPs behind them keep no state on their objects (a token is derived from this call's key); "
         "decrypt keys and XOR masks coincide; SSE-1's stored next-pointer is the next counter's address; "
         "partition/parse geometry agrees per container; Pi2Lev's threshold chain is contiguous and matches the slot "
         "reservation; level tables cover t+1 levels, the encoded list size holds 2^t, DP17's divisor is positive; loops over "
         "index data examine every element; ANSS16's size guard accepts every storable size (finite boundary evaluation).",
         "Trusted: CPython's ast parser, sa/terms.py, sa/symlen.py, sa/props/c01.py. Assumes deterministic collision-free "
         "primitives (C14-C16) and that DP17's random bucket choice finds room. Concrete results are never computed."),
 "C14": ("position-wise comparison of the use-def terms of Encrypt and Decrypt + refusal contracts on must-facts (entry-value facts, disjunctive path conditions)",
         "Decides that AESxCBC.Encrypt and Decrypt are structural inverses around the library cipher: iv || update || finalize "
         "on one side, split at the same symbolic offset, CBC(iv) from the first part, update + finalize, pad/unpad with the same "
         "block size, Cipher(AES(key), CBC(iv)) on both sides; that the IV is os.urandom(block size) drawn inside the call and "
         "emitted; that six length guards raise ValueError before any work; that unpadding errors are not swallowed and the "
         "registry maps the three spellings. Correct decryption as values, the expansion formula and wrong-key behaviour are "
         "properties of the `cryptography` primitive and are NOT decided.",
         "Trusted: CPython's ast parser, sa/terms.py, sa/props/c14.py; the `cryptography` package implements AES-CBC/PKCS7 correctly."),
 "C15": ("loop summaries with role assignment by unification: Feistel state transformers composed symbolically (x^y^y -> x), round order and count, refusal contracts on must-facts; width / MAC provenance of the round function by abstract interpretation over a finite grid of widths when it is not in the reference shape (sa/macwidth.py)",
         "Decides bijectivity and inverse correctness by shape, for every key, width and round function: the encryption round "
         "is (a,b) -> (b, a xor F(key,i,b,len a)) with F independent of a; the decryption round composed with it reduces to the "
         "identity by x^y^y -> x; round orders are reversed; the default round count is even and no caller passes another; "
         "the round function returns exactly the requested width and is deterministic; Luby-Rackoff is three rounds (R, L xor "
         "F_i(R)) over three disjoint sub-keys; the PRP wrappers' length guards exist and dominate. A complete static argument "
         "for the bijection/inverse clauses given C18; pseudo-randomness is not examined.",
         "Trusted: CPython's ast parser, sa/straight.py, sa/props/c15.py; Bitset operations behave as fixed-width bit vectors (C18)."),
 "C16": ("loop summaries unified (pattern variables for the carried state, callables canonicalised) with the RFC 5246 P_hash and counter-mode recurrences; path summaries of constructors; effect scan for determinism",
         "Decides that _tls_p_hash implements P_hash (A(1) = HMAC(key,message); per iteration res || HMAC(key, A || message), "
         "A' = HMAC(key, A); ceil(output_len/hash_len) iterations; res[:output_len]), that the hash wrapper's counter mode "
         "hashes message || I2B(c) for c = 1,2,... until long enough and truncates, that the XOF branch requests exactly "
         "output_length bytes, that HmacPRF passes its declared length and hash, that no randomness/time/state is read, and "
         "that guards and registries refuse. Equality with an independent implementation on concrete values is NOT computed.",
         "Trusted: CPython's ast parser, sa/straight.py, sa/props/c16.py; hmac/hashlib are deterministic implementations."),
 "C17": ("path summaries and loop summaries of the small codecs (canonical use-def terms unified with reference recurrences; must-facts for what is established when a block / entry leaves)",
         "Decides agreement between each encoder and its decoder: partition steps/joins/right-pads with the zero byte to the "
         "block size and refuses too-small blocks, the parser reads strides from the left and stops at an all-zero entry of the "
         "entry's length (same pad byte) before collecting it, parse-by-count derives the stride as len // count; split checks "
         "the total before cutting consecutive pieces from running sums; int conversions share one byte order and the minimal "
         "width; leading zeros go on the side the decoder ignores; xor is positional; converters match the advertised formats. "
         "Round-trip equality over all values follows only informally and is NOT proved.",
         "Trusted: CPython's ast parser and sa/props/c17.py. These rules compare normalised statement text of very small "
         "functions; a behaviour-preserving rewrite of one of them may need the rule table to be updated (stated limitation)."),
 "C18": ("per-path (value term, width term) of every Bitset operator compared with the fixed-width model; must-facts for guards; bit-position patterns; float-taint scan",
         "Decides the width bookkeeping of toolkit.bits: no float (math.log, true division) flows into a width, shift or mask - "
         "the minimal width comes from int.bit_length; and/or/xor take the longer width; invert and left shift are masked to "
         "the width; concat shifts the left operand by the right one's length and adds lengths; higher/lower k bits shift by "
         "length - k and have width k; bytes is ceil(length/8) big-endian; guards refuse out-of-range k, over-wide values and "
         "non-Bitset operands; the halving helpers split at (n+1)//2. Agreement with the list-of-bits model on all values is "
         "NOT decided.",
         "Trusted: CPython's ast parser, sa/straight.py, sa/props/c18.py."),
 "C19": ("index-provenance dataflow (derivation terms + must-facts about bounds), path summaries of the index->file mapping, CFG order and handler shape of the rollback, marker totality as set inclusion, file-name provenance",
         "Decides four structural preconditions of list-equivalence: every index that reaches the index->(file, offset) mapping "
         "is an element of range(*slice.indices(len)) or passed the bounds guard and was normalised (% len), identically in "
         "__getitem__ and __setitem__; slice assignment records each old item before overwriting, restores all in a catch-all "
         "handler and re-raises, with type/size checks before any write; every operation the wrapper performs on the underlying "
         "array is bound to the closed marker's raising function and close/release install the marker in a finally; only "
         "<path>_meta and <path>_<k> are opened/unlinked; deletion is zero-fill through __setitem__ over the full range with no "
         "shortcut overrides. Equivalence over operation histories is NOT decided.",
         "Trusted: CPython's ast parser, sa/cfg.py, sa/props/c19.py."),
 "C20": ("use-kind classification of the guarded attribute per method, refusal contracts on must-facts, ordered effect sequences of path summaries (sync / close / release / shelf write-back), dirty-flag coverage",
         "Decides the structural conditions for dict-equivalence and 'closed means closed': each of the eight content "
         "operations of PickledDict and DBMDict uses (never merely rebinds) the guarded attribute and the marker binds what those "
         "uses reach; the bytes-only check dominates the store; from_dict binds a fresh copy; sync rewrites the file from the "
         "data attribute and any skip-flag is set by every mutator; close syncs, closes and installs the marker in a finally; "
         "create/open refuse existing/missing paths with the right exception; release closes first; the shelf keeps cache and "
         "backend together in set/delete/clear and flushes with write-back disabled. Equivalence over histories and the dbm "
         "backend are NOT decided.",
         "Trusted: CPython's ast parser, sa/cfg.py, sa/props/c20.py."),
 "C09": ("two-program conformance by patterns over use-def derivation terms of both programs (what is pickled, sent, read, dispatched, stored), must-facts at dispatch and handshake, dominance of registrations and loaders (typestate)",
         "Does NOT decide end-to-end value equality (that composes C01/C03 with this). Decides the relation between the two "
         "programs' source texts: message types emitted by one side are dispatched by the other (constants resolved, pairwise "
         "distinct, INIT handshake on both sides); each client request registers its future under the reply type before the "
         "await that sends the request and the server replies with exactly that type (table shared with C10); fields read are "
         "fields written, pickle.dumps/loads paired at every hop; every dereference of a lazily loaded attribute (scheme, key, "
         "index, config object, module loader) in both Service classes is dominated by the loader that assigns it - which is "
         "what makes a re-created client or restarted server equivalent to the original object - and each loader reads the "
         "artifact its writer wrote and deserialises with the class family that serialised it; both sides build the scheme from "
         "the uploaded config dict; keyword/identifier encodings agree; the service id (a digest of a pickle, not canonical) is derived "
         "once, in the client's create-service, and nowhere re-derived from a configuration that travelled (who-may-call).",
         "Trusted: CPython's ast parser, sa/effects.py, sa/cfg.py, sa/props/c09.py. The websocket library, timing and "
         "concrete payload values are outside the analysis."),
}
NA_REASON = "check under construction in this session (see DESIGN.md section 3); not yet registered"
NA = {}

def main():
    checks = []
    for pid in ids:
        if pid not in CLAIMED:
            continue
        tech, text, note = CLAIMED[pid]
        checks.append({
            "property_id": pid,
            "quick_cmd": "./check %s" % pid,
            "thorough_cmd": "./check %s --tier thorough" % pid,
            "evidence_file": "evidence/%s.json" % pid,
            "replay_cmd_template": "./check %s --replay {path}" % pid,
            "engine": "sa",
            "level_claimed": {"category": "other", "text": text, "design_ref": "DESIGN.md section 3, %s" % pid},
            "level_note": note,
            "technique": tech,
        })
    m = {
        "version": 1,
        "setup_cmd": "/venv/bin/python -B -c \"import ast,sys; sys.path.insert(0,'.'); import sa.core, sa.cfg, sa.model\" || python3 -B -c \"import sys; sys.path.insert(0,'.'); import sa.core\"",
        "hooks": {"guard": "SSEPY_VERIF",
                  "enable": "none needed: every check parses /repo's working tree with ast; nothing under /repo is imported or executed, so there are no hooks",
                  "baseline_off_cmd": "cd /repo && /venv/bin/python -m pytest -ra -q -p no:cacheprovider --timeout=900 --continue-on-collection-errors",
                  "source_commits": [], "add_only": True},
        "engines": [{"name": "sa", "path": "sa/", "serves_properties": [c["property_id"] for c in checks],
                     "kind_free_text": "repository-specific static analysis over Python ast: resolver, normal form (unlisted helpers/constants expanded), statement CFG with dominators and path enumeration, call/effect summaries, use-def term reconstruction, must-facts (bounded DNF), path and loop summaries with unification, finite guard lattices; self-test by ast-located variants and archived independent patches"}],
        "checks": checks,
        "not_applicable": [{"property_id": i, "reason": NA.get(i, NA_REASON)} for i in ids if i not in CLAIMED],
        "notes": "All checks are static (ast-based, nothing executed). Exit 0 = all rule instances hold or only listed known findings; 1 = VIOLATION lines; 2 = ANALYSIS-ERROR (analysis cannot see what it needs). Known findings: known_findings.json. See DESIGN.md.",
    }
    json.dump(m, open(os.path.join(HERE, "MANIFEST.json"), "w"), indent=1)
    print("claimed:", [c["property_id"] for c in checks])

main()
