#!/usr/bin/env python3
"""Regenerate MANIFEST.json from the registry below (run from /verif)."""
import json, os
HERE = os.path.dirname(os.path.dirname(os.path.abspath(__file__)))
ids = [json.loads(l)["id"] for l in open(os.path.join(HERE, "properties.jsonl"))]

# property -> (technique, level text, level note, design section)
CLAIMED = {
 "C10": ("abstract interpretation over a finite state lattice + who-may-call + path enumeration (ast/CFG)",
         "Decides, for every path of the three server request handlers, in which service states each durable write, "
         "state store, search and reply can execute (lattice P({0,1,2}), entry = top, condition refinement), that refusal "
         "paths are effect-free and answer once, that persistence dominates acknowledgement, that only the two uploading "
         "handlers write, and that foreign sids never reach the dispatch. This is the complete guard structure of the "
         "state machine for sequentially processed requests; it is a structural (all-paths) argument, not a run.",
         "Trusted: CPython's ast parser, the rule tables in sa/props/c10.py, the CFG/dominator engine. Assumes requests "
         "of one sid are processed one at a time (overlap is C12), the file system keeps what was written (C13), and the "
         "websocket library delivers in order. Values of payloads are not examined."),
 "C11": ("abstract interpretation over the exact 5-bit flag domain (interprocedural) + dominance/post-dominance rules",
         "Decides, for the six client operations, that every durable write, flag store and message send can execute only "
         "when the prerequisite flags of that operation hold (exact finite domain of flag pairs, interprocedural through "
         "the Service methods, upload flags havocked at awaits), that refusals are effect-free, that no predicate result is "
         "dropped and the configuration validity check guards service creation, that the key file has a single guarded "
         "writer and no deleter, that getters/setters agree on one bit per flag, that each flag store is followed by "
         "persistence and that an alias cannot be overwritten. A structural all-paths argument about the guard structure.",
         "Trusted: CPython's ast parser, the row table (prerequisites per operation, frozen from frontend/README.md and the "
         "property) in sa/props/c11.py, the CFG engine. Assumes each operation runs on a Service freshly loaded from disk "
         "and that only the echo handlers run concurrently with an awaiting operation. Behaviour against a live server and "
         "byte contents of files are not examined."),
}
NA_REASON = "check under construction in this session (see DESIGN.md section 3); not yet registered"
NA = {}

def main():
    checks = []
    for pid in ids:
        if pid not in CLAIMED:
            continue
        tech, text, note = CLAIMED[pid]
        checks.append({
            "property_id": pid,
            "quick_cmd": "./check %s" % pid,
            "thorough_cmd": "./check %s --tier thorough" % pid,
            "evidence_file": "evidence/%s.json" % pid,
            "replay_cmd_template": "./check %s --replay {path}" % pid,
            "engine": "sa",
            "level_claimed": {"category": "other", "text": text, "design_ref": "DESIGN.md section 3, %s" % pid},
            "level_note": note,
            "technique": tech,
        })
    m = {
        "version": 1,
        "setup_cmd": "/venv/bin/python -B -c \"import ast,sys; sys.path.insert(0,'.'); import sa.core, sa.cfg, sa.model\" || python3 -B -c \"import sys; sys.path.insert(0,'.'); import sa.core\"",
        "hooks": {"guard": "SSEPY_VERIF",
                  "enable": "none needed: every check parses /repo's working tree with ast; nothing under /repo is imported or executed, so there are no hooks",
                  "baseline_off_cmd": "cd /repo && /venv/bin/python -m pytest -ra -q -p no:cacheprovider --timeout=900 --continue-on-collection-errors",
                  "source_commits": [], "add_only": True},
        "engines": [{"name": "sa", "path": "sa/", "serves_properties": [c["property_id"] for c in checks],
                     "kind_free_text": "repository-specific static analysis over Python ast: resolver, statement CFG with dominators and path enumeration, call/effect summaries, use-def term reconstruction, finite guard lattices; self-test by ast-located variants"}],
        "checks": checks,
        "not_applicable": [{"property_id": i, "reason": NA.get(i, NA_REASON)} for i in ids if i not in CLAIMED],
        "notes": "All checks are static (ast-based, nothing executed). Exit 0 = all rule instances hold or only listed known findings; 1 = VIOLATION lines; 2 = ANALYSIS-ERROR (analysis cannot see what it needs). Known findings: known_findings.json. See DESIGN.md.",
    }
    json.dump(m, open(os.path.join(HERE, "MANIFEST.json"), "w"), indent=1)
    print("claimed:", [c["property_id"] for c in checks])

main()
