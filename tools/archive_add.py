#!/usr/bin/env python3
"""Development tool: add newly confirmed sub-agent material to /verif/seeded/ without needing the old scratch directories.

usage: archive_add.py --suffix e [--seeds /tmp/seeds5 DEMO.json CHECKS.json] [--benign /tmp/benign9 PREFIX]
  seeds   <root>/<Cxx>/<k>/{patch.diff,demo.py,meta.json} -> seeded/<Cxx><suffix>_<k>/   (kept only if the patch applies, the
          demonstration is confirmed both ways by tools/try_seeds.py --demo and tools/confirm_seeds.py found the tests passing)
  benign  <root>/<area>/<k>/{patch.diff,meta.json} -> seeded/benign/<PREFIX><area>_<k>/
Afterwards index.json is extended and INDEX.md rewritten from every archived meta.json.
"""
import glob, json, os, re, shutil, sys
VERIF = os.path.dirname(os.path.dirname(os.path.abspath(__file__)))
OUT = os.path.join(VERIF, "seeded")

def fired_of(ck):
    fired = {}
    for pid, f in (ck.get("fired") or {}).items():
        rule = None
        for line in f.get("first", []):
            m = re.search(r"\[(R[\d.]+)\]", line)
            if m:
                rule = m.group(1)
                break
        fired[pid] = {"exit": f["exit"], "rule": rule, "first_report": (f.get("first") or [""])[0].strip()[:300]}
    return fired

def add_seeds(root, suffix, demo_json, checks_json, index):
    demo = {r["dir"].rstrip("/"): r for r in json.load(open(demo_json))}
    checks = {r["dir"].rstrip("/"): r for r in json.load(open(checks_json))}
    have = {e["name"] for e in index}
    for d in sorted(glob.glob(root + "/*/[0-9]")):
        base = os.path.basename(os.path.dirname(d))
        name = "%s%s_%s" % (base, suffix, os.path.basename(d))
        cname = "%s_%s" % (base, os.path.basename(d))
        dm, ck = demo.get(d), checks.get(d)
        cj = "/tmp/seed_confirm/%s.json" % cname
        conf = json.load(open(cj)) if os.path.exists(cj) else None
        why = None
        if dm is None or ck is None or not dm.get("applies"):
            why = "no result / patch does not apply"
        elif not (dm.get("demo_pristine") == 0 and dm.get("demo_patched") not in (0, None, 124)):
            why = "demonstration not confirmed (pristine=%s patched=%s)" % (dm.get("demo_pristine"), dm.get("demo_patched"))
        elif conf is None:
            why = "repository tests not re-run yet"
        elif conf.get("dbm_test_contains") and not conf["dbm_test_contains"]["passed"]:
            why = "TestDBMDict::test_contains fails with the patch"
        elif conf.get("passed") is False:
            why = "repository tests fail with the patch: %s" % conf.get("unexpected_failures")
        if why:
            print("skipped", name, "-", why)
            continue
        meta = {}
        try:
            meta = json.load(open(os.path.join(d, "meta.json")))
        except Exception:
            pass
        prop = (meta.get("property") or base)[:3]
        dst = os.path.join(OUT, name)
        os.makedirs(dst, exist_ok=True)
        shutil.copy(os.path.join(d, "patch.diff"), os.path.join(dst, "patch.diff"))
        shutil.copy(os.path.join(d, "demo.py"), os.path.join(dst, "demo.py"))
        fired = fired_of(ck)
        json.dump({
            "property": prop,
            "breaks": meta.get("summary", ""),
            "files": meta.get("files", conf.get("files", [])),
            "needs_to_manifest": meta.get("needs_to_manifest", ""),
            "why_tests_pass": meta.get("why_tests_pass", ""),
            "origin": "independent sub-agent given only the property text and a private worktree",
            "confirmed_here": {
                "demo": "cd <scratch export of /repo HEAD> && HOME=<tmp> /venv/bin/python demo.py -> exit %s on the unchanged tree, exit %s with patch.diff applied" % (dm.get("demo_pristine"), dm.get("demo_patched")),
                "tests": conf.get("cmd") or conf.get("note", ""),
                "tests_summary": conf.get("summary", "") + ((" ; " + conf["dbm_test_contains"]["cmd"] + ": " + conf["dbm_test_contains"]["summary"])
                                                           if conf.get("dbm_test_contains") else ""),
                "checks_run": "every registered quick check with --root <patched scratch copy>",
            },
            "detected_by": fired,
            "detected_by_own_property_check": prop in fired,
        }, open(os.path.join(dst, "meta.json"), "w"), indent=1)
        if name not in have:
            index.append({"name": name, "path": name, "kind": "seed", "property": prop, "own": prop in fired})
        else:
            for e in index:
                if e["name"] == name:
                    e["own"] = prop in fired
        print("archived", name, "own" if prop in fired else "NOT REPORTED BY OWN CHECK")

def add_benign(root, prefix, index):
    have = {e["name"] for e in index}
    for d in sorted(glob.glob(root + "/*/[0-9]*")):
        area, k = os.path.basename(os.path.dirname(d)), os.path.basename(d)
        if not os.path.exists(os.path.join(d, "patch.diff")) or not os.path.getsize(os.path.join(d, "patch.diff")):
            continue
        short = "%s%s_%s" % (prefix, area, k)
        dst = os.path.join(OUT, "benign", short)
        os.makedirs(dst, exist_ok=True)
        shutil.copy(os.path.join(d, "patch.diff"), os.path.join(dst, "patch.diff"))
        meta = {}
        try:
            meta = json.load(open(os.path.join(d, "meta.json")))
        except Exception:
            pass
        json.dump({"kind": "behaviour-preserving refactoring", "area": area, "summary": meta.get("summary", ""), "files": meta.get("files", []),
                   "why_equivalent": meta.get("why_equivalent", ""), "tests_run_by_author": meta.get("tests_run", ""),
                   "origin": "independent sub-agent given only the area and a private worktree; every check must stay silent on it"},
                  open(os.path.join(dst, "meta.json"), "w"), indent=1)
        if "benign/" + short not in have:
            index.append({"name": "benign/" + short, "path": "benign/" + short, "kind": "benign"})
        print("archived benign", short)

def write_index_md(index):
    rows, nb = [], 0
    for e in index:
        if e["kind"] == "benign":
            nb += 1
            continue
        m = json.load(open(os.path.join(OUT, e["path"], "meta.json")))
        rows.append((e["name"], e["property"], m.get("breaks", ""), m.get("detected_by", {})))
    rows.sort()
    with open(os.path.join(OUT, "INDEX.md"), "w") as f:
        f.write("# Independently produced changes used to test the checks\n\n")
        f.write("## Seeded defects (%d)\n\nEach breaks the named property, passes the repository's tests and needs something specific to manifest; `demo.py` exits 0 on the "
                "unchanged tree and non-zero with `patch.diff` applied.  Columns: which registered checks report it (rule of the first report).\n\n" % len(rows))
        f.write("| change | property | what was changed | reported by |\n|---|---|---|---|\n")
        for name, prop, summ, fired in rows:
            by = ", ".join("%s%s %s" % ("**" if pid == prop else "", pid, (v.get("rule") or "") + ("**" if pid == prop else "")) for pid, v in sorted(fired.items())) or "_none_"
            f.write("| %s | %s | %s | %s |\n" % (name, prop, summ.replace("|", "/").replace("\n", " ")[:260], by))
        f.write("\n## Behaviour-preserving refactorings (%d)\n\nEvery registered check stays silent on each of them (`seeded/benign/<area>_<k>/`); the thorough tier re-applies them.\n" % nb)
        opened = sorted(glob.glob(os.path.join(OUT, "benign_open", "*", "meta.json")))
        if opened:
            f.write("\n## Behaviour-preserving refactorings on which a check still raises an alarm (%d)\n\nOpen false alarms, kept apart from the set above "
                    "(`seeded/benign_open/<area>_<k>/`, not part of index.json); DESIGN.md 9.11 says why.\n\n| change | alarms | what was changed |\n|---|---|---|\n" % len(opened))
            for mp in opened:
                mm = json.load(open(mp))
                f.write("| %s | %s | %s |\n" % (os.path.basename(os.path.dirname(mp)), ", ".join("%s %s" % kv for kv in sorted(mm.get("alarms", {}).items())).replace("|", "/"),
                                               mm.get("summary", "").replace("|", "/").replace("\n", " ")[:260]))
    print("INDEX.md:", len(rows), "seeds,", nb, "benign")

def main():
    a = sys.argv[1:]
    index = json.load(open(os.path.join(OUT, "index.json")))
    suffix = ""
    i = 0
    while i < len(a):
        if a[i] == "--suffix":
            suffix = a[i + 1]; i += 2
        elif a[i] == "--seeds":
            add_seeds(a[i + 1].rstrip("/"), suffix, a[i + 2], a[i + 3], index); i += 4
        elif a[i] == "--benign":
            add_benign(a[i + 1].rstrip("/"), a[i + 2], index); i += 3
        elif a[i] == "--refresh":
            # recompute detected_by of already archived seeds from a CHECKS.json run over seeded/<name> directories
            checks = {os.path.basename(r["dir"].rstrip("/")): r for r in json.load(open(a[i + 1]))}
            for e in index:
                if e["kind"] == "seed" and e["name"] in checks:
                    mp = os.path.join(OUT, e["path"], "meta.json")
                    m = json.load(open(mp))
                    m["detected_by"] = fired_of(checks[e["name"]])
                    m["detected_by_own_property_check"] = e["own"] = e["property"] in m["detected_by"]
                    json.dump(m, open(mp, "w"), indent=1)
            i += 2
        else:
            sys.exit("unknown argument " + a[i])
    json.dump(index, open(os.path.join(OUT, "index.json"), "w"), indent=1)
    write_index_md(index)
main()
