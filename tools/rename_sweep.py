#!/usr/bin/env python3
"""Development tool: mechanical behaviour-preserving renamings (sa/renames.py), to measure false alarms / analysis errors.

usage: rename_sweep.py KIND [-j N] [--only SUBSTR] [--keep]      (KIND = locals | params | params_private | private | attrs | all | swap_if | flip_cmp | ret_tmp | test_tmp | split_and | demorgan | reshape)
Every registered quick check is run with --root <variant>; anything but silence (exit 0) is printed.
"""
import os, shutil, subprocess, sys, tempfile, concurrent.futures as cf
VERIF = os.path.dirname(os.path.dirname(os.path.abspath(__file__)))
sys.path.insert(0, VERIF)
from sa.selftest import copy_tree
from sa import renames

PIDS = ["C%02d" % i for i in range(1, 21)]


def run_checks(root):
    res = {}
    for pid in PIDS:
        p = subprocess.run([os.path.join(VERIF, "check"), pid, "--root", root], capture_output=True, text=True)
        if p.returncode != 0:
            lines = [l for l in p.stdout.splitlines() if "VIOLATION" not in l and ("[R" in l or "ANALYSIS-ERROR" in l)]
            res[pid] = (p.returncode, (lines or p.stdout.splitlines()[-2:] or p.stderr.splitlines()[-2:])[:2])
    return res


def variant(kind, key, all_kw, keep=False):
    tmp = tempfile.mkdtemp(prefix="rsw_")
    root = os.path.join(tmp, "repo")
    try:
        copy_tree(root)
        n = renames.apply_reshape(root, kind, key) if kind in renames.RESHAPES else renames.apply(root, kind, key, all_kw)
        if n == 0:
            return kind, key, 0, None
        return kind, key, n, run_checks(root)
    finally:
        if not keep:
            shutil.rmtree(tmp, ignore_errors=True)
        else:
            print("kept", root)


def main():
    args = sys.argv[1:]
    kind = args[0]
    jobs = int(args[args.index("-j") + 1]) if "-j" in args else 8
    only = args[args.index("--only") + 1] if "--only" in args else None
    keep = "--keep" in args
    all_kw = renames.keyword_names("/repo")
    work = [w for w in renames.variants("/repo") if kind in ("all", w[0])]
    if kind in renames.RESHAPES or kind == "reshape":
        work = [w for w in renames.reshape_variants("/repo") if kind in ("reshape", w[0])]
    if kind == "params_private":
        work = [("params_private", k) for (kd, k) in renames.variants("/repo") if kd == "params"]
    if only:
        work = [w for w in work if only in w[1]]
    bad = done = 0
    with cf.ThreadPoolExecutor(jobs) as ex:
        for kind_, key, n, res in ex.map(lambda w: variant(w[0], w[1], all_kw, keep), work):
            if n == 0:
                continue
            done += 1
            if res:
                bad += 1
                for pid, (rc, lines) in sorted(res.items()):
                    print("%-8s %-60s %s exit=%d %s" % (kind_, key, pid, rc, " | ".join(l.strip()[:220] for l in lines)))
    print("variants run: %d, not silent: %d" % (done, bad))


if __name__ == "__main__":
    main()
