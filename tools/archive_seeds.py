#!/usr/bin/env python3
"""Development tool: copy confirmed seeded defects into /verif/seeded/ and write seeded/INDEX.md.
usage: archive_seeds.py RESULTS.json   (RESULTS.json from `try_seeds.py --demo --checks all --json`)"""
import json, os, re, shutil, sys
VERIF = os.path.dirname(os.path.dirname(os.path.abspath(__file__)))
res = json.load(open(sys.argv[1]))
rows = []
for r in res:
    d = r["dir"]
    prop = r["property"]
    k = os.path.basename(d)
    name = "%s_%s" % (os.path.basename(os.path.dirname(d)), k)
    conf = {}
    cj = "/tmp/seed_confirm/%s.json" % name
    if os.path.exists(cj):
        conf = json.load(open(cj))
    ok_demo = r.get("demo_pristine") == 0 and r.get("demo_patched") not in (0, None)
    ok_tests = conf.get("passed") in (True, None) and conf.get("applies", True)
    if not (r.get("applies") and ok_demo and ok_tests and conf):
        print("skip", name, "applies", r.get("applies"), "demo", r.get("demo_pristine"), r.get("demo_patched"), "tests", conf.get("passed", "unconfirmed"))
        continue
    dst = os.path.join(VERIF, "seeded", name)
    os.makedirs(dst, exist_ok=True)
    shutil.copy(os.path.join(d, "patch.diff"), os.path.join(dst, "patch.diff"))
    shutil.copy(os.path.join(d, "demo.py"), os.path.join(dst, "demo.py"))
    meta = {}
    try:
        meta = json.load(open(os.path.join(d, "meta.json")))
    except Exception:
        pass
    fired = {}
    for pid, f in (r.get("fired") or {}).items():
        rule = None
        for line in f.get("first", []):
            m = re.search(r"\[(R[\d.]+)\]", line)
            if m:
                rule = m.group(1)
                break
        fired[pid] = {"exit": f["exit"], "rule": rule, "first_report": (f.get("first") or [""])[0].strip()[:300]}
    meta_out = {
        "property": prop,
        "breaks": meta.get("summary", ""),
        "files": meta.get("files", conf.get("files", [])),
        "needs_to_manifest": meta.get("needs_to_manifest", ""),
        "why_tests_pass": meta.get("why_tests_pass", ""),
        "origin": "independent sub-agent given only the property text and a private worktree",
        "confirmed_here": {
            "demo": "cd <scratch export of /repo HEAD> && HOME=<tmp> /venv/bin/python demo.py -> exit %s on the unchanged tree, exit %s with patch.diff applied" % (r.get("demo_pristine"), r.get("demo_patched")),
            "tests": conf.get("cmd") or conf.get("note", ""),
            "tests_summary": conf.get("summary", ""),
            "tests_unexpected_failures": conf.get("unexpected_failures", []),
            "checks_run": "every registered quick check with --root <patched scratch copy>",
        },
        "detected_by": fired,
        "detected_by_own_property_check": prop in fired,
    }
    json.dump(meta_out, open(os.path.join(dst, "meta.json"), "w"), indent=1)
    rows.append((name, prop, meta_out["breaks"], fired))
rows.sort()
with open(os.path.join(VERIF, "seeded", "INDEX.md"), "w") as f:
    f.write("# Seeded defects (independent, confirmed) and the checks that report them\n\n")
    f.write("Each row: a change that breaks the property, still passes the repository's tests, and needs something specific to manifest.\n"
            "`own` = reported by the check of the property it was written against; other checks that also report it are listed.\n\n")
    f.write("| seed | property | change | reported by (rule) |\n|---|---|---|---|\n")
    for name, prop, what, fired in rows:
        by = ", ".join("%s%s (%s)" % ("**" if p == prop else "", p + ("**" if p == prop else ""), v["rule"]) for p, v in sorted(fired.items())) or "NOT DETECTED"
        f.write("| %s | %s | %s | %s |\n" % (name, prop, what.replace("|", "/")[:160], by))
    f.write("\n%d seeds, %d reported by their own property's check, %d reported only by another property's check, %d not reported.\n" % (
        len(rows), sum(1 for r in rows if r[1] in r[3]), sum(1 for r in rows if r[3] and r[1] not in r[3]), sum(1 for r in rows if not r[3])))
print("archived", len(rows))
