#!/usr/bin/env python3
"""Development tool (never run by a check): freeze the reference symbol table of the pinned tree.

sa/normalize.py expands every function / module constant / class constant that this table does NOT list, so the table
is the statement "these are the functions the rules were written against".  Regenerate only after reading the diff.

usage: tools/gen_known.py [ROOT]   (default /repo)
"""
import json, os, sys
VERIF = os.path.dirname(os.path.dirname(os.path.abspath(__file__)))
sys.path.insert(0, VERIF)
os.environ["SSEPY_VERIF_RAW"] = "1"
from sa.model import load_repo

root = sys.argv[1] if len(sys.argv) > 1 else "/repo"
repo = load_repo(root)
out = {"functions": [], "globals": {}, "class_attrs": {}, "imports": {}}
for rel, m in sorted(repo.modules.items()):
    out["globals"][rel] = sorted(m.globals)
    out["imports"][rel] = dict(sorted(m.imports.items()))
    for fi in m.all_functions():
        out["functions"].append(fi.key)
    for cn, ci in m.classes.items():
        out["class_attrs"]["%s::%s" % (rel, cn)] = sorted(ci.attrs)
out["functions"].sort()
# for the rename normal form: who refers to each function name, how many parameters it takes, which instance attributes a class stores
import ast
names = {}
for k in out["functions"]:
    names.setdefault(k.split("::")[1].split(".")[-1], []).append(k)
refs = {k: set() for k in out["functions"]}
arity = {}
inst = {}
for rel, m in sorted(repo.modules.items()):
    for fi in m.all_functions():
        arity[fi.key] = len(fi.params)
        for x in ast.walk(fi.node):
            nm = x.id if isinstance(x, ast.Name) else (x.attr if isinstance(x, ast.Attribute) else None)
            if nm in names and not (isinstance(x, ast.Name) and isinstance(x.ctx, ast.Store)):
                via_self = isinstance(x, ast.Attribute) and isinstance(x.value, ast.Name) and x.value.id in ("self", "cls")
                for k in names[nm]:
                    if k == fi.key:
                        continue
                    if via_self and fi.cls is not None:
                        # self.<name> inside a class that is unrelated (by inheritance) to the class defining k cannot mean k
                        krel, kq = k.split("::")
                        kcls = repo.modules[krel].classes.get(kq.split(".")[0]) if "." in kq else None
                        if kcls is not None and kcls is not fi.cls:
                            from sa.normalize import _ancestors_of
                            if kcls.key not in _ancestors_of(repo, fi.cls) and fi.cls.key not in _ancestors_of(repo, kcls):
                                continue
                    refs[k].add(fi.key)
    for cn, ci in m.classes.items():
        st = set()
        for f in ci.methods.values():
            for x in ast.walk(f.node):
                if isinstance(x, ast.Attribute) and isinstance(x.ctx, ast.Store) and isinstance(x.value, ast.Name) and x.value.id == "self":
                    st.add(x.attr)
        inst["%s::%s" % (rel, cn)] = sorted(st)
# first store of every instance attribute, in source order: (attr, method, text of the stored value)
order = {}
for rel, m in sorted(repo.modules.items()):
    for cn, ci in m.classes.items():
        seq, seen = [], set()
        for fn in [x for x in ci.node.body if isinstance(x, (ast.FunctionDef, ast.AsyncFunctionDef))]:
            for st in sorted([y for y in ast.walk(fn) if isinstance(y, ast.stmt)], key=lambda y: (y.lineno, y.col_offset)):
                tg = st.targets if isinstance(st, ast.Assign) else ([st.target] if isinstance(st, (ast.AnnAssign, ast.AugAssign)) else [])
                for t in tg:
                    for x in ast.walk(t):
                        if isinstance(x, ast.Attribute) and isinstance(x.ctx, ast.Store) and isinstance(x.value, ast.Name) and x.value.id == "self" and x.attr not in seen:
                            seen.add(x.attr)
                            v = getattr(st, "value", None)
                            seq.append([x.attr, fn.name, ast.unparse(v) if v is not None and t is x else ""])
        order["%s::%s" % (rel, cn)] = seq
out["instance_attr_order"] = order
out["def_order"] = {fi.key: fi.node.lineno for rel, m in repo.modules.items() for fi in m.all_functions()}
out["refs"] = {k: sorted(v) for k, v in refs.items()}
out["arity"] = arity
out["instance_attrs"] = inst
with open(os.path.join(VERIF, "sa", "known_symbols.json"), "w") as f:
    json.dump(out, f, indent=1, sort_keys=True)
print("functions", len(out["functions"]), "modules", len(out["globals"]), "classes", len(out["class_attrs"]))
