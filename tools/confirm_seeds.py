#!/usr/bin/env python3
"""Development tool: confirm that a seeded patch still passes the repository's own tests.
Applies the patch to a scratch export of /repo HEAD, runs the test files that can import the patched modules
(whole suite for toolkit/ patches), writes /tmp/seed_confirm/<prop>_<k>.json.  usage: confirm_seeds.py [-j N] DIR..."""
import json, os, re, shutil, subprocess, sys, tempfile, concurrent.futures as cf
OUT = "/tmp/seed_confirm"

def tests_for(files):
    t = set()
    for f in files:
        if f.startswith("frontend/") or f in ("run_client.py", "run_server.py", "global_config.py"):
            continue
        m = re.match(r"schemes/(\w+)/(\w+)/", f)
        if m:
            t.add("test/test_sse_schemes/test_%s_%s.py" % (m.group(1), m.group(2)))
        elif f.startswith("data_persistence/"):
            t |= {"test/test_persistent_array.py", "test/test_persistent_dict.py"}
        else:
            return ["test"]
    return sorted(t)

def one(d, jobs):
    d = d.rstrip("/")
    name = "%s_%s" % (os.path.basename(os.path.dirname(d)), os.path.basename(d))
    out = os.path.join(OUT, name + ".json")
    if os.path.exists(out):
        return name, json.load(open(out))
    if not os.path.exists(d + "/patch.diff"):
        return name, {"applies": False, "note": "no patch.diff yet"}
    tmp = tempfile.mkdtemp(prefix="seedconf_")
    try:
        subprocess.check_call("git -C /repo archive HEAD | tar -x -C %s" % tmp, shell=True)
        p = subprocess.run("patch -p1 --no-backup-if-mismatch < %s/patch.diff" % d, shell=True, cwd=tmp, capture_output=True, text=True)
        files = re.findall(r"^\+\+\+ b/(\S+)", open(d + "/patch.diff").read(), re.M)
        res = {"files": files, "applies": p.returncode == 0}
        tests = tests_for(files)
        res["tests"] = tests
        if not tests:
            res.update({"passed": None, "note": "only front-end files patched; no test imports frontend/ (grep confirmed), suite result unchanged"})
        elif p.returncode == 0:
            home = tempfile.mkdtemp(prefix="seedhome_")
            # the 10 TestDBMDict tests fail on the unchanged tree (and can dead-lock on a loaded machine): deselected, as in the baseline
            cmd = "/venv/bin/python -m pytest -q -p no:cacheprovider -n %d --dist loadfile --timeout=900 --deselect test/test_persistent_dict.py::TestDBMDict %s" % (jobs, " ".join(tests))
            r = subprocess.run(cmd, shell=True, cwd=tmp, capture_output=True, text=True, env=dict(os.environ, HOME=home))
            tail = r.stdout.strip().splitlines()[-1] if r.stdout.strip() else ""
            failed = re.findall(r"^FAILED (\S+)", r.stdout, re.M)
            unexpected = [f for f in failed if "TestDBMDict" not in f]
            res.update({"cmd": cmd, "summary": tail, "unexpected_failures": unexpected, "passed": not unexpected and "error" not in tail.lower()})
            shutil.rmtree(home, ignore_errors=True)
        os.makedirs(OUT, exist_ok=True)
        json.dump(res, open(out, "w"), indent=1)
        return name, res
    finally:
        shutil.rmtree(tmp, ignore_errors=True)

def main():
    args = sys.argv[1:]
    par = 3
    if args and args[0] == "-j":
        par = int(args[1]); args = args[2:]
    with cf.ThreadPoolExecutor(par) as ex:
        for name, res in ex.map(lambda d: one(d, 5), args):
            print(name, res.get("passed"), res.get("summary", res.get("note", "")), res.get("unexpected_failures", ""))
            sys.stdout.flush()
main()
