#!/bin/sh
# development tool: run every quick check N times under different hash seeds; any non-zero exit is a flake
N=${1:-10}
cd "$(dirname "$0")/.."
for p in 01 02 03 04 05 06 07 08 09 10 11 12 13 14 15 16 17 18 19 20; do
  for i in $(seq 1 $N); do
    PYTHONHASHSEED=$i SSEPY_NOEVIDENCE=1 /venv/bin/python -B -m sa C$p --root /repo >/tmp/flaky_$p.out 2>&1 || { echo "FLAKE C$p seed=$i"; tail -5 /tmp/flaky_$p.out; }
  done
done
echo done
