#!/usr/bin/env python3
"""Development tool (not a registered check): apply each seeded patch to a scratch copy of /repo,
confirm its demonstration both ways, and run the registered checks against the patched copy.

usage: tools/try_seeds.py [--demo] [--checks C01,C02|all|own] DIR...   (DIR contains patch.diff, demo.py, meta.json)
"""
import json, os, shutil, subprocess, sys, tempfile, concurrent.futures as cf
VERIF = os.path.dirname(os.path.dirname(os.path.abspath(__file__)))
REPO = "/repo"

def sh(cmd, cwd=None, env=None, timeout=600):
    p = subprocess.run(cmd, shell=True, cwd=cwd, env=env, stdout=subprocess.PIPE, stderr=subprocess.STDOUT, text=True, timeout=timeout)
    return p.returncode, p.stdout

def copy_repo(dst):
    sh("git -C %s archive HEAD | tar -x -C %s" % (REPO, dst))

def one(d, demo, checks):
    d = d.rstrip("/")
    meta = {}
    try:
        meta = json.load(open(os.path.join(d, "meta.json")))
    except Exception:
        pass
    prop = meta.get("property") or os.path.basename(os.path.dirname(d))
    tmp = tempfile.mkdtemp(prefix="seedtry_")
    res = {"dir": d, "property": prop, "summary": meta.get("summary", "")}
    try:
        pristine = os.path.join(tmp, "pristine"); patched = os.path.join(tmp, "patched")
        os.makedirs(pristine); os.makedirs(patched)
        copy_repo(pristine); copy_repo(patched)
        rc, out = sh("patch -p1 --no-backup-if-mismatch < %s" % os.path.join(d, "patch.diff"), cwd=patched)
        res["applies"] = (rc == 0)
        if rc != 0:
            res["apply_out"] = out[-400:]
            return res
        if demo and os.path.exists(os.path.join(d, "demo.py")):
            for name, root in (("pristine", pristine), ("patched", patched)):
                home = os.path.join(tmp, "home_" + name); os.makedirs(home)
                shutil.copy(os.path.join(d, "demo.py"), os.path.join(root, "demo.py"))
                env = dict(os.environ, HOME=home, PYTHONDONTWRITEBYTECODE="1")
                try:
                    rc, out = sh("/venv/bin/python demo.py", cwd=root, env=env, timeout=300)
                except subprocess.TimeoutExpired:
                    rc, out = 124, "timeout"
                res["demo_" + name] = rc
                res["demo_%s_tail" % name] = out[-300:]
        ids = checks
        if checks == ["own"]:
            ids = [prop]
        elif checks == ["all"]:
            ids = [c["property_id"] for c in json.load(open(os.path.join(VERIF, "MANIFEST.json")))["checks"]]
        fired = {}
        for pid in ids:
            rc, out = sh("/venv/bin/python -B -m sa %s --root %s" % (pid, patched), cwd=VERIF, env=dict(os.environ, SSEPY_NOEVIDENCE="1"))
            if rc != 0:
                lines = [l for l in out.splitlines() if l.startswith("  ") and "[" in l and not l.startswith("  [")][:3]
                fired[pid] = {"exit": rc, "first": lines or out.splitlines()[-3:]}
        res["fired"] = fired
        return res
    finally:
        shutil.rmtree(tmp, ignore_errors=True)

def main():
    args = sys.argv[1:]
    demo = False; checks = ["all"]; dirs = []; jout = None
    i = 0
    while i < len(args):
        if args[i] == "--demo": demo = True
        elif args[i] == "--checks": i += 1; checks = args[i].split(",")
        elif args[i] == "--json": i += 1; jout = args[i]
        else: dirs.append(args[i])
        i += 1
    allres = []
    with cf.ThreadPoolExecutor(int(os.environ.get("TRY_JOBS", "8"))) as ex:
        for r in ex.map(lambda d: one(d, demo, checks), dirs):
            allres.append(r)
            tag = "CAUGHT" if r.get("fired") else ("NOAPPLY" if not r.get("applies") else "missed")
            if any(f["exit"] != 1 for f in (r.get("fired") or {}).values()):
                tag = "ERROR "   # a check stopped with an analysis error (exit 2): neither a verdict nor silence
            dm = ""
            if "demo_pristine" in r:
                dm = " demo(pristine=%s patched=%s)" % (r["demo_pristine"], r["demo_patched"])
            print("%-8s %s [%s]%s %s" % (tag, r["dir"], r["property"], dm, r["summary"][:110]))
            for pid, f in (r.get("fired") or {}).items():
                print("         %s exit=%s %s" % (pid, f["exit"], (f["first"][0].strip()[:200] if f["first"] else "")))
            if not r.get("applies"): print("        ", r.get("apply_out"))
    if jout:
        json.dump(allres, open(jout, "w"), indent=1)
main()
