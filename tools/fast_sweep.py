#!/usr/bin/env python3
"""Development tool: all registered checks against each patch directory, one process per patch (the patched tree is parsed and
normalised once and shared by the twenty property modules).  An alarm found here is re-run with the registered command line
(`python -m sa Cxx --root <copy>`) before it is believed.   usage: fast_sweep.py [-j N] [--own] DIR...   /   fast_sweep.py --one ROOT [Cxx,..]"""
import json, os, subprocess, sys, tempfile, shutil, concurrent.futures as cf
VERIF = os.path.dirname(os.path.dirname(os.path.abspath(__file__)))


def one_root(root, only=None):
    sys.path.insert(0, VERIF)
    import importlib
    from sa.core import run_property
    fired = {}
    for c in json.load(open(os.path.join(VERIF, "MANIFEST.json")))["checks"]:
        pid = c["property_id"]
        if only and pid not in only:
            continue
        mod = importlib.import_module("sa.props.%s" % pid.lower())
        code, rules, viols, out = run_property(pid, mod, tier="quick", root=root, quiet=True, write_evidence=False)
        if code != 0:
            fired[pid] = {"exit": code, "first": [("%s [%s] %s" % (v.file, v.rule, v.message))[:300] for v in viols[:2]] or out[-2:]}
    print("FIRED " + json.dumps(fired))


def one(d, own=False):
    d = d.rstrip("/")
    tmp = tempfile.mkdtemp(prefix="fsweep_")
    try:
        subprocess.check_call("git -C /repo archive HEAD | tar -x -C %s" % tmp, shell=True)
        p = subprocess.run("patch -p1 -s --no-backup-if-mismatch < %s" % os.path.join(os.path.abspath(d), "patch.diff"), shell=True, cwd=tmp, capture_output=True, text=True)
        if p.returncode != 0:
            return d, None, p.stdout[-300:]
        cmd = ["/venv/bin/python", "-B", os.path.abspath(__file__), "--one", tmp]
        if own:
            cmd.append(json.load(open(os.path.join(d, "meta.json")))["property"][:3])
        r = subprocess.run(cmd, capture_output=True, text=True, cwd=VERIF, env=dict(os.environ, SSEPY_NOEVIDENCE="1"))
        for line in r.stdout.splitlines():
            if line.startswith("FIRED "):
                return d, json.loads(line[6:]), ""
        return d, None, (r.stdout + r.stderr)[-400:]
    finally:
        shutil.rmtree(tmp, ignore_errors=True)


def main():
    a = sys.argv[1:]
    if a[:1] == ["--one"]:
        return one_root(a[1], set(a[2].split(",")) if len(a) > 2 else None)
    j, own = 12, False
    while a and a[0] in ("-j", "--own"):
        if a[0] == "-j":
            j = int(a[1]); a = a[2:]
        else:
            own = True; a = a[1:]
    silent = 0
    with cf.ThreadPoolExecutor(j) as ex:
        for d, fired, err in ex.map(lambda x: one(x, own), a):
            if fired is None:
                print("ERROR   ", d, err)
            elif fired:
                print("ALARM   ", d, json.dumps(fired)[:600])
            else:
                silent += 1
            sys.stdout.flush()
    print("silent:", silent, "of", len(a))


main()
