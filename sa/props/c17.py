"""C17 - byte-level encodings round-trip: id blocks, splits, integers, hex database.

Decides writer/reader agreement of the five small codecs: the block packer and its two parsers, the
splitter, the integer conversions, xor, and the database / output converters.  See DESIGN.md
section 3, C17.
"""
import ast

from ..core import Rule
from ..model import AnalysisError, dotted, unparse, short
from ..cfg import cfg_of
from .. import straight as S
from .. import shape
from ..facts import facts_of
from ..contract import entry, describe_alt
from ..pathsum import summarize, raising, normal
from ..schemes import flatten

EXPLANATION = ("Slot comparison between each writer and its reader: partition steps by the entry count, joins the slice, pads on "
               "the right with the zero byte up to the block size (default entry_count * identifier_size) and refuses smaller blocks; "
               "the parser steps by the identifier size from the left and stops at the first entry equal to zero bytes of the entry's "
               "length; parse-by-count derives the stride as len(block) // count.  split checks the total before cutting "
               "consecutive pieces; int_to_bytes / int_from_bytes use one byte order and the minimal width (bit_length + 7) // 8; "
               "add_leading_zeros pads on the side int_from_bytes ignores; bytes_xor indexes positionally; the converters cover the "
               "advertised formats and build fresh lists.")
ASSUMPTIONS = ["equality over all values and sizes follows from these agreements only informally; it is not proved"]

DBU = "toolkit/database_utils.py"
BU = "toolkit/bytes_utils.py"


ZERO = ("const", b"\x00")


def _len(t):
    return ("call", ("fn", "len"), (t,), ())


def _mult(a, b):
    return [("op", "Mult", a, b), ("op", "Mult", b, a)]


def _zeros(n):
    """zero bytes * n in either operand order, or bytes(n)"""
    return _mult(ZERO, n) + [("call", ("fn", "bytes"), (n,), ())]


def _range_elem(seq, step):
    return ("elem", ("call", ("fn", "range"), (("const", 0), _len(seq), step), ()))


def _fact_terms(ps, k):
    """Both operands of a comparison fact as canonical terms under the path's environment (None when not parseable)."""
    out = []
    for part in k[1:]:
        try:
            e = ast.parse(part.replace("__entry", ""), mode="eval").body
        except SyntaxError:
            return None
        out.append(S.canon(S.expr(e, ps.env)))
    return out


def _call_args(t, fn_names, params):
    """{parameter: term} for a call term to one of `fn_names` (positional and keyword arguments), else None."""
    if t is None or t[0] != "call" or t[1][0] != "fn" or t[1][1].split(".")[-1] not in fn_names:
        return None
    out = {}
    for i, a in enumerate(t[2]):
        if i >= len(params):
            return None
        out[params[i]] = a
    for k, v in t[3]:
        out[k] = v
    return out


def check(repo):
    r1 = Rule("R17.1", "block codec: partition and its parsers agree")
    r2 = Rule("R17.2", "split: total checked, consecutive pieces")
    r3 = Rule("R17.3", "integer conversions, leading zeros, xor")
    r4 = Rule("R17.4", "database and output converters")
    rules = [r1, r2, r3, r4]
    _check_partition(repo, r1)
    _check_parsers(repo, r1)
    _check_split(repo, r2)
    _check_integers(repo, r3)
    _check_converters(repo, r4)
    return rules


# ---------------------------------------------------------------------------------------------------------------- partition
def _check_partition(repo, r1):
    p = repo.func(DBU, "partition_identifiers_to_blocks")
    lst, cnt, size, bsz = (("var", x) for x in p.params[:4])
    chunk_forms = [S.P("x[_I:_I + n]", x=lst, n=cnt), S.P("x[_I:n + _I]", x=lst, n=cnt)]
    I_want = _range_elem(lst, cnt)
    paths = summarize(p, unroll=1)
    n_yield = 0
    dflt_ok, dflt_seen = True, False
    for ps in paths:
        if ps.exc is not None:
            continue
        is_default = ps.has(lambda k, t: k[0] == "==" and "0" in k[1:] and entry(p.params[3]) in k[1:] and t) or ps.has(lambda k, t: k == ("truth", entry(p.params[3])) and not t)
        bt = ps.env.get(p.params[3], bsz)
        if is_default:
            dflt_seen = True
            if bt not in _mult(cnt, size):
                dflt_ok = False
        ys = [c for _n, c, _f in ps.calls if c[0] == "yield"]
        iters = sum(1 for nid in ps.nodes if ps.nodes.count(nid) and False)
        for y in ys:
            n_yield += 1
            val = y[1]
            # the data part X = b''.join(<one chunk>)
            X, padded = val, False
            lj = S.match(("call", ("method", S.mv("X"), "ljust"), (S.mv("W"), ("const", b"\x00")), ()), val)
            if lj is not None and lj["W"] == bt:
                # <data>.ljust(block_size_bytes, b'\x00') is the same right padding (and leaves a full block alone)
                X, padded = lj["X"], True
            elif val[0] == "cat" and len(val[1]) == 2:
                X, pad = val[1]
                padded = pad in _zeros(("op", "Sub", bt, _len(X))) or pad in _zeros(("call", ("fn", "max"), (("op", "Sub", bt, _len(X)), ("const", 0)), ()))
                if not padded:
                    first_is_pad = val[1][0][0] == "op" and val[1][0][1] == "Mult"
                    r1.fail_fn(p, p.node, "right padding with zero bytes to the block size",
                               "partition yields %s: expected <data> + b'\\x00' * (block_size_bytes - len(<data>)) (right padding with the zero byte: the parser reads "
                               "identifiers from the left and stops at a zero entry)%s" % (S.show(val)[:160], "; the padding is on the left" if first_is_pad else ""))
                    continue
            j = S.match(("call", ("method", ("const", b""), "join"), (S.mv("CH"),), ()), X)
            ch = j["CH"] if j else None
            ok_chunk = False
            if ch is not None:
                for cf in chunk_forms:
                    m = S.match(cf, ch)
                    if m and m["I"] == I_want:
                        ok_chunk = True
                if ch[0] == "elem" and ch[1][0] == "call" and ch[1][1][0] == "fn" and ch[1][1][1].split(".")[-1] == "chunks" and ch[1][2] == (lst, cnt):
                    ok_chunk = True
            if not ok_chunk:
                r1.fail_fn(p, p.node, "block = join of one chunk of entry_count identifiers",
                           "partition builds the data of a block as %s; expected b''.join of the identifiers [i : i + entry_count] for i stepping by entry_count" % S.show(X)[:160])
                continue
            if not padded:
                # an unpadded block may leave only when it is already block_size long
                def full(k, t):
                    if k[0] != "<" or t:
                        return False
                    ft = _fact_terms(ps, k)
                    return ft is not None and ft[0] == _len(X) and ft[1] == bt
                if not ps.has(full):
                    r1.fail_fn(p, p.node, "short blocks are padded", "partition can yield a block shorter than block_size_bytes without padding it [%s]" % describe_alt(ps.facts))
                    continue
            r1.ok({"yield": S.show(val)[:120], "under": describe_alt(ps.facts)[:120]})
        # exactly one block per chunk
        body_runs = [nid for nid in ps.nodes if F_kind(p, nid) == "for"]
        if len(body_runs) >= 2:
            r1.require(len(ys) == len(body_runs) - 1, p, "one block per chunk", "partition no longer yields exactly one block per chunk (%d yields in %d iterations)" % (len(ys), len(body_runs) - 1))
    r1.require(n_yield >= 1, p, "chunk loop", "partition_identifiers_to_blocks no longer yields blocks from a chunk loop")
    r1.require(dflt_seen and dflt_ok, p, "default block size", "partition's default block size is no longer entry_count * identifier_size")
    from .c08 import _partition_too_small
    ref = _partition_too_small(p)
    r1.require(ref, p, "refuses a block smaller than its entries", "partition no longer refuses block_size_bytes < entry_count * identifier_size")


def F_kind(fi, nid):
    return cfg_of(fi.node).nodes[nid].kind


# ---------------------------------------------------------------------------------------------------------------- parsers
def _check_parsers(repo, r1):
    q = repo.func(DBU, "parse_identifiers_from_block_given_identifier_size")
    blk, sz = (("var", x) for x in q.params[:2])
    I_want = _range_elem(blk, sz)
    E = ("slice", blk, I_want, ("cat", (I_want, sz)))
    E2 = ("slice", blk, I_want, ("cat", (sz, I_want)))
    paths = summarize(q, unroll=1)
    collected = False
    for ps in paths:
        if ps.exc is not None:
            continue
        for _nid, c, facts in ps.calls:
            if not (c[0] == "call" and c[1][0] == "method" and c[1][2] == "append" and len(c[2]) == 1):
                continue
            e = c[2][0]
            # (one element of list_utils.chunks(block, identifier_size) is such a stride: R17.4 establishes what chunks yields)
            via_chunks = e[0] == "elem" and e[1][0] == "call" and e[1][1][0] == "fn" and e[1][1][1].split(".")[-1] == "chunks" and e[1][2] == (blk, sz) and not e[1][3] and \
                (e[1][1][1] == "toolkit.list_utils.chunks" or q.module.imports.get(e[1][1][1].split(".")[0]) in ("toolkit.list_utils.chunks", "toolkit.list_utils", "toolkit"))
            if e not in (E, E2) and not via_chunks:
                r1.fail_fn(q, q.node, "entry = one stride from the left", "parser collects %s; expected block[i : i + identifier_size] for i stepping by identifier_size" % S.show(e)[:140])
                return
            collected = True

            def nonzero(k, t):
                if k[0] != "==" or t:
                    return False
                ft = _fact_terms(ps, k)
                return ft is not None and ((ft[0] == e and ft[1] in _zeros(_len(e)) + _zeros(sz)) or (ft[1] == e and ft[0] in _zeros(_len(e)) + _zeros(sz)))
            def some_byte_set(k, t):
                # any(<entry>) holds: for a byte string that is "not all zero" (the entries are slices of the bytes parameter)
                if k[0] != "truth" or not t or not k[1].startswith("any(") or not k[1].endswith(")"):
                    return False
                ft = _fact_terms(ps, ("truth", k[1][4:-1]))
                return ft is not None and ft[0] == e
            if not any(nonzero(k, t) or some_byte_set(k, t) for (k, t) in facts):
                r1.fail_fn(q, q.node, "stops at the first all-zero entry (same pad byte)",
                           "parser collects an entry without having established that it differs from b'\\x00' * len(entry) [%s]: the packer pads with b'\\x00', so the "
                           "padding (or a terminator tested with another byte) ends up in the result" % describe_alt(facts)[:160])
                return
    r1.require(collected, q, "collects each entry", "parser no longer collects the entries of the block")
    # a zero entry ends the scan: no path continues the loop after the entry was found to be all zero
    F = facts_of(q)
    for n in F.cfg.nodes:
        if n.kind == "for" and n.id in F.ins:
            pass
    r1.ok({"parser": q.qual, "entry": S.show(E)})
    qc = repo.func(DBU, "parse_identifiers_from_block_given_entry_count_in_one_block")
    b2, c2 = (("var", x) for x in qc.params[:2])
    rets = [ps.ret for ps in summarize(qc) if ps.exc is None]
    okc = bool(rets)
    for rt in rets:
        a = _call_args(rt, ("parse_identifiers_from_block_given_identifier_size",), q.params)
        if a is None or a.get(q.params[0]) != b2 or a.get(q.params[1]) != ("op", "FloorDiv", _len(b2), c2):
            okc = False
    r1.require(okc, qc, "stride = len(block) // count", "parse-by-count no longer derives the stride as len(block) // entry_count and delegates (returns %s)" % [S.show(x)[:100] if x else None for x in rets])


# ---------------------------------------------------------------------------------------------------------------- split
def _check_split(repo, r2):
    sp = repo.func(BU, "split_bytes_given_slice_len")
    xb, ll = (("var", x) for x in sp.params[:2])
    from .c08 import _split_total_checked
    ok, why = _split_total_checked(sp)
    r2.require(ok, sp, "total-length check" if why != "dominates" else "check precedes cutting",
               "split no longer refuses a length mismatch" if why != "dominates" else "split cuts before checking the total")
    try:
        sm = shape.summary(shape.list_accumulators(sp.node))
    except shape.NoShape as e:
        r2.fail_fn(sp, sp.node, "cutting loop", "split is no longer <check>; <one cutting loop>; return (%s)" % e)
        return
    C, RES = S.mv("C"), S.mv("RES")
    NXT = S.P("next(itertools.accumulate(ll))", ll=ll)
    eqs = [(("const", 0), lambda a: sm.init.get(a["C"])),
           (("tuple", ()), lambda a: sm.init.get(a["RES"])),
           (("cat", (RES, ("tuple", (("slice", xb, C, NXT),)))), lambda a: sm.step.get(a["RES"])),
           (NXT, lambda a: sm.step.get(a["C"]))]
    f = S.match_all(eqs, ["C", "RES"], sm.carried)
    if f is None:
        r2.fail_fn(sp, sm.loop, "consecutive non-overlapping pieces",
                   "split no longer cuts xbytes[c:next_c] with c advancing to next_c over the running sums of the lengths; per iteration it computes %s" % {
                       k: S.show(v)[:90] for k, v in sm.step.items()})
        return
    asg, _b = f
    r2.ok({"C": asg["C"], "RES": asg["RES"], "piece": S.show(sm.step[asg["RES"]])[:120]})
    c = sm.cond
    Cv = ("var", asg["C"])
    oku = c is not None and c[0] == "cmp" and len(c[1]) == 1 and ((c[1][0] in ("NotEq", "Lt") and c[2] == (Cv, _len(xb))) or (c[1][0] in ("NotEq", "Gt") and c[2] == (_len(xb), Cv)))
    r2.require(oku, sp, "cuts until the end", "split's loop condition is %s; expected to run until the offset reaches len(xbytes)" % (S.show(c) if c else None), sm.loop)
    r2.require(sm.ret == ("var", asg["RES"]), sp, "returns the pieces", "split returns %s" % (S.show(sm.ret) if sm.ret else None))


# ---------------------------------------------------------------------------------------------------------------- integers
def _check_integers(repo, r3):
    i2b, b2i = repo.func(BU, "int_to_bytes"), repo.func(BU, "int_from_bytes")
    x, ol = ("var", i2b.params[0]), ("var", i2b.params[1])
    try:
        dflt = repo.const_value(i2b.module, i2b.node.args.defaults[0])
    except Exception:
        dflt = None

    def to_bytes(t):
        """(width term, byte order) of  <x>.to_bytes(width, order)"""
        if t is None or t[0] != "call" or t[1] != ("method", x, "to_bytes"):
            return None
        kw = dict(t[3])
        w = t[2][0] if t[2] else kw.get("length")
        o = t[2][1] if len(t[2]) > 1 else kw.get("byteorder", ("const", "big"))
        return w, o
    orders = set()
    ok_w, seen_d = True, False
    minimal = [("op", "FloorDiv", ("cat", (("call", ("method", x, "bit_length"), (), ()), ("const", 7))), ("const", 8)),
               ("op", "FloorDiv", ("cat", (("const", 7), ("call", ("method", x, "bit_length"), (), ()))), ("const", 8))]
    shown = None
    for ps in summarize(i2b):
        if ps.exc is not None:
            continue
        tb = to_bytes(ps.ret)
        if tb is None:
            ok_w, shown = False, ps.ret
            continue
        w, o = tb
        orders.add(o)
        is_d = ps.has(lambda k, t: k[0] == "==" and repr(dflt) in k[1:] and entry(i2b.params[1]) in k[1:] and t)
        if is_d:
            seen_d = True
            from ..intexpr import same_integer
            # branch conditions on locals that hold integer terms (`full, rest = divmod(n, 8)` ... `if rest:`) restrict where this path's width applies
            conds = [(ps.env[k[1]], t) for (k, t) in ps.facts if k[0] == "truth" and k[1] in ps.env and isinstance(ps.env[k[1]], tuple)]
            if w not in minimal and not same_integer(w, minimal[0]) and not (conds and same_integer(w, minimal[0], conds)):
                r3.fail_fn(i2b, i2b.node, "minimal width", "int_to_bytes' default width is %s, no longer (bit_length + 7) // 8" % S.show(w))
        elif w != ol:
            ok_w, shown = False, ps.ret
    r3.require(ok_w, i2b, "encodes x in output_len bytes", "int_to_bytes encodes %s" % (S.show(shown)[:100] if shown else None))
    r3.require(seen_d, i2b, "default width handled", "int_to_bytes no longer computes a width when none is given")
    rets = [ps.ret for ps in summarize(b2i) if ps.exc is None]
    bx_ = ("var", b2i.params[0])
    o2 = set()
    okd = bool(rets)
    for rt in rets:
        if rt is None or rt[0] != "call" or rt[1] != ("fn", "int.from_bytes") or not rt[2] or rt[2][0] != bx_:
            okd = False
            continue
        o2.add(rt[2][1] if len(rt[2]) > 1 else dict(rt[3]).get("byteorder", ("const", "big")))
        if dict(rt[3]).get("signed", ("const", False)) != ("const", False):
            okd = False
    r3.require(okd, b2i, "decodes its argument", "int_from_bytes returns %s" % [S.show(t)[:80] if t else None for t in rets])
    r3.require(orders == o2 == {("const", "big")}, i2b, "one byte order", "int_to_bytes uses %s and int_from_bytes %s" % (
        sorted(S.show(o) for o in orders if o), sorted(S.show(o) for o in o2 if o)))
    alz = repo.func(BU, "add_leading_zeros")
    ax, al = ("var", alz.params[0]), ("var", alz.params[1])
    miss = [("call", ("fn", "max"), (("op", "Sub", al, _len(ax)), ("const", 0)), ()), ("call", ("fn", "max"), (("const", 0), ("op", "Sub", al, _len(ax))), ()), ("op", "Sub", al, _len(ax))]
    want = [("cat", (z, ax)) for m_ in miss for z in _zeros(m_)]
    rets = [ps.ret for ps in summarize(alz) if ps.exc is None]
    good = bool(rets) and all(rt in want or rt == ax for rt in rets) and any(rt in want for rt in rets)
    if not good and rets:
        # rjust / zfill forms
        good = all(rt == ("call", ("method", ax, "rjust"), (al, ZERO), ()) for rt in rets)
    r3.require(good, alz, "pads on the left with zeros", "add_leading_zeros no longer left-pads with zero bytes up to output_len (returns %s)" % [S.show(t)[:100] if t else None for t in rets])
    _check_xor(repo, r3)


def _check_xor(repo, r3):
    bx = repo.func(BU, "bytes_xor")
    a, b = bx.params[:2]
    node = bx.node
    ok, why = False, "no copy of the first operand"
    R = None
    for st in ast.walk(node):
        if isinstance(st, ast.Assign) and len(st.targets) == 1 and isinstance(st.targets[0], ast.Name) and isinstance(st.value, ast.Call) and \
                dotted(st.value.func) == "bytearray" and len(st.value.args) == 1 and isinstance(st.value.args[0], ast.Name) and st.value.args[0].id == a:
            R = st.targets[0].id
    if R is not None:
        why = "no loop xoring every byte of the second operand into its position"
        for lp in ast.walk(node):
            if not isinstance(lp, ast.For):
                continue
            idx = byte = None
            it = lp.iter
            if isinstance(it, ast.Call) and dotted(it.func) == "enumerate" and len(it.args) == 1 and isinstance(it.args[0], ast.Name) and it.args[0].id == b and \
                    isinstance(lp.target, ast.Tuple) and len(lp.target.elts) == 2 and all(isinstance(e, ast.Name) for e in lp.target.elts):
                idx, byte = lp.target.elts[0].id, lp.target.elts[1].id
            elif isinstance(it, ast.Call) and dotted(it.func) == "range" and len(it.args) == 1 and unparse(it.args[0]) == "len(%s)" % b and isinstance(lp.target, ast.Name):
                idx, byte = lp.target.id, "%s[%s]" % (b, lp.target.id)
            if idx is None:
                continue
            for st in lp.body:
                tgt = val = None
                if isinstance(st, ast.AugAssign) and isinstance(st.op, ast.BitXor):
                    tgt, val = st.target, st.value
                elif isinstance(st, ast.Assign) and len(st.targets) == 1 and isinstance(st.value, ast.BinOp) and isinstance(st.value.op, ast.BitXor) and \
                        unparse(st.value.left) == unparse(st.targets[0]):
                    tgt, val = st.targets[0], st.value.right
                if tgt is not None and unparse(tgt) == "%s[%s]" % (R, idx) and unparse(val) == byte and len(lp.body) == 1:
                    ok = True
        if ok:
            rets = [r for r in ast.walk(node) if isinstance(r, ast.Return)]
            ok = len(rets) == 1 and unparse(rets[0].value) in ("bytes(%s)" % R, R)
            why = "the result is not the xored copy"
    r3.require(ok, bx, "positional xor", "bytes_xor no longer xors position by position into a copy of its first operand (%s): the result must keep the first operand's length "
               "(a mask shorter than the data leaves the tail unchanged)" % why)


# ---------------------------------------------------------------------------------------------------------------- converters
def _check_converters(repo, r4):
    from ..terms import fn_terms
    bc = repo.cls(BU, "BytesConverter")
    try:
        fmts = set(repo.const_value(bc.module, bc.attrs["supported_format"]))
    except Exception:
        fmts = None
    have = {n[len("bytes_to_"):] for n, f in bc.methods.items() if n.startswith("bytes_to_") and any("staticmethod" in d for d in f.decorators)}
    r4.require(fmts is not None and fmts == have, bc.methods.get("convert_bytes") or list(bc.methods.values())[0], "supported formats = converters",
               "supported_format is %s but the converters are %s" % (sorted(fmts) if fmts else None, sorted(have)))
    cv = bc.methods.get("convert_bytes")
    if cv is not None:
        xb, fm = ("var", cv.params[0]), ("var", cv.params[1])
        name = ("cat", (("const", "bytes_to_"), fm))
        paths = summarize(cv)
        okd = bool(raising(paths, "ValueError"))
        for ps in normal(paths):
            rt = ps.ret
            g = rt[1] if rt is not None and rt[0] == "call" and rt[2] == (xb,) and isinstance(rt[1], tuple) else None
            if g is not None and g[0] == "fnval":
                g = S.canon(g[1])
            good = g is not None and g[0] == "call" and g[1] == ("fn", "getattr") and len(g[2]) >= 2 and g[2][0] in (("var", "BytesConverter"), ("var", "cls")) and g[2][1] == name
            checked = ps.has(lambda k, t: (k[0] == "truth" and k[1].startswith("hasattr(") and t) or (k[0] == "is" and "None" in k[1:] and not t))
            if not (good and checked):
                okd = False
        r4.require(okd, cv, "dispatch by format name", "convert_bytes no longer dispatches on bytes_to_<format> / refuses unknown formats")
    forms = {"bytes_to_hex": lambda x: [("call", ("method", x, "hex"), (), ())],
             "bytes_to_raw": lambda x: [x],
             "bytes_to_int": lambda x: [("call", ("fn", "int_from_bytes"), (x,), ()), ("call", ("fn", "int.from_bytes"), (x, ("const", "big")), ())],
             "bytes_to_utf8": lambda x: [("call", ("method", x, "decode"), (), (("encoding", ("const", "utf-8")),)), ("call", ("method", x, "decode"), (("const", "utf-8"),), ()),
                                         ("call", ("method", x, "decode"), (), ())]}
    for nm, mk in forms.items():
        f = bc.methods.get(nm)
        rets = [ps.ret for ps in summarize(f) if ps.exc is None] if f is not None else []
        r4.require(f is not None and bool(rets) and all(rt in mk(("var", f.params[0])) for rt in rets), f or cv, nm, "%s no longer returns %s" % (nm, S.show(mk(("var", "xbytes"))[0])))
    check_db_conversion(repo, r4)
    gt = repo.func(DBU, "get_total_size")
    ftg = fn_terms(repo, gt)
    okt = False
    for n in ftg.cfg.nodes:
        if n.kind == "return" and n.stmt.value is not None:
            t = ftg.term(n.stmt.value, n.id)
            if t[0] == "call" and t[1] == "sum" and len(t[2]) == 1:
                inner = t[2][0]
                d = ("param", gt.params[0])
                if inner[0] == "comp" and inner[2][0] == "call" and inner[2][1] == "len" and inner[2][2] and inner[2][2][0] in (("sub", d, ("elem", d)), ("elem", ("mcall", d, "values", (), ()))):
                    okt = True
                if inner[0] == "call" and inner[1] == "map" and len(inner[2]) == 2 and inner[2][1] == ("mcall", d, "values", (), ()):
                    okt = True
    r4.require(okt, gt, "total size", "get_total_size no longer sums the list lengths")
    ch = repo.func("toolkit/list_utils.py", "chunks")
    l2, n2 = (("var", x) for x in ch.params[:2])
    I2 = _range_elem(l2, n2)
    ys = [c for ps in summarize(ch, unroll=1) if ps.exc is None for _n, c, _f in ps.calls if c[0] == "yield"]
    r4.require(bool(ys) and all(y[1] in (("slice", l2, I2, ("cat", (I2, n2))), ("slice", l2, I2, ("cat", (n2, I2)))) for y in ys), ch, "chunks",
               "list_utils.chunks no longer yields consecutive n-sized slices")


def check_db_conversion(repo, r4):
    from ..terms import fn_terms
    # database conversion: {bytes(keyword, encoding): [bytes.fromhex(identifier) for identifier in db[keyword]]} in a fresh dict
    cd = repo.func(DBU, "convert_database_keyword_to_bytes")
    ft = fn_terms(repo, cd)
    dbp, encp = cd.params[0], cd.params[1]
    okdb = False
    kw = ("elem", ("param", dbp))
    want_key = ("call", "bytes", (kw,), (("encoding", ("param", encp)),))
    want_key2 = ("mcall", kw, "encode", (("param", encp),), ())
    idt_srcs = [("elem", ("sub", ("param", dbp), kw))]
    for n in ft.cfg.nodes:
        if n.kind == "return" and n.stmt.value is not None:
            t = ft.term(n.stmt.value, n.id)
            good = False
            if t[0] == "cont" and t[2] in (("dict", ()), ("call", "dict", (), ())):
                sets = [m for m in t[3] if m[0] == "setitem"]
                good = bool(sets) and len(sets) == len(t[3])
                for m in sets:
                    key, val = m[2], m[3]
                    if key not in (want_key, want_key2):
                        good = False
                    els = []
                    if val[0] == "cont" and val[2] in (("list", ()), ("call", "list", (), ())):
                        els = [mm[2][0] for mm in val[3] if mm[0] == "append" and mm[2]]
                        if len(els) != len(val[3]):
                            good = False
                    elif val[0] == "comp" and val[1] == "ListComp":
                        els = [val[2]]
                    else:
                        good = False
                    for v in els:
                        if not (v[0] == "call" and v[1] == "bytes.fromhex" and len(v[2]) == 1 and (v[2][0] in idt_srcs or _is_item_value(v[2][0], dbp))):
                            good = False
                    if not els:
                        good = False
            elif t[0] == "comp" and t[1] == "DictComp" and t[2][0] == "tuple" and len(t[2][1]) == 2 and len(t[3]) == 1 and not t[3][0][2]:
                # {bytes(kw, encoding): [bytes.fromhex(i) for i in db[kw]] for kw in db}  (also over db.items())
                key, val = t[2][1]
                src_ok = t[3][0][1] in (("param", dbp), ("mcall", ("param", dbp), "items", (), ()), ("mcall", ("param", dbp), "keys", (), ()))
                good = src_ok and key in (want_key, want_key2)
                els = []
                if val[0] == "comp" and val[1] == "ListComp":
                    els = [val[2]]
                elif val[0] == "call" and val[1] == "list" and len(val[2]) == 1 and val[2][0][0] == "comp":
                    els = [val[2][0][2]]
                for v in els:
                    if not (v[0] == "call" and v[1] == "bytes.fromhex" and len(v[2]) == 1 and (v[2][0] in idt_srcs or _is_item_value(v[2][0], dbp))):
                        good = False
                if not els:
                    good = False
            okdb = okdb or good
    r4.require(okdb, cd, "database conversion", "convert_database_keyword_to_bytes no longer maps bytes(keyword, encoding) to the list of bytes.fromhex(identifier) of that keyword")
    dflt = cd.node.args.defaults
    r4.require(bool(dflt) and isinstance(dflt[0], ast.Constant) and dflt[0].value == "utf-8", cd, "default encoding utf-8", "convert_database_keyword_to_bytes no longer defaults to utf-8")


def _is_item_value(t, dbp):
    # for keyword, ids in db.items(): ... elem(ids)
    return t[0] == "elem" and t[1][0] == "sub" and t[1][1] == ("param", dbp)


# ----------------------------------------------------------------------------- self-test variants
from ..selftest import V  # noqa: E402

VARIANTS = [
    V("pad-byte-one", "fire", "R17.1", [(DBU, "partition_identifiers_to_blocks", "block += b'\\x00' * (block_size_bytes - len(block))", "block += b'\\x01' * (block_size_bytes - len(block))")]),
    V("left-padding", "fire", "R17.1", [(DBU, "partition_identifiers_to_blocks", "            block += b'\\x00' * (block_size_bytes - len(block))", "            block = b'\\x00' * (block_size_bytes - len(block)) + block")]),
    V("parser-stride-off-by-one", "fire", "R17.1", [(DBU, "parse_identifiers_from_block_given_identifier_size", "for i in range(0, len(block), identifier_size):", "for i in range(0, len(block), identifier_size + 1):")]),
    V("parser-terminator-collected", "fire", "R17.1", [(DBU, "parse_identifiers_from_block_given_identifier_size",
      "        if identifier == b'\\x00' * len(identifier):\n            break\n        result.append(identifier)", "        result.append(identifier)\n        if identifier == b'\\x00' * len(identifier):\n            break")]),
    V("count-parser-ceil-stride", "fire", "R17.1", [(DBU, "parse_identifiers_from_block_given_entry_count_in_one_block",
      "identifier_size = len(block) // entry_count_in_one_block", "identifier_size = -(-len(block) // entry_count_in_one_block)")]),
    V("little-endian-one-direction", "fire", "R17.3", [(BU, "int_from_bytes", "return int.from_bytes(xbytes, 'big')", "return int.from_bytes(xbytes, 'little')")]),
    V("split-guard-dropped", "fire", "R17.2", [(BU, "split_bytes_given_slice_len",
      "    if len(xbytes) != sum(slice_len for slice_len in slice_len_list):\n        raise ValueError(\"Length mismatch, please ensure that the length of xbytes is equal to \"\n                         \"the sum of the individual values of slice_len_list\")\n", "")]),
    V("hex-format-removed", "fire", "R17.4", [(BU, None, "\"int\", \"hex\", \"raw\", \"utf8\"", "\"int\", \"raw\", \"utf8\"")]),
    V("leading-zeros-on-the-right", "fire", "R17.3", [(BU, "add_leading_zeros", "return b'\\x00' * max(output_len - len(xbytes), 0) + xbytes", "return xbytes + b'\\x00' * max(output_len - len(xbytes), 0)")]),
    V("min-width-floor", "fire", "R17.3", [(BU, "int_to_bytes", "output_len = (x.bit_length() + 7) // 8", "output_len = x.bit_length() // 8")]),
]
