"""C17 - byte-level encodings round-trip: id blocks, splits, integers, hex database.

Decides writer/reader agreement of the five small codecs: the block packer and its two parsers, the
splitter, the integer conversions, xor, and the database / output converters.  See DESIGN.md
section 3, C17.
"""
import ast

from ..core import Rule
from ..model import AnalysisError, dotted, unparse, short
from ..cfg import cfg_of
from .c08 import raising_ifs

EXPLANATION = ("Slot comparison between each writer and its reader: partition steps by the entry count, joins the slice, pads on "
               "the right with the zero byte up to the block size (default entry_count * identifier_size) and refuses smaller blocks; "
               "the parser steps by the identifier size from the left and stops at the first entry equal to zero bytes of the entry's "
               "length; parse-by-count derives the stride as len(block) // count.  split checks the total before cutting "
               "consecutive pieces; int_to_bytes / int_from_bytes use one byte order and the minimal width (bit_length + 7) // 8; "
               "add_leading_zeros pads on the side int_from_bytes ignores; bytes_xor indexes positionally; the converters cover the "
               "advertised formats and build fresh lists.")
ASSUMPTIONS = ["equality over all values and sizes follows from these agreements only informally; it is not proved"]

DBU = "toolkit/database_utils.py"
BU = "toolkit/bytes_utils.py"


def _consts(node, typ):
    return [c.value for c in ast.walk(node) if isinstance(c, ast.Constant) and isinstance(c.value, typ)]


def check(repo):
    r1 = Rule("R17.1", "block codec: partition and its parsers agree")
    r2 = Rule("R17.2", "split: total checked, consecutive pieces")
    r3 = Rule("R17.3", "integer conversions, leading zeros, xor")
    r4 = Rule("R17.4", "database and output converters")
    rules = [r1, r2, r3, r4]

    # ---------------------------------------------------------------- partition
    p = repo.func(DBU, "partition_identifiers_to_blocks")
    lst, cnt, size, bsz = p.params[:4]
    loops = [st for st in p.node.body if isinstance(st, ast.For)]
    if r1.require(len(loops) == 1, p, "chunk loop", "partition_identifiers_to_blocks lost its chunk loop"):
        lp = loops[0]
        it = unparse(lp.iter)
        r1.require(it == "range(0, len(%s), %s)" % (lst, cnt), p, "steps by the entry count", "partition iterates %s; expected range(0, len(list), entry_count)" % it)
        iv = lp.target.id
        asg = [st for st in lp.body if isinstance(st, ast.Assign)]
        ok = bool(asg) and unparse(asg[0].value) == "b''.join(%s[%s:%s + %s])" % (lst, iv, iv, cnt)
        r1.require(ok, p, "block = join of one chunk", "partition builds a block from %s" % (unparse(asg[0].value) if asg else None))
        pads = [st for st in ast.walk(lp) if isinstance(st, ast.AugAssign) and isinstance(st.op, ast.Add)]
        okp = len(pads) == 1 and unparse(pads[0].value) == "b'\\x00' * (%s - len(block))" % bsz and unparse(pads[0].target) == "block"
        r1.require(okp, p, "right padding with zero bytes to the block size",
                   "partition pads with %s; expected block += b'\\x00' * (block_size_bytes - len(block)) (right padding: the parser reads from the left)" % (unparse(pads[0]) if pads else None))
        ylds = [y for y in ast.walk(lp) if isinstance(y, ast.Yield)]
        r1.require(len(ylds) == 1 and unparse(ylds[0].value) == "block" and not any(isinstance(a, ast.If) for a in __import__("sa.model", fromlist=["ancestors"]).ancestors(ylds[0]) if a is not lp),
                   p, "one block per chunk", "partition no longer yields exactly one block per chunk")
    dflt = [st for st in p.node.body if isinstance(st, ast.If) and unparse(st.test) == "%s == 0" % bsz]
    r1.require(bool(dflt) and unparse(dflt[0].body[0]) == "%s = %s * %s" % (bsz, cnt, size), p, "default block size", "partition's default block size is no longer entry_count * identifier_size")
    g = [st for st, exc in raising_ifs(p) if exc == "ValueError" and unparse(st.test) == "%s < %s * %s" % (bsz, cnt, size)]
    r1.require(bool(g), p, "refuses a block smaller than its entries", "partition no longer refuses block_size_bytes < entry_count * identifier_size")

    # ---------------------------------------------------------------- parser by size
    q = repo.func(DBU, "parse_identifiers_from_block_given_identifier_size")
    blk, sz = q.params[:2]
    loops = [st for st in q.node.body if isinstance(st, ast.For)]
    if r1.require(len(loops) == 1, q, "parse loop", "parser lost its loop"):
        lp = loops[0]
        r1.require(unparse(lp.iter) == "range(0, len(%s), %s)" % (blk, sz), q, "parser steps by the identifier size", "parser iterates %s" % unparse(lp.iter))
        iv = lp.target.id
        asg = [st for st in lp.body if isinstance(st, ast.Assign)]
        r1.require(bool(asg) and unparse(asg[0].value) == "%s[%s:%s + %s]" % (blk, iv, iv, sz), q, "entry = one stride from the left", "parser cuts %s" % (unparse(asg[0].value) if asg else None))
        stop = [st for st in lp.body if isinstance(st, ast.If) and any(isinstance(x, ast.Break) for x in st.body)]
        ent = unparse(asg[0].targets[0]) if asg else "identifier"
        oks = len(stop) == 1 and unparse(stop[0].test) == "%s == b'\\x00' * len(%s)" % (ent, ent)
        r1.require(oks, q, "stops at the first all-zero entry (same pad byte)",
                   "parser stops on %s; the packer pads with b'\\x00', so the terminator must be b'\\x00' * len(entry)" % (unparse(stop[0].test) if stop else None))
        app = [c for c in ast.walk(lp) if isinstance(c, ast.Call) and isinstance(c.func, ast.Attribute) and c.func.attr == "append"]
        r1.require(len(app) == 1 and unparse(app[0].args[0]) == ent, q, "collects each entry", "parser no longer appends each entry")
        # the stop test precedes the append
        if stop and app:
            r1.require(stop[0].lineno < app[0].lineno, q, "terminator checked before collecting", "parser collects the terminator entry")
    qc = repo.func(DBU, "parse_identifiers_from_block_given_entry_count_in_one_block")
    src = unparse(qc.node)
    r1.require("identifier_size = len(%s) // %s" % (qc.params[0], qc.params[1]) in src and
               "return parse_identifiers_from_block_given_identifier_size(%s, identifier_size)" % qc.params[0] in src, qc, "stride = len(block) // count",
               "parse-by-count no longer derives the stride as len(block) // entry_count and delegates")

    # ---------------------------------------------------------------- split
    sp = repo.func(BU, "split_bytes_given_slice_len")
    xb, ll = sp.params[:2]
    g = [st for st, exc in raising_ifs(sp) if exc == "ValueError" and "len(%s)" % xb in unparse(st.test) and "sum(" in unparse(st.test) and "!=" in unparse(st.test)]
    if r2.require(bool(g), sp, "total-length check", "split no longer refuses a length mismatch"):
        cfg = cfg_of(sp.node)
        gn = cfg.nodes_of(g[0])[0]
        loops = [n.id for n in cfg.nodes if n.kind == "test" and isinstance(n.stmt, ast.While)]
        r2.require(all(cfg.dominates(gn, l) for l in loops), sp, "check precedes cutting", "split cuts before checking the total")
    src = unparse(sp.node)
    r2.require("itertools.accumulate(%s)" % ll in src, sp, "offsets are the running sums", "split no longer derives offsets from itertools.accumulate(lengths)")
    r2.require("result.append(%s[c:next_c])" % xb in src and "c = next_c" in src and "next_c = next(slice_len_accumulation)" in src, sp, "consecutive non-overlapping pieces",
               "split no longer cuts xbytes[c:next_c] with c advancing to next_c")
    r2.require("while c != len(%s)" % xb in src, sp, "cuts until the end", "split's loop condition changed")

    # ---------------------------------------------------------------- integers
    i2b, b2i = repo.func(BU, "int_to_bytes"), repo.func(BU, "int_from_bytes")
    o1 = [c for c in ast.walk(i2b.node) if isinstance(c, ast.Call) and isinstance(c.func, ast.Attribute) and c.func.attr == "to_bytes"]
    o2 = [c for c in ast.walk(b2i.node) if isinstance(c, ast.Call) and (dotted(c.func) or "").endswith("from_bytes")]
    def order(c, pos):
        a = c.args[pos] if len(c.args) > pos else next((k.value for k in c.keywords if k.arg == "byteorder"), None)
        return a.value if isinstance(a, ast.Constant) else None
    ok = len(o1) == 1 and len(o2) == 1 and order(o1[0], 1) == order(o2[0], 1) == "big"
    r3.require(ok, i2b, "one byte order", "int_to_bytes uses %r and int_from_bytes %r" % (order(o1[0], 1) if o1 else None, order(o2[0], 1) if o2 else None))
    if o1:
        r3.require(unparse(o1[0].func.value) == i2b.params[0] and unparse(o1[0].args[0]) == i2b.params[1], i2b, "encodes x in output_len bytes", "int_to_bytes encodes %s" % unparse(o1[0]))
    if o2:
        r3.require(unparse(o2[0].args[0]) == b2i.params[0], b2i, "decodes its argument", "int_from_bytes decodes %s" % unparse(o2[0]))
    d = [st for st in i2b.node.body if isinstance(st, ast.If) and unparse(st.test) == "%s == -1" % i2b.params[1]]
    r3.require(bool(d) and unparse(d[0].body[0]) == "%s = (%s.bit_length() + 7) // 8" % (i2b.params[1], i2b.params[0]), i2b, "minimal width",
               "int_to_bytes' default width is no longer (bit_length + 7) // 8")
    alz = repo.func(BU, "add_leading_zeros")
    r3.require(unparse(alz.node.body[-1]) == "return b'\\x00' * max(%s - len(%s), 0) + %s" % (alz.params[1], alz.params[0], alz.params[0]), alz, "pads on the left with zeros",
               "add_leading_zeros no longer left-pads with zero bytes up to output_len")
    bx = repo.func(BU, "bytes_xor")
    src = unparse(bx.node)
    r3.require("result = bytearray(%s)" % bx.params[0] in src and "for i, b_byte in enumerate(%s)" % bx.params[1] in src and "result[i] ^= b_byte" in src and "return bytes(result)" in src,
               bx, "positional xor", "bytes_xor no longer xors position by position into a copy of its first operand")

    # ---------------------------------------------------------------- converters
    bc = repo.cls(BU, "BytesConverter")
    try:
        fmts = set(repo.const_value(bc.module, bc.attrs["supported_format"]))
    except Exception:
        fmts = None
    have = {n[len("bytes_to_"):] for n, f in bc.methods.items() if n.startswith("bytes_to_") and any("staticmethod" in d for d in f.decorators)}
    r4.require(fmts is not None and fmts == have, bc.methods.get("convert_bytes") or list(bc.methods.values())[0], "supported formats = converters",
               "supported_format is %s but the converters are %s" % (sorted(fmts) if fmts else None, sorted(have)))
    cv = bc.methods.get("convert_bytes")
    if cv is not None:
        src = unparse(cv.node)
        r4.require("hasattr(BytesConverter, 'bytes_to_' + %s)" % cv.params[1] in src and "raise ValueError" in src and
                   "getattr(BytesConverter, 'bytes_to_' + %s)(%s)" % (cv.params[1], cv.params[0]) in src, cv, "dispatch by format name", "convert_bytes no longer dispatches on bytes_to_<format> / refuses unknown formats")
    for name, body in (("bytes_to_hex", "return xbytes.hex()"), ("bytes_to_raw", "return xbytes"), ("bytes_to_int", "return int_from_bytes(xbytes)"),
                       ("bytes_to_utf8", "return xbytes.decode(encoding='utf-8')")):
        f = bc.methods.get(name)
        r4.require(f is not None and unparse(f.node.body[-1]) == body, f or cv, name, "%s no longer does `%s`" % (name, body))
    cd = repo.func(DBU, "convert_database_keyword_to_bytes")
    src = unparse(cd.node)
    r4.require("bytes(keyword, encoding=encoding)" in src and "bytes.fromhex(identifier)" in src and "result = {}" in src and "identifier_bytes_list = []" in src
               and "result[keyword_bytes] = identifier_bytes_list" in src, cd, "database conversion", "convert_database_keyword_to_bytes no longer encodes keywords / hex-decodes identifiers into fresh lists")
    dflt = cd.node.args.defaults
    r4.require(bool(dflt) and isinstance(dflt[0], ast.Constant) and dflt[0].value == "utf-8", cd, "default encoding utf-8", "convert_database_keyword_to_bytes no longer defaults to utf-8")
    gt = repo.func(DBU, "get_total_size")
    r4.require(unparse(gt.node.body[-1]) == "return sum((len(identifier_list) for identifier_list in %s.values()))" % gt.params[0], gt, "total size", "get_total_size no longer sums the list lengths")
    ch = repo.func("toolkit/list_utils.py", "chunks")
    src = unparse(ch.node)
    r4.require("range(0, len(%s), %s)" % tuple(ch.params[:2]) in src and "yield %s[i:i + %s]" % tuple(ch.params[:2]) in src, ch, "chunks", "list_utils.chunks no longer yields consecutive n-sized slices")
    return rules


# ----------------------------------------------------------------------------- self-test variants
from ..selftest import V  # noqa: E402

VARIANTS = [
    V("pad-byte-one", "fire", "R17.1", [(DBU, "partition_identifiers_to_blocks", "block += b'\\x00' * (block_size_bytes - len(block))", "block += b'\\x01' * (block_size_bytes - len(block))")]),
    V("left-padding", "fire", "R17.1", [(DBU, "partition_identifiers_to_blocks", "            block += b'\\x00' * (block_size_bytes - len(block))", "            block = b'\\x00' * (block_size_bytes - len(block)) + block")]),
    V("parser-stride-off-by-one", "fire", "R17.1", [(DBU, "parse_identifiers_from_block_given_identifier_size", "for i in range(0, len(block), identifier_size):", "for i in range(0, len(block), identifier_size + 1):")]),
    V("parser-terminator-collected", "fire", "R17.1", [(DBU, "parse_identifiers_from_block_given_identifier_size",
      "        if identifier == b'\\x00' * len(identifier):\n            break\n        result.append(identifier)", "        result.append(identifier)\n        if identifier == b'\\x00' * len(identifier):\n            break")]),
    V("count-parser-ceil-stride", "fire", "R17.1", [(DBU, "parse_identifiers_from_block_given_entry_count_in_one_block",
      "identifier_size = len(block) // entry_count_in_one_block", "identifier_size = -(-len(block) // entry_count_in_one_block)")]),
    V("little-endian-one-direction", "fire", "R17.3", [(BU, "int_from_bytes", "return int.from_bytes(xbytes, 'big')", "return int.from_bytes(xbytes, 'little')")]),
    V("split-guard-dropped", "fire", "R17.2", [(BU, "split_bytes_given_slice_len",
      "    if len(xbytes) != sum(slice_len for slice_len in slice_len_list):\n        raise ValueError(\"Length mismatch, please ensure that the length of xbytes is equal to \"\n                         \"the sum of the individual values of slice_len_list\")\n", "")]),
    V("hex-format-removed", "fire", "R17.4", [(BU, None, "\"int\", \"hex\", \"raw\", \"utf8\"", "\"int\", \"raw\", \"utf8\"")]),
    V("leading-zeros-on-the-right", "fire", "R17.3", [(BU, "add_leading_zeros", "return b'\\x00' * max(output_len - len(xbytes), 0) + xbytes", "return xbytes + b'\\x00' * max(output_len - len(xbytes), 0)")]),
    V("min-width-floor", "fire", "R17.3", [(BU, "int_to_bytes", "output_len = (x.bit_length() + 7) // 8", "output_len = x.bit_length() // 8")]),
]
