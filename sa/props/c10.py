"""C10 - server keeps each service in a forward-only, write-once state machine.

Decides the guard structure of the three request handlers by abstract interpretation over the
finite lattice P({0,1,2}) of possible service states (entry state = top), plus who-may-write,
persist-before-acknowledge and dispatch rules.  See DESIGN.md section 3, C10.
"""
import ast

from ..core import Rule
from ..model import AnalysisError, dotted, unparse, short
from ..cfg import cfg_of, calls_in_order
from ..effects import EffectScanner, stmts_in_order, dict_literal_of
from ..guards import solve
from .. import frontend as F

EXPLANATION = ("Abstract interpretation of the server's request handlers over the finite lattice of service "
               "states {0,1,2} with condition refinement: every durable write, state store, search and reply "
               "is checked against the set of states in which it can execute; refusal paths are enumerated "
               "and must be effect-free; persistence must precede acknowledgement; only the two uploading "
               "handlers may write; the dispatch loop must skip foreign sids.  Decides the guard structure "
               "for sequentially processed requests (overlap is C12); not the websocket library or the file system.")
ASSUMPTIONS = ["requests of one service are processed one after another (C12 covers overlap)",
               "the file system stores what was written (C13 covers crashes)",
               "asyncio/websockets deliver messages in order"]

TOP = frozenset({0, 1, 2})

REPLY_TYPE = {"config": "config", "upload_edb": "upload_edb", "token": "result"}  # request type -> reply type


def _flag_kind(v):
    """What a value assigned to a local tells about later `is None` / truth tests on it: 'N' None, 'T' a truthy object,
    'F' a falsy non-None constant, None = unknown."""
    if isinstance(v, ast.Constant):
        if v.value is None:
            return "N"
        if isinstance(v.value, (bool, int, float, str, bytes)):
            return "T" if v.value else "F"
        return None
    if isinstance(v, ast.JoinedStr):
        return "T" if any(isinstance(p, ast.Constant) and p.value for p in v.values) else None
    if isinstance(v, (ast.Dict, ast.List, ast.Tuple, ast.Set)):
        n = len(v.keys) if isinstance(v, ast.Dict) else len(v.elts)
        if isinstance(v, ast.Dict) and any(k is None for k in v.keys):
            return None
        if not isinstance(v, ast.Dict) and any(isinstance(e, ast.Starred) for e in v.elts):
            return None
        return "T" if n else "F"
    return None


def states_of(st):
    return frozenset(w[0] for w in st[0])


class StateDomain:
    """Abstract state: (worlds, valid alias names).  A world is (service state, {(local, kind)}) - the relation between the
    possible service states and what is known about locals used as flags (`reason = None ... if reason is not None`), so
    that a refusal decided in one `if` and carried out in a later one is understood.  Join = union of worlds."""

    def __init__(self, repo, fi, scanner):
        self.repo, self.fi, self.scanner = repo, fi, scanner

    @staticmethod
    def initial():
        return (frozenset((s, frozenset()) for s in TOP), frozenset())

    def join(self, a, b):
        return (a[0] | b[0], a[1] & b[1])

    def const(self, node):
        try:
            v = self.repo.const_value(self.fi.module, node)
        except Exception:
            return None
        return v

    def is_read(self, expr, st):
        if F.is_state_read(self.repo, self.fi, expr):
            return True
        return isinstance(expr, ast.Name) and expr.id in st[1]

    def _flag_test(self, name, test, truth, st):
        """test: 'none' (x is None) | 'truth' (bool(x)).  Keeps the worlds compatible with the outcome."""
        worlds, aliases = st
        keep = set()
        for (s, flags) in worlds:
            kind = dict(flags).get(name)
            if kind is None:
                keep.add((s, flags))
                continue
            if test == "none":
                holds = kind == "N"
            else:
                holds = kind == "T"
            if holds == truth:
                keep.add((s, flags))
        return (frozenset(keep), aliases) if keep else None

    def atom(self, expr, truth, st):
        if isinstance(expr, ast.Name) and not self.is_read(expr, st):
            return self._flag_test(expr.id, "truth", truth, st)
        if isinstance(expr, ast.Compare):
            # split chains into a conjunction
            operands = [expr.left] + list(expr.comparators)
            cur = st
            if len(expr.ops) > 1:
                if truth:
                    for i, op in enumerate(expr.ops):
                        cur = self._cmp(operands[i], op, operands[i + 1], True, cur)
                        if cur is None:
                            return None
                    return cur
                return st  # negation of a chain: no refinement
            return self._cmp(operands[0], expr.ops[0], operands[1], truth, st)
        return st

    def _cmp(self, l, op, r, truth, st):
        worlds, aliases = st
        flip = {ast.Lt: ast.Gt, ast.Gt: ast.Lt, ast.LtE: ast.GtE, ast.GtE: ast.LtE}
        if self.is_read(r, st) and not self.is_read(l, st):
            l, r = r, l
            op = flip.get(type(op), type(op))()
        if not self.is_read(l, st):
            # a local flag compared with None
            if isinstance(l, ast.Constant) and l.value is None:
                l, r = r, l
            if isinstance(l, ast.Name) and isinstance(r, ast.Constant) and r.value is None and isinstance(op, (ast.Is, ast.IsNot, ast.Eq, ast.NotEq)):
                return self._flag_test(l.id, "none", truth == isinstance(op, (ast.Is, ast.Eq)), st)
            return st
        c = self.const(r)
        if c is None:
            return st
        t = type(op)
        if t in (ast.In, ast.NotIn):
            try:
                cs = set(c)
            except TypeError:
                return st
            pred = (lambda s: s in cs) if t is ast.In else (lambda s: s not in cs)
        elif t in (ast.Eq, ast.Is):
            pred = lambda s: s == c
        elif t in (ast.NotEq, ast.IsNot):
            pred = lambda s: s != c
        elif t is ast.Lt:
            pred = lambda s: s < c
        elif t is ast.LtE:
            pred = lambda s: s <= c
        elif t is ast.Gt:
            pred = lambda s: s > c
        elif t is ast.GtE:
            pred = lambda s: s >= c
        else:
            return st
        try:
            res = frozenset(w for w in worlds if bool(pred(w[0])) == truth)
        except TypeError:
            return st
        if not res:
            return None
        return (res, aliases)

    def apply_effects(self, node, st, record=None):
        worlds, aliases = st
        effs = self.scanner.node_effects(self.fi, node)
        for e in effs:
            if record is not None:
                record.append((node, e, (frozenset(w[0] for w in worlds), aliases)))
            if e.kind == "item_store" and e.info.get("base") == "service_meta" and e.info.get("key") == "state":
                c = e.info.get("const")
                new = frozenset({c}) if isinstance(c, int) and c in TOP else TOP
                worlds = frozenset((s, flags) for (_s, flags) in worlds for s in new)
                aliases = frozenset()
            elif e.kind == "attr_store" and e.name == "service_meta":
                worlds = frozenset((s, flags) for (_s, flags) in worlds for s in TOP)
                aliases = frozenset()
        s = node.stmt
        if node.kind == "stmt" and isinstance(s, ast.Assign) and len(s.targets) == 1 and isinstance(s.targets[0], ast.Name):
            nm = s.targets[0].id
            if F.is_state_read(self.repo, self.fi, s.value):
                aliases = aliases | {nm}
            else:
                aliases = aliases - {nm}
            kind = _flag_kind(s.value)
            worlds = frozenset((st_, frozenset({(k, v) for (k, v) in flags if k != nm} | ({(nm, kind)} if kind else set())))
                               for (st_, flags) in worlds)
        elif node.kind in ("stmt", "for", "with") and s is not None and not isinstance(s, (ast.Expr, ast.Return, ast.Raise, ast.Pass)):
            # any other binding construct: forget the flags it may rebind
            bound = set()
            roots = [s] if node.kind == "stmt" else [getattr(s, "target", None)] + [it.optional_vars for it in getattr(s, "items", [])]
            for r_ in roots:
                if r_ is None:
                    continue
                for x in ast.walk(r_):
                    if isinstance(x, ast.Name) and isinstance(x.ctx, (ast.Store, ast.Del)):
                        bound.add(x.id)
            if bound:
                worlds = frozenset((st_, frozenset((k, v) for (k, v) in flags if k not in bound)) for (st_, flags) in worlds)
        return (worlds, aliases)

    def label_refine(self, node, label, st):
        # match statement on the state
        if isinstance(label, tuple) and label and label[0] == "case" and hasattr(ast, "Match") and isinstance(node.stmt, ast.Match):
            if not self.is_read(node.stmt.subject, st):
                return st
            worlds, aliases = st
            idx = label[1]
            cases = node.stmt.cases
            consts = []
            for c in cases:
                vals = _pattern_values(self, c.pattern)
                consts.append(vals)
            if idx is None or consts[idx] is None:
                # default / wildcard: exclude everything matched by value cases before
                excl = set()
                upto = len(cases) if idx is None else idx
                for v in consts[:upto]:
                    if v:
                        excl |= v
                res = frozenset(w for w in worlds if w[0] not in excl)
            else:
                res = frozenset(w for w in worlds if w[0] in consts[idx])
            return (res, aliases) if res else None
        return st


def _pattern_values(dom, p):
    if isinstance(p, ast.MatchValue):
        c = dom.const(p.value)
        return {c} if c is not None else None
    if isinstance(p, ast.MatchOr):
        out = set()
        for q in p.patterns:
            v = _pattern_values(dom, q)
            if v is None:
                return None
            out |= v
        return out
    return None


def analyse_handler(repo, fi, scanner):
    """Returns (cfg, records) where records = [(cfgnode, effect, (states, aliases))]."""
    cfg = cfg_of(fi.node)
    dom = StateDomain(repo, fi, scanner)
    ins, outs = solve(cfg, dom.initial(), lambda n, s: dom.apply_effects(n, s), dom.join, dom.atom,
                      dom.label_refine)
    records = []
    for nid, st in sorted(ins.items()):
        dom.apply_effects(cfg.nodes[nid], st, records)
    return cfg, records, ins


def _fmt(states):
    return "{" + ",".join(str(s) for s in sorted(states)) + "}"


def _is_search_call(e):
    return e.kind == "xcall" and e.name.endswith(".Search")


def check(repo):
    scanner = EffectScanner(repo)
    table, table_node = F.dispatch_table(repo, F.SRV)
    mt = F.msg_types(repo)
    states = F.service_states(repo, F.SRV)
    rules = []

    T_CONFIG, T_UPLOAD, T_TOKEN, T_RESULT = mt.get("CONFIG"), mt.get("UPLOAD_DB"), mt.get("TOKEN"), mt.get("RESULT")
    role = {T_CONFIG: "config", T_UPLOAD: "upload", T_TOKEN: "token"}

    # ------------------------------------------------------------------ R10.5 dispatch
    r5 = Rule("R10.5", "dispatch: exactly three request types, foreign sid skipped")
    rules.append(r5)
    svc = repo.cls(F.SRV, "Service")
    r5.require(set(table) == {T_CONFIG, T_UPLOAD, T_TOKEN}, svc.methods["__init__"], "dispatch-table keys",
               "dispatch table must bind exactly CONFIG, UPLOAD_DB, TOKEN; found %s" % sorted(table), table_node)
    r5.instance({"table": {k: v.qual for k, v in table.items()}})
    r5.require(len({v.qual for v in table.values()}) == len(table), svc.methods["__init__"],
               "dispatch-table handlers distinct", "two request types share one handler", table_node)
    _check_dispatch_loop(repo, r5)

    # ------------------------------------------------------------------ R10.1 effects by state
    r1 = Rule("R10.1", "effects only in the states that license them")
    r2 = Rule("R10.2", "refusal paths are pure and answer exactly once")
    r3 = Rule("R10.3", "persist before acknowledge; report what is persisted")
    rules += [r1, r2, r3]
    per_handler = {}
    for mtype, fi in table.items():
        if mtype not in role:
            continue
        cfg, records, ins = analyse_handler(repo, fi, scanner)
        per_handler[role[mtype]] = (fi, cfg, records)
        reply = REPLY_TYPE.get(mtype)
        seen = set()
        for node, e, (st, _) in records:
            allowed = None
            what = None
            if e.kind == "fm":
                if e.name in ("create_sid_folder", "write_service_config"):
                    allowed, what = {0}, e.name
                elif e.name == "write_encrypted_database":
                    allowed, what = {1}, e.name
                elif e.name == "read_encrypted_database":
                    allowed, what = {2}, e.name
                elif e.name == "delete_sid_folder":
                    allowed, what = set(), e.name
                if e.name.startswith(("write_", "create_", "read_", "delete_")) and not e.chain:
                    a0 = e.info["args"][0] if e.info.get("args") else None
                    if dotted(a0) != "self.sid":
                        r1.fail_fn(fi, e.node, "%s first-argument" % e.name,
                                   "%s is not applied to this service's own sid (%s)" % (e.name, short(e.node)))
                    else:
                        r1.ok()
            elif e.kind == "attr_store" and e.name == "config":
                allowed, what = {0}, "store self.config"
            elif e.kind == "attr_store" and e.name in ("service_meta",):
                allowed, what = set(), "rebinding self.service_meta"
            elif e.kind == "item_store" and e.info.get("base") == "service_meta" and e.info.get("key") == "state":
                c = e.info.get("const")
                if not isinstance(c, int):
                    r1.fail_fn(fi, e.node, "state-store non-constant", "state is set to a non-constant value: %s" % short(e.node))
                    continue
                allowed, what = {c - 1}, "state := %d" % c
                seen.add(("store", c))
            elif _is_search_call(e):
                allowed, what = {2}, "search"
                seen.add("search")
            elif e.kind == "send":
                if e.info.get("ok") is False:
                    continue
                if e.name == T_RESULT:
                    allowed, what = {2}, "RESULT reply"
                    seen.add("result")
                elif e.name == T_CONFIG:
                    allowed, what = {1}, "CONFIG ok reply (must follow the store of state 1)"
                    seen.add("ok-config")
                elif e.name == T_UPLOAD:
                    allowed, what = {2}, "UPLOAD_DB ok reply (must follow the store of state 2)"
                    seen.add("ok-upload")
                else:
                    r1.fail_fn(fi, e.node, "send of type %r" % (e.name,), "handler sends an unexpected message type %r" % (e.name,))
                    continue
            if e.kind == "fm":
                seen.add(e.name)
            if e.kind == "attr_store":
                seen.add("attr:" + e.name)
            if allowed is None:
                continue
            desc = {"handler": fi.qual, "effect": e.describe(), "line": getattr(e.node, "lineno", 0),
                    "abstract_state": sorted(st), "allowed": sorted(allowed)}
            if st <= allowed:
                r1.ok(desc)
            else:
                r1.fail_fn(fi, e.node, "%s" % what,
                           "%s can execute in state(s) %s, allowed only in %s" % (what, _fmt(st), _fmt(allowed)),
                           witness=desc)
                r1.instance(desc)
        # presence rows
        need = {"config": ["create_sid_folder", "write_service_config", "attr:config", ("store", 1),
                           "write_service_meta", "ok-config"],
                "upload": ["write_encrypted_database", ("store", 2), "write_service_meta", "ok-upload"],
                "token": ["search", "result"]}[role[mtype]]
        for item in need:
            r1.require(item in seen, fi, "presence %s" % (item,),
                       "%s handler no longer performs the obligatory step %s" % (role[mtype], item))
        # content arguments
        _check_payload_args(repo, r1, role[mtype], fi, records)

        # -------------------------------------------------------------- R10.2 paths
        _check_paths(repo, r2, fi, cfg, scanner, reply)

        # -------------------------------------------------------------- R10.3 persist before ack
        stores = [n for n, e, _ in records if e.kind == "item_store" and e.info.get("base") == "service_meta"
                  and e.info.get("key") == "state"]
        acks = [n for n, e, _ in records if e.kind == "send" and e.info.get("ok") is True]
        metas = set()
        for n, e, _ in records:
            if e.kind == "fm" and e.name == "write_service_meta":
                args = e.info.get("args") or []
                if len(args) >= 2 and dotted(args[0]) == "self.sid" and dotted(args[1]) == "self.service_meta":
                    metas.add(n.id)
                else:
                    r3.fail_fn(fi, e.node, "write_service_meta arguments",
                               "persists something other than (self.sid, self.service_meta): %s" % short(e.node))
        for s in stores:
            for a in acks:
                if s.id == a.id or cfg.can_reach(s.id, a.id):
                    if s.id != a.id and cfg.can_reach(s.id, a.id, avoid=metas) and s.id not in metas:
                        r3.fail_fn(fi, a.stmt, "ack-before-persist",
                                   "the ok reply at line %d can be reached from the state store at line %d without "
                                   "write_service_meta(self.sid, self.service_meta) in between" % (a.line, s.line))
                    else:
                        r3.ok({"handler": fi.qual, "store_line": s.line, "ack_line": a.line,
                               "persist_lines": sorted(cfg.nodes[m].line for m in metas)})

    _check_loader_and_echo(repo, r3, states)
    # the persisted state is what a new connection starts from *whenever it is there*: the predicate that decides between "read the state
    # file" and "start at NOT_EXISTS" asks only whether the artifacts exist (a predicate that can turn false again for a service whose
    # state file is on disk - a left-over temporary file, an age, a counter - sends an acknowledged service back to state 0)
    from .c13 import predicate_artifacts
    pf = repo.module(F.SRV_FM).functions.get("check_sid_folder_exist")
    if pf is None:
        raise AnalysisError("loader predicate check_sid_folder_exist vanished from %s" % F.SRV_FM)
    arts = predicate_artifacts(pf)
    r3.require(arts is not None, pf, "existence predicate is a conjunction of existence tests",
               "check_sid_folder_exist is not a conjunction of existence tests of the service's artifacts: a service whose state file is on disk can be "
               "reported as not existing, i.e. be sent back to NOT_EXISTS and accept a second configuration")
    if arts is not None:
        r3.ok({"predicate": pf.qual, "tests": sorted(arts)})
    bad_w, n_w = F.writers_persist_unconditionally(repo, F.SRV_FM)
    r3.require(n_w >= 3, repo.module(F.SRV_FM).functions.get("write_service_meta") or svc.methods["__init__"], "artifact writers found", "only %d artifact writers found in the server file manager" % n_w)
    for wfi, why in bad_w:
        r3.fail_fn(wfi, wfi.node, "%s skips the write" % wfi.name,
                   "%s returns without writing its argument although the service directory exists (path taken under [%s]): the handler acknowledges the request, but what "
                   "was accepted is not what is on disk and a later connection / search is served from the old content" % (wfi.name, why))
    if not bad_w:
        r3.ok({"file_manager": F.SRV_FM, "writers": n_w, "rule": "write on every path but 'directory missing'"})
    for wfi, call in F.directory_creators(repo, F.SRV_FM):
        r3.fail_fn(wfi, call, "%s creates directories" % wfi.name,
                   "%s creates the service directory itself (%s): only the accepted configuration upload may bring a service into being" % (wfi.name, short(call)))
    sw, n_mk = F.creation_failures_swallowed(repo, F.SRV_FM)
    r3.require(n_mk >= 1, repo.module(F.SRV_FM).functions.get("create_sid_folder") or svc.methods["__init__"], "directory creation found",
               "the server file manager no longer creates the service directory")
    for wfi, call, names in sw:
        r3.fail_fn(wfi, call, "%s swallows a failed creation" % wfi.name,
                   "%s swallows %s around %s: when the service directory cannot be created (a name that is no directory name, a missing parent, no "
                   "permission) the upload goes on, the artifact writers find no directory and write nothing, and the configuration is acknowledged "
                   "without being on disk" % (wfi.name, "/".join(names), short(call)))
    if not sw:
        r3.ok({"file_manager": F.SRV_FM, "directory creations": n_mk, "rule": "no failure of the creation but 'already exists' is swallowed"})
    _check_artifact_names(repo, r3)

    # ------------------------------------------------------------------ R10.6 a closed connection cannot overwrite its successor's state
    r6 = Rule("R10.6", "a closed connection's snapshot is not written back over a later connection's accepted requests")
    rules.append(r6)
    from .c12 import check_writeback_freshness
    check_writeback_freshness(repo, r6)

    # ------------------------------------------------------------------ R10.4 who may write
    r4 = Rule("R10.4", "only the two uploading handlers write durable state")
    rules.append(r4)
    _check_writers(repo, r4, scanner, table, role)
    return rules


def _check_payload_args(repo, r1, role, fi, records):
    params = fi.params
    content_param = params[1] if len(params) > 1 else None
    for node, e, _ in records:
        if e.kind != "fm" or e.chain:
            continue
        args = e.info.get("args") or []
        if role == "upload" and e.name == "write_encrypted_database":
            ok = len(args) >= 2 and isinstance(args[1], ast.Name) and args[1].id == content_param
            r1.require(ok, fi, "write_encrypted_database payload",
                       "the stored index is not the uploaded payload parameter %r: %s" % (content_param, short(e.node)), e.node)
        if role == "config" and e.name == "write_service_config":
            # the stored config must derive from the payload parameter
            ok = len(args) >= 2 and _derives_from(fi, args[1], content_param)
            r1.require(ok, fi, "write_service_config payload",
                       "the stored configuration does not derive from the uploaded payload: %s" % short(e.node), e.node)
    if role == "config":
        for node, e, _ in records:
            if e.kind == "attr_store" and e.name == "config" and not e.chain:
                v = e.info.get("value")
                r1.require(v is not None and _derives_from(fi, v, content_param), fi, "self.config payload",
                           "self.config is not set from the uploaded payload", e.node)


def _derives_from(fi, expr, param, depth=0):
    """expr mentions `param` directly or through single-assignment locals."""
    if param is None or depth > 4:
        return False
    names = {n.id for n in ast.walk(expr) if isinstance(n, ast.Name)}
    if param in names:
        return True
    for nm in names:
        defs = [s for s in ast.walk(fi.node) if isinstance(s, ast.Assign) and any(isinstance(t, ast.Name) and t.id == nm for t in s.targets)]
        if len(defs) >= 1 and all(_derives_from(fi, d.value, param, depth + 1) for d in defs):
            return True
    return False


def _check_paths(repo, r2, fi, cfg, scanner, reply):
    try:
        paths = cfg.paths()
    except OverflowError:
        raise AnalysisError("too many paths in %s" % fi.key)
    n_ref = 0
    for p in paths:
        effs = []
        for nid in p:
            effs.extend(scanner.node_effects(fi, cfg.nodes[nid]))
        sends = [e for e in effs if e.kind == "send"]
        refusal = any(e.info.get("ok") is False for e in sends) or (p[-1] == cfg.raise_exit)
        lines = [cfg.nodes[n].line for n in p if cfg.nodes[n].line]
        last_stmt = cfg.nodes[p[-2]].stmt if len(p) > 1 else None
        if refusal:
            n_ref += 1
            bad = [e for e in effs if (e.kind == "fm" and not e.name.startswith(("read_", "check_")))
                   or (e.kind == "item_store" and e.info.get("base") == "service_meta")
                   or (e.kind == "attr_store" and e.name in ("config", "service_meta", "edb"))]
            for e in bad:
                r2.fail_fn(fi, e.node, "refusal-path effect %s" % e.describe(),
                           "a refused request performs %s (path through lines %s)" % (e.describe(), _compress(lines)))
            if not bad:
                r2.ok()
            neg = [e for e in sends if e.info.get("ok") is False]
            if len(sends) != 1 or len(neg) != 1 or neg[0].name != reply:
                r2.fail_fn(fi, last_stmt, "refusal reply",
                           "a refusal path sends %s; expected exactly one {'ok': False} reply of type %r (lines %s)" % (
                               [(e.name, e.info.get("ok")) for e in sends], reply, _compress(lines)))
            else:
                r2.ok({"handler": fi.qual, "refusal_path_lines": _compress(lines), "reply": reply})
        else:
            pos = [e for e in sends if e.info.get("ok") is not False]
            if len(sends) != 1 or len(pos) != 1 or pos[0].name != reply:
                r2.fail_fn(fi, last_stmt, "success reply",
                           "a success path sends %s; expected exactly one reply of type %r (lines %s)" % (
                               [(e.name, e.info.get("ok")) for e in sends], reply, _compress(lines)))
            else:
                r2.ok({"handler": fi.qual, "success_path_lines": _compress(lines), "reply": reply})
    r2.require(n_ref >= 1, fi, "refusal path exists", "handler has no refusing path at all")


def _compress(lines):
    out = []
    for l in lines:
        if not out or out[-1] != l:
            out.append(l)
    return out


def _check_dispatch_loop(repo, r5):
    """The receive loop dispatches a message to the handler registered for its 'type', with its 'content', and only when
    the message's 'sid' equals this service's sid - decided on derivation terms and must-facts, not on local names."""
    from ..query import Q
    fi = repo.func(F.SRV, "Service._recv_message")
    q = Q(repo, fi)
    SELF = ("param", "self")
    msgs = [t for _c, _n, t in q.calls() if t[0] == "call" and t[1] == "pickle.loads"]
    disp = []
    for c, nid, t in q.calls():
        if t[0] == "calldyn":
            tgt = t[1]
            if tgt[0] == "sub" and tgt[1] == ("attr", SELF, "recv_msg_handler"):
                disp.append((c, nid, t, tgt[2]))
            elif tgt[0] == "mcall" and tgt[1] == ("attr", SELF, "recv_msg_handler") and tgt[2] == "get" and tgt[3]:
                disp.append((c, nid, t, tgt[3][0]))
    if not r5.require(len(disp) >= 1 and bool(msgs), fi, "dispatch call", "no dispatch through self.recv_msg_handler found"):
        return
    MSG = msgs[0]

    def field(k):
        return [("mcall", MSG, "get", (("const", k),), ()), ("sub", MSG, ("const", k))]
    for c, nid, t, key in disp:
        own = any(f[0] == "==" and f[-1] is True and ("attr", SELF, "sid") in f[1:3] and any(x in field("sid") for x in f[1:3]) for f in q.facts_terms(nid))
        if not own:
            r5.fail_fn(fi, c, "dispatch reachable for foreign sid",
                       "a message whose sid differs from this service's sid reaches the handler dispatch")
        else:
            r5.ok({"function": fi.qual, "dispatch_line": getattr(c, "lineno", 0), "rule": "reached only with message sid == self.sid"})
        r5.require(key in field("type"), fi, "dispatch key", "the dispatch key is not the message's 'type' field", c)
        r5.require(len(t[2]) >= 1 and t[2][0] in field("content"), fi, "dispatch arguments", "the handler is not called with the message content", c)


def _check_loader_and_echo(repo, r3, states):
    init = repo.func(F.SRV, "Service.__init__")
    # (a) state comes from read_service_meta when the service exists, else constant NOT_EXISTS
    got_read, got_default = F.loader_state_sources(repo, init, "check_sid_folder_exist")
    r3.require(got_read, init, "loader reads persisted state",
               "Service.__init__ no longer takes service_meta from read_service_meta when the service exists")
    r3.require(got_default, init, "loader default state",
               "Service.__init__ no longer starts an unknown service in state NOT_EXISTS (0)")
    # (b) getter
    gfi, rets, good = F.getter_returns_state(repo, F.SRV)
    r3.require(rets and len(good) == len(rets), gfi, "state getter",
               "get_current_service_state does not return self.service_meta['state']")
    # (c) init echo
    echo = repo.func(F.SRV, "Service.send_init_echo")
    ok = False
    from ..query import Q, dict_pairs, alternatives

    def state_read_term(t):
        return t == ("sub", ("attr", ("param", "self"), "service_meta"), ("const", "state")) or \
            (isinstance(t, tuple) and t and t[0] == "call" and isinstance(t[1], str) and t[1] == F.SRV + "::Service.get_current_service_state" and not t[2])
    qe = Q(repo, echo)
    for c, nid, t in qe.calls_to("send_message"):
        content = qe.arg(c, nid, 1, kw="content")
        for alt in alternatives(content) if content is not None else []:
            if alt[0] == "call" and alt[1] in ("pickle.dumps",) and alt[2]:
                dp = dict_pairs(alt[2][0])
                if dp is not None and not dp[1]:
                    pairs = dp[0]
                    if state_read_term(pairs.get(("const", "state"))) and pairs.get(("const", "ok")) == ("const", True):
                        ok = True
    r3.require(ok, echo, "init echo reports current state",
               "the init echo does not report {'ok': True, 'state': <current state>}")
    # the echo is sent by the constructor after the state was loaded
    calls = [c for c in ast.walk(init.node) if isinstance(c, ast.Call) and dotted(c.func) == "self.send_init_echo"]
    if r3.require(len(calls) == 1, init, "init echo call", "Service.__init__ must send the init echo exactly once"):
        cfg = cfg_of(init.node)
        echo_nodes = cfg.node_of_expr(calls[0])
        loads = [n.id for n in cfg.nodes if n.stmt is not None and isinstance(n.stmt, ast.Assign)
                 and dotted(n.stmt.targets[0]) == "self.service_meta"]
        okd = all(any(cfg.can_reach(l, e) for l in loads) for e in echo_nodes) and \
            not cfg.can_reach(cfg.entry, echo_nodes[0], avoid=set(loads))
        r3.require(okd, init, "echo after load", "the init echo can be sent before service_meta is loaded", calls[0])


def _path_constants(fn):
    out = set()
    for n in ast.walk(fn.node):
        if isinstance(n, ast.Call) and isinstance(n.func, ast.Attribute) and n.func.attr == "joinpath":
            for a in n.args:
                if isinstance(a, ast.Constant) and isinstance(a.value, str):
                    out.add(a.value)
        if isinstance(n, ast.BinOp) and isinstance(n.op, ast.Div) and isinstance(n.right, ast.Constant):
            out.add(n.right.value)
    return out


def _check_artifact_names(repo, r3):
    m = repo.module(F.SRV_FM)
    for art in ("service_config", "service_meta", "encrypted_database"):
        rd, wr = m.functions.get("read_" + art), m.functions.get("write_" + art)
        if rd is None or wr is None:
            raise AnalysisError("file_manager read/write pair for %s vanished" % art)
        a, b = _path_constants(rd), _path_constants(wr)
        finals = {x for x in b if not x.endswith(".tmp")}
        r3.require(bool(a) and a <= b and a == finals, wr, "artifact name %s" % art,
                   "read_%s reads %s but write_%s produces %s" % (art, sorted(a), art, sorted(b)))
        r3.instance({"artifact": art, "read": sorted(a), "written": sorted(b)})


def _check_writers(repo, r4, scanner, table, role):
    by_role = {role[k]: v for k, v in table.items() if k in role}
    cfgh, uph = by_role.get("config"), by_role.get("upload")
    allowed = {
        "create_sid_folder": {cfgh.key},
        "write_service_config": {cfgh.key},
        "write_encrypted_database": {uph.key},
        "delete_sid_folder": set(),
        "write_service_meta": {cfgh.key, uph.key, F.SRV + "::Service._store_service_meta"},
    }
    n_sites = 0
    for rel, m in repo.modules.items():
        if not rel.startswith("frontend/server/") and rel not in ("run_server.py",):
            continue
        for fi in m.all_functions():
            flat = EffectScanner(repo)
            for st in stmts_in_order(fi.node):
                for e in flat.stmt_effects(fi, st, depth=99):
                    if e.kind == "fm" and e.name in allowed:
                        n_sites += 1
                        if fi.key in allowed[e.name]:
                            r4.ok({"call": e.name, "in": fi.key})
                        else:
                            r4.fail_fn(fi, e.node, "call of %s" % e.name,
                                       "%s may only be called from %s" % (e.name, sorted(allowed[e.name]) or "nowhere"))
                    if e.kind == "item_store" and e.info.get("base") == "service_meta":
                        n_sites += 1
                        if fi.key in (cfgh.key, uph.key):
                            r4.ok({"store": e.name, "in": fi.key})
                        else:
                            r4.fail_fn(fi, e.node, "store %s" % e.name,
                                       "service_meta is modified outside the two uploading handlers")
                    if e.kind == "attr_store" and e.name == "service_meta":
                        n_sites += 1
                        if fi.qual == "Service.__init__":
                            r4.ok({"store": "self.service_meta", "in": fi.key})
                        else:
                            r4.fail_fn(fi, e.node, "rebinding self.service_meta",
                                       "self.service_meta is rebound outside the constructor")
                    if e.kind == "attr_store" and e.name == "edb" and fi.cls is not None and fi.cls.name == "Service":
                        n_sites += 1
                        v = e.info.get("value")
                        if isinstance(v, ast.Constant) and v.value is None and fi.name == "__init__":
                            r4.ok()
                        elif v is not None and _edb_from_disk(fi, v):
                            r4.ok({"store": "self.edb", "from": "read_encrypted_database(self.sid)", "in": fi.key})
                        else:
                            r4.fail_fn(fi, e.node, "store self.edb",
                                       "self.edb is assigned from something other than the index stored on disk")
            # callers of _store_service_meta
            for c in ast.walk(fi.node):
                if isinstance(c, ast.Call) and dotted(c.func) == "self._store_service_meta" and fi.module.rel == F.SRV:
                    n_sites += 1
                    if fi.key in (cfgh.key, uph.key, F.SRV + "::Service.close_service"):
                        r4.ok({"call": "_store_service_meta", "in": fi.key})
                    else:
                        r4.fail_fn(fi, c, "call of _store_service_meta",
                                   "_store_service_meta is called outside the handlers and close_service")
    # also writes that bypass the file manager: open(...,'w') / write_bytes / unlink / rmtree in server code
    for rel, m in repo.modules.items():
        if not rel.startswith("frontend/server/") or rel == F.SRV_FM:
            continue
        for fi in m.all_functions():
            for c in ast.walk(fi.node):
                if isinstance(c, ast.Call):
                    d = dotted(c.func) or (c.func.attr if isinstance(c.func, ast.Attribute) else "")
                    last = d.split(".")[-1]
                    if last in ("rmtree", "unlink", "write_bytes", "write_text", "remove", "rename", "replace", "mkdir") or \
                            (last == "open" and _open_mode_writes(c)):
                        r4.fail_fn(fi, c, "raw file-system write %s" % last,
                                   "server code outside file_manager performs a raw file-system mutation: %s" % short(c))
    r4.require(n_sites >= 8, repo.func(F.SRV, "Service.__init__"), "writer sites floor",
               "fewer durable-write sites (%d) found than confirmed by hand (8)" % n_sites)


def _open_mode_writes(call):
    mode = None
    if len(call.args) > 1 and isinstance(call.args[1], ast.Constant):
        mode = call.args[1].value
    for k in call.keywords:
        if k.arg == "mode" and isinstance(k.value, ast.Constant):
            mode = k.value.value
    return isinstance(mode, str) and any(ch in mode for ch in "wax+")


def _edb_from_disk(fi, v):
    """v is <Class>.deserialize(x, ...) where x is FileManager.read_encrypted_database(self.sid) (directly or via a local)."""
    if not (isinstance(v, ast.Call) and isinstance(v.func, ast.Attribute) and v.func.attr == "deserialize" and v.args):
        return False
    a = v.args[0]

    def is_read(x):
        return isinstance(x, ast.Call) and (dotted(x.func) or "").endswith("read_encrypted_database") and \
            x.args and dotted(x.args[0]) == "self.sid"
    if is_read(a):
        return True
    if isinstance(a, ast.Name):
        defs = [s for s in ast.walk(fi.node) if isinstance(s, ast.Assign) and any(isinstance(t, ast.Name) and t.id == a.id for t in s.targets)]
        return len(defs) >= 1 and all(is_read(d.value) for d in defs)
    return False


# ----------------------------------------------------------------------------- self-test variants
from ..selftest import V  # noqa: E402

_S = F.SRV
VARIANTS = [
    V("config-guard-inverted", "fire", "R10.1", [(_S, "Service.handle_upload_config",
      "if self.get_current_service_state() != SERVICE_STATE.NOT_EXISTS:", "if self.get_current_service_state() == SERVICE_STATE.NOT_EXISTS:")]),
    V("config-guard-deleted", "fire", "R10.", [(_S, "Service.handle_upload_config",
      "if self.get_current_service_state() != SERVICE_STATE.NOT_EXISTS:", "if False:")]),
    V("upload-ready-guard-weakened", "fire", "R10.1", [(_S, "Service.handle_upload_encrypted_database",
      "if self.get_current_service_state() == SERVICE_STATE.ALL_READY:", "if self.get_current_service_state() > SERVICE_STATE.ALL_READY:")]),
    V("search-guard-wrong-constant", "fire", "R10.1", [(_S, "Service.handle_search_token",
      "if self.get_current_service_state() == SERVICE_STATE.CONFIG_UPLOADED_BUT_EDB_NOT_UPLOADED:",
      "if self.get_current_service_state() == SERVICE_STATE.ALL_READY:")]),
    V("meta-after-reply", "fire", "R10.3", [(_S, "Service.handle_upload_encrypted_database",
      """        FileManager.write_service_meta(self.sid, self.service_meta)
        self.send_message(MsgType.UPLOAD_DB, pickle.dumps({"ok": True}))""",
      """        self.send_message(MsgType.UPLOAD_DB, pickle.dumps({"ok": True}))
        FileManager.write_service_meta(self.sid, self.service_meta)""")]),
    V("config-sets-state-2", "fire", "R10.1", [(_S, "Service.handle_upload_config",
      'self.service_meta["state"] = SERVICE_STATE.CONFIG_UPLOADED_BUT_EDB_NOT_UPLOADED', 'self.service_meta["state"] = SERVICE_STATE.ALL_READY')]),
    V("foreign-sid-not-skipped", "fire", "R10.5", [(_S, "Service._recv_message",
      "if msg_type is None or sid is None or sid != self.sid:", "if msg_type is None or sid is None:")]),
    V("edb-from-message", "fire", "R10.", [(_S, "Service.handle_upload_encrypted_database",
      "        FileManager.write_encrypted_database(self.sid, edb_bytes)\n",
      "        FileManager.write_encrypted_database(self.sid, edb_bytes)\n        self.edb = edb_bytes\n")]),
    V("refusal-writes-meta", "fire", "R10.2", [(_S, "Service.handle_search_token",
      "            reason = f\"The config of service {self.short_sid} has not been uploaded.\"\n",
      "            reason = f\"The config of service {self.short_sid} has not been uploaded.\"\n            self._store_service_meta()\n")]),
    V("delete-handler-added", "fire", "R10.4", [(_S, "Service.close_service",
      "        self._store_service_meta()", "        self._store_service_meta()\n        FileManager.delete_sid_folder(self.sid)")]),
    V("mkdir-failure-swallowed", "fire", "R10.3", [(F.SRV_FM, "create_sid_folder",
      "    _PROGRAM_PATH.joinpath(sid).mkdir(exist_ok=True)", "    try:\n        _PROGRAM_PATH.joinpath(sid).mkdir()\n    except OSError:\n        pass")]),
    V("benign-mkdir-exists-caught", "silent", None, [(F.SRV_FM, "create_sid_folder",
      "    _PROGRAM_PATH.joinpath(sid).mkdir(exist_ok=True)", "    try:\n        _PROGRAM_PATH.joinpath(sid).mkdir()\n    except FileExistsError:\n        pass")]),
    V("benign-two-ifs-folded", "silent", None, [(_S, "Service.handle_upload_encrypted_database",
      "if self.get_current_service_state() == SERVICE_STATE.ALL_READY:", "if self.get_current_service_state() >= SERVICE_STATE.ALL_READY:")]),
    V("benign-local-alias", "silent", None, [(_S, "Service.handle_upload_config",
      "        if self.get_current_service_state() != SERVICE_STATE.NOT_EXISTS:",
      "        cur = self.get_current_service_state()\n        if cur != SERVICE_STATE.NOT_EXISTS:")]),
    V("benign-literal-compare", "silent", None, [(_S, "Service.handle_search_token",
      "if self.get_current_service_state() == SERVICE_STATE.NOT_EXISTS:", "if self.service_meta[\"state\"] == 0:")]),
    V("benign-store-via-helper", "silent", None, [(_S, "Service.handle_upload_config",
      "        FileManager.write_service_meta(self.sid, self.service_meta)", "        self._store_service_meta()")]),
]
