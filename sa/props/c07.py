"""C07 - setup and search leave their inputs intact; searches repeat in any order.

Alias analysis on use-def terms: no statement reachable from the scheme algorithms mutates an
object reachable from a parameter, from `self` (outside __init__) or from a module global.  See
DESIGN.md section 3, C07.
"""
import ast

from ..core import Rule
from ..model import AnalysisError, dotted, unparse, short
from ..terms import fn_terms, walk, show
from ..schemes import discover

EXPLANATION = ("Interprocedural alias analysis over flow-sensitive use-def terms: for every mutation site (subscript/"
               "attribute/augmented store, del, mutating method call, random.shuffle, or a call into a project function that "
               "mutates its parameter) reachable from __init__/_parse_config/_Gen/_Enc/_Trap/_Search and their helpers, the "
               "mutated object's derivation is followed back; shallow copies keep their elements aliased, deepcopy and "
               "immutable results cut the alias.  A mutation that reaches a parameter, `self` outside __init__, or a module "
               "global is a violation.  Order-independence of searches follows because no state can be carried over.")
ASSUMPTIONS = ["copy.deepcopy and bytes/int/tuple results do not alias their inputs",
               "pickle round trips are not recognised as copies (would be reported; none in the tree)"]

SHALLOW_CALLS = {"dict", "list", "set", "sorted", "reversed", "copy.copy", "tuple", "frozenset", "iter", "enumerate", "zip",
                 "itertools.chain", "filter", "map"}
FRESH_CALLS = {"copy.deepcopy", "deepcopy", "bytes", "bytearray", "int", "len", "str", "sum", "max", "min", "range", "os.urandom",
               "math.ceil", "math.log2", "math.floor", "random.sample", "random.randint", "random.choice", "int.from_bytes", "bool", "float",
               "abs", "divmod", "isinstance", "hash", "id", "repr"}
SHALLOW_METHODS = {"copy", "items", "values", "keys", "__iter__"}
ELEMENT_METHODS = {"get", "pop", "popitem", "setdefault", "__getitem__"}
# named exceptions (one line of reason each): name -> constructor memo tables; the stored values are classes / partials
# chosen by the *name* alone, so no call can observe an earlier one through them
REGISTRY_MEMO = {
    "toolkit/prf/__init__.py::get_prf_implementation": "memo name -> PRF class",
    "toolkit/prp/__init__.py::get_prp_implementation": "memo name -> PRP class",
    "toolkit/symmetric_encryption/__init__.py::get_symmetric_encryption_implementation": "memo name -> cipher class",
    "toolkit/hash.py::get_hash_implementation": "memo name -> hash wrapper constructor",
    "schemes/__init__.py::load_sse_module": "memo scheme name -> module loader",
}
SCHEME_METHODS = ["__init__", "_Gen", "_Enc", "_Trap", "_Search", "KeyGen", "EDBSetup", "TokenGen", "Search"]


def alias_of(t, depth=0):
    """-> None (fresh / immutable) or (root, k): root in ('param', name) / ('global', ...) / ('self',), k = number of
    fresh outer layers between the value and the root's own object graph (0 = same object or reachable part of it)."""
    if depth > 40 or not isinstance(t, tuple) or not t:
        return None
    tag = t[0]
    if tag == "param":
        return (("param", t[1]), 0)
    if tag == "global":
        return (("global", t[1], t[2]), 0)
    if tag == "const":
        # module-level constant evaluated by the resolver: a store into it would hit the shared object
        return None
    if tag in ("attr", "sub", "elem", "proj"):
        a = alias_of(t[1], depth + 1)
        if a is None:
            return None
        return (a[0], max(a[1] - 1, 0))
    if tag == "slice":
        a = alias_of(t[1], depth + 1)
        return None if a is None else (a[0], a[1] + 1)
    if tag == "cont":
        a = alias_of(t[2], depth + 1)
        best = a
        # elements put into a fresh local container keep their own aliases one level down
        for mut in t[3]:
            kind, subs, x, y, mn = mut
            vals = []
            if kind in ("append", "add", "insert", "extend", "update") and x:
                vals = list(x)
            if kind in ("setitem",) and y is not None:
                vals = [y]
            for v in vals:
                if isinstance(v, tuple):
                    av = alias_of(v, depth + 1)
                    if av is not None:
                        cand = (av[0], av[1] + 1 + len(subs))
                        if best is None or cand[1] < best[1]:
                            best = cand
        return best
    if tag == "phi":
        best = None
        for x in t[1]:
            a = alias_of(x, depth + 1)
            if a is not None and (best is None or a[1] < best[1]):
                best = a
        return best
    if tag == "call":
        name = t[1]
        if name in FRESH_CALLS or name.split(".")[-1] in ("deepcopy",):
            return None
        if name in SHALLOW_CALLS and t[2]:
            a = alias_of(t[2][0], depth + 1)
            return None if a is None else (a[0], a[1] + 1)
        if isinstance(name, str) and "::" in name:
            # a project function that hands out (part of) one of its arguments, of its class or of a module global
            for kind, who, k in _returned_aliases(name):
                if kind == "global":
                    return (who, k)
                if kind == "self":
                    return (("self",), k)
                if kind == "arg" and who < len(t[2]):
                    a = alias_of(t[2][who], depth + 1)
                    if a is not None:
                        return (a[0], max(a[1] + k, 0))
        return None
    if tag == "mcall":
        recv, name = t[1], t[2]
        a = alias_of(recv, depth + 1)
        if a is None:
            return None
        if name in SHALLOW_METHODS:
            return (a[0], a[1] + 1)
        if name in ELEMENT_METHODS:
            return (a[0], max(a[1] - 1, 0))
        return None
    if tag == "comp":
        # a fresh container whose elements may alias
        a = alias_of(t[2], depth + 1)
        return None if a is None else (a[0], a[1] + 1)
    if tag in ("tuple", "list", "set"):
        best = None
        for x in t[1]:
            a = alias_of(x, depth + 1)
            if a is not None:
                cand = (a[0], a[1] + 1)
                if best is None or cand[1] < best[1]:
                    best = cand
        return best
    if tag == "dict":
        best = None
        for k, v in t[1]:
            a = alias_of(v, depth + 1) if v is not None else None
            if k is None and v is not None:  # {**p}
                a = alias_of(v, depth + 1)
            if a is not None:
                cand = (a[0], a[1] + 1)
                if best is None or cand[1] < best[1]:
                    best = cand
        return best
    if tag == "ifexp":
        best = None
        for x in (t[2], t[3]):
            a = alias_of(x, depth + 1)
            if a is not None and (best is None or a[1] < best[1]):
                best = a
        return best
    if tag == "enter":
        return alias_of(t[1], depth + 1)
    return None


_RET = {"repo": None, "memo": {}, "active": set()}


def _returned_aliases(key):
    """[(kind, who, k)] - what the values returned by project function `key` alias: ('global', root, k) a module global or a class
    attribute reached through cls; ('self', None, k) state of the receiver; ('arg', positional index, k) an argument."""
    repo = _RET["repo"]
    if repo is None:
        return []
    memo = _RET["memo"]
    if key in memo and memo[key][0] is repo:
        return memo[key][1]
    if key in _RET["active"]:
        return []
    _RET["active"].add(key)
    out = []
    try:
        rel, qual = key.split("::")
        try:
            fi = repo.func(rel, qual)
        except Exception:
            fi = None
        if fi is not None and not qual.endswith(".__init__"):
            ft = fn_terms(repo, fi)
            bound = fi.cls is not None and fi.params and fi.params[0] in ("self", "cls") and not any("staticmethod" in d for d in fi.decorators)
            for n in ft.cfg.nodes:
                if n.kind != "return" or n.stmt.value is None:
                    continue
                try:
                    a = alias_of(ft.term(n.stmt.value, n.id), 30)
                except Exception:
                    a = None
                if a is None:
                    continue
                root, k = a
                if root[0] == "global":
                    out.append(("global", root, k))
                elif root[0] == "param" and bound and root[1] == fi.params[0]:
                    if fi.params[0] == "cls" or any("classmethod" in d for d in fi.decorators):
                        out.append(("global", ("global", rel, "%s.<class state>" % fi.cls.name), k))
                    else:
                        out.append(("self", None, k))
                elif root[0] == "param" and root[1] in fi.params:
                    out.append(("arg", fi.params.index(root[1]) - (1 if bound else 0), k))
    finally:
        _RET["active"].discard(key)
    memo[key] = (repo, out)
    return out


class Analyzer:
    def __init__(self, repo):
        self.repo = repo
        _RET["repo"] = repo
        self._summary = {}
        self._active = set()

    def param_mutations(self, fi):
        """{param index: depth} for parameters a project function mutates (depth = subscript levels below the parameter)."""
        if fi.key in self._summary:
            return self._summary[fi.key]
        if fi.key in self._active:
            return {}
        self._active.add(fi.key)
        res = {}
        try:
            for (root, k, node, what, depth_below) in self.sites(fi):
                if root[0] == "param" and root[1] in fi.params:
                    idx = fi.params.index(root[1])
                    d = depth_below
                    if idx not in res or d < res[idx]:
                        res[idx] = d
        finally:
            self._active.discard(fi.key)
        self._summary[fi.key] = res
        return res

    def sites(self, fi):
        """Mutation sites of fi that reach an aliased root: (root, k_remaining, ast node, description, levels below root)."""
        ft = fn_terms(self.repo, fi)
        out = []
        for name, ms in ft.mutations().items():
            for (mn, kind, payload, subs) in ms:
                if name == "self":
                    # handled by R7.2 (attribute stores on self)
                    if kind in ("setattr",) and not subs:
                        out.append((("self",), 0, payload[1], "self.%s = ..." % payload[0].attr, 0))
                        continue
                    base_t = ("param", "self")
                    # self.x[...] = / self.x.append(): object reachable from self
                    node = payload if isinstance(payload, ast.Call) else payload[1]
                    out.append((("self",), 0, node, "%s on an object reachable from self: %s" % (kind, short(node)), 0))
                    continue
                ids = ft.reaching(name, mn)
                if not ids:
                    # not a local: module global or closure
                    r = self.repo.resolve_dotted(fi.module, name)
                    node = payload if isinstance(payload, ast.Call) else payload[1]
                    if r and r[0] == "global":
                        out.append((("global", r[1][0].rel, name), 0, node, "%s of module global %s" % (kind, name), len(subs)))
                    continue
                base = ft._defs_term(name, ids, 0)
                a = alias_of(base)
                if a is None:
                    continue
                root, k = a
                node = payload if isinstance(payload, ast.Call) else payload[1]
                levels = len(subs)
                if kind == "setattr":
                    levels = len(subs)
                if k - levels <= 0:
                    out.append((root, k - levels, node, "%s via local %r (%s)" % (kind, name, short(node)), max(levels - k, 0)))
        # in-place augmented assignment on a name that aliases a mutable object: `ids = database[kw]; ids += [x]` extends the caller's list
        for n in ft.cfg.nodes:
            st = n.stmt
            if n.kind == "stmt" and isinstance(st, ast.AugAssign) and isinstance(st.target, ast.Name) and isinstance(st.op, (ast.Add, ast.Mult, ast.BitOr, ast.BitAnd, ast.Sub)):
                ids = ft.reaching(st.target.id, n.id)
                if not ids:
                    continue
                base = ft._defs_term(st.target.id, ids, 0)
                a = alias_of(base)
                if a is None:
                    continue
                root, k = a
                # bytes / int valued aliases are immutable: only containers are extended in place
                rhs = st.value
                listish = isinstance(rhs, (ast.List, ast.ListComp, ast.Set, ast.Dict, ast.SetComp, ast.DictComp)) or \
                    (isinstance(rhs, ast.Call) and dotted(rhs.func) in ("list", "set", "dict"))
                if listish and k <= 0:
                    out.append((root, k, st, "in-place %s on local %r aliasing the input (%s)" % (type(st.op).__name__, st.target.id, short(st)), 0))
        # calls into project functions that mutate their parameters; external known mutators
        for n in ft.cfg.nodes:
            if n.stmt is None or n.ast is None:
                continue
            from ..cfg import calls_in_order
            for c in calls_in_order(n.stmt if n.kind != "test" else n.ast):
                tgt = self.repo.resolve_call(fi, c)
                if hasattr(tgt, "key"):
                    if tgt.key == fi.key:
                        continue
                    pm = self.param_mutations(tgt)
                    if not pm:
                        continue
                    offset = 1 if (tgt.cls is not None and tgt.params and tgt.params[0] in ("self", "cls") and
                                   not any("staticmethod" in d for d in tgt.decorators)) else 0
                    # constructor call Class(...) -> __init__(self, ...)
                    for idx, d in pm.items():
                        ai = idx - offset
                        arg = None
                        if 0 <= ai < len(c.args):
                            arg = c.args[ai]
                        else:
                            pname = tgt.params[idx] if idx < len(tgt.params) else None
                            for kw in c.keywords:
                                if kw.arg == pname:
                                    arg = kw.value
                        if arg is None:
                            continue
                        a = alias_of(ft.term(arg, n.id))
                        if a is None:
                            continue
                        root, k = a
                        if k - d <= 0:
                            out.append((root, k - d, c, "%s mutates its argument %s" % (tgt.qual, short(arg)), max(d - k, 0)))
        return out


def reachable_functions(repo, start, limit=6):
    seen = {}
    stack = [(f, 0) for f in start]
    while stack:
        fi, d = stack.pop()
        if fi.key in seen:
            continue
        seen[fi.key] = fi
        if d >= limit:
            continue
        for c in ast.walk(fi.node):
            if isinstance(c, ast.Call):
                tgt = repo.resolve_call(fi, c)
                if hasattr(tgt, "key") and tgt.module.rel.startswith(("schemes/", "toolkit/")):
                    stack.append((tgt, d + 1))
    return seen


def config_mutators(repo, s):
    """Methods of the scheme's configuration class that store into the configuration object and are called from somewhere
    else than the construction of that object (`__init__`, `_parse_config`, `_load_*`): [(method, store, caller, call)].
    Call sites are matched by attribute name within the scheme's own modules and the interface modules."""
    out = []
    if s.config_cls is None:
        return out
    building = lambda f: f.name in ("__init__", "_parse_config") or f.name.startswith("_load_")  # noqa: E731
    for name, m in s.config_cls.methods.items():
        if building(m) or (name.startswith("__") and name.endswith("__")):
            continue
        stores = [st for st in ast.walk(m.node) if isinstance(st, (ast.Assign, ast.AugAssign, ast.AnnAssign)) and any(
            isinstance(t, ast.Attribute) and isinstance(t.value, ast.Name) and t.value.id == m.params[0]
            for t in (st.targets if isinstance(st, ast.Assign) else [st.target]))] if m.params else []
        stores += [c for c in ast.walk(m.node) if isinstance(c, ast.Call) and dotted(c.func) in ("setattr", "object.__setattr__")
                   and c.args and isinstance(c.args[0], ast.Name) and m.params and c.args[0].id == m.params[0]]
        if not stores:
            continue
        pkg = s.cls.module.rel.rsplit("/", 1)[0] + "/"
        for rel, mod in repo.modules.items():
            if not (rel.startswith(pkg) or rel.startswith("schemes/interface/")):
                continue
            for f in mod.all_functions():
                if f.cls is s.config_cls and building(f):
                    continue
                for c in ast.walk(f.node):
                    if isinstance(c, ast.Call) and isinstance(c.func, ast.Attribute) and c.func.attr == name and f.key != m.key:
                        out.append((m, stores[0], f, c))
    return out


def check(repo):
    r1 = Rule("R7.1", "no mutation of an object reachable from a parameter or a module global")
    r2 = Rule("R7.2", "no hidden state: algorithms do not store into self, globals or memoisation caches")
    rules = [r1, r2]
    an = Analyzer(repo)
    schemes = discover(repo)
    n_fn = 0
    for s in schemes:
        start = [s.cls.methods[m] for m in s.cls.methods]
        if s.config_cls is not None:
            start += list(s.config_cls.methods.values())
        fns = reachable_functions(repo, start)
        for key, fi in sorted(fns.items()):
            n_fn += 1
            sites = an.sites(fi)
            bad = 0
            for (root, k, node, what, below) in sites:
                if root == ("self",):
                    # allowed: __init__ storing into self; config objects filling their slots
                    if fi.name in ("__init__", "_parse_config") or fi.name.startswith("_load_") or fi.name.startswith("__"):
                        continue
                    if fi.cls is not None and fi.cls is s.cls or (fi.cls is not None and fi.cls.name == s.cls.name):
                        bad += 1
                        r2.fail_fn(fi, node, "store into self in %s" % fi.name,
                                   "%s keeps state on the scheme object (%s): a later call can observe an earlier one" % (fi.qual, what))
                    continue
                if root[0] == "param" and root[1] in ("self", "cls"):
                    continue
                # a function may mutate its own parameter only if no caller passes an aliased object (checked at call sites);
                # report at the outermost function whose *own parameter or global* is hit when that function is an entry point
                entry = fi.cls is not None and ((fi.cls is s.cls and fi.name in SCHEME_METHODS) or
                                                (fi.cls is s.config_cls and fi.name in ("__init__", "_parse_config", "from_dict", "from_json")))
                if root[0] == "global":
                    if fi.key in REGISTRY_MEMO:
                        r1.note("%s: %s (accepted: %s)" % (fi.key, what, REGISTRY_MEMO[fi.key]))
                        continue
                    bad += 1
                    r1.fail_fn(fi, node, "mutation of module global %s" % root[2], "%s: %s" % (fi.qual, what))
                elif entry:
                    bad += 1
                    r1.fail_fn(fi, node, "mutation of parameter %s" % root[1],
                               "%s mutates (an object reachable from) its parameter %r: %s" % (fi.qual, root[1], what))
            if not bad:
                r1.ok({"function": key, "mutation_sites_examined": len(fn_terms(repo, fi).mutations()), "aliased": 0})
            # memoisation decorators
            for d in fi.decorators:
                if any(x in d for x in ("lru_cache", "cache", "memo")):
                    r2.fail_fn(fi, fi.node, "memoised %s" % fi.name, "%s is memoised (%s): results depend on earlier calls" % (fi.qual, d))
            if any(isinstance(st, (ast.Global, ast.Nonlocal)) for st in ast.walk(fi.node)) and fi.module.rel.startswith("schemes/"):
                r2.fail_fn(fi, fi.node, "global statement in %s" % fi.name, "%s rebinds a module global" % fi.qual)
        # the configuration object is filled when it is built and never afterwards
        for (m, st, f, c) in config_mutators(repo, s):
            r2.fail_fn(f, c, "configuration changed after construction by %s" % m.name,
                       "%s calls %s, which stores into the configuration object (%s): what one call derives there is seen by every later call "
                       "on this scheme object and by nobody who builds the scheme from the same dict" % (f.qual, m.qual, short(st)))
        r2.ok()
        # _Trap/_Search/... assign no attribute of self at all (also not via setattr())
        for mname in ("_Trap", "_Search", "_Enc", "_Gen", "KeyGen", "EDBSetup", "TokenGen", "Search"):
            fi = s.cls.methods.get(mname)
            if fi is None:
                raise AnalysisError("%s.%s vanished" % (s.name, mname))
            sa_calls = [c for c in ast.walk(fi.node) if isinstance(c, ast.Call) and dotted(c.func) in ("setattr", "object.__setattr__")]
            if sa_calls:
                r2.fail_fn(fi, sa_calls[0], "setattr in %s" % mname, "%s stores attributes dynamically" % fi.qual)
            else:
                r2.ok()
        # the scheme object only stores its freshly built config
        init = s.cls.methods.get("__init__")
        stores = [st for st in ast.walk(init.node) if isinstance(st, ast.Assign) and any(
            isinstance(t, ast.Attribute) and isinstance(t.value, ast.Name) and t.value.id == "self" for t in st.targets)]
        for st in stores:
            ok = isinstance(st.value, ast.Call) and (dotted(st.value.func) or "").endswith("Config")
            r2.require(ok, init, "scheme __init__ stores only its config", "scheme constructor stores %s" % short(st), st)
    # who may write DEFAULT_CONFIG
    for rel, m in repo.modules.items():
        if not rel.startswith(("schemes/", "frontend/", "toolkit/")):
            continue
        for fi in m.all_functions():
            for st in ast.walk(fi.node):
                tgts = []
                if isinstance(st, ast.Assign):
                    tgts = st.targets
                elif isinstance(st, (ast.AugAssign,)):
                    tgts = [st.target]
                elif isinstance(st, ast.Delete):
                    tgts = st.targets
                for t in tgts:
                    if isinstance(t, ast.Subscript) and (dotted(t.value) or "").split(".")[-1] == "DEFAULT_CONFIG":
                        r2.fail_fn(fi, st, "store into DEFAULT_CONFIG", "%s writes into a shared DEFAULT_CONFIG dictionary" % fi.qual)
                if isinstance(st, ast.Call) and isinstance(st.func, ast.Attribute) and st.func.attr in ("update", "setdefault", "pop", "clear", "popitem") \
                        and (dotted(st.func.value) or "").split(".")[-1] == "DEFAULT_CONFIG":
                    r2.fail_fn(fi, st, "mutation of DEFAULT_CONFIG", "%s mutates a shared DEFAULT_CONFIG dictionary" % fi.qual)
    r1.require(n_fn >= 60, schemes[0].cls.methods["_Enc"], "functions floor",
               "only %d functions analysed (expected >= 60: 9 schemes x algorithms + helpers)" % n_fn)
    r1.instance({"functions_analysed": n_fn})
    return rules


# ----------------------------------------------------------------------------- self-test variants
from ..selftest import V  # noqa: E402

_A = "schemes/ANSS16/Scheme3/construction.py"
_CT = "schemes/CT14/Pi/construction.py"
VARIANTS = [
    V("anss16-shallow-copy-dict", "fire", "R7.1", [(_A, "Pi._Enc", "padded_database = copy.deepcopy(database)", "padded_database = dict(database)")]),
    V("anss16-shallow-copy-method", "fire", "R7.1", [(_A, "Pi._Enc", "padded_database = copy.deepcopy(database)", "padded_database = database.copy()")]),
    V("ct14-pads-input", "fire", "R7.1", [(_CT, "Pi._Enc", "padded_database = copy.deepcopy(database)", "padded_database = database")]),
    V("pipack-sorts-input-list", "fire", "R7.1", [("schemes/CJJ14/PiPack/construction.py", "PiPack._Enc",
      "            K1 = self.config.prf_f(K, b'\\x01' + keyword)", "            database[keyword].sort()\n            K1 = self.config.prf_f(K, b'\\x01' + keyword)")]),
    V("dp17-search-caches-on-self", "fire", "R7.2", [("schemes/DP17/Pi/construction.py", "Pi._Search",
      "        return PiResult(result)", "        self._last = result\n        return PiResult(result)")]),
    V("dp17-search-cache-dict", "fire", "R7.2", [("schemes/DP17/Pi/construction.py", "Pi._Search",
      "        result = set()", "        result = set()\n        self.config.cache[id(edb)] = result")]),
    V("config-setdefault", "fire", "R7.1", [("schemes/CJJ14/PiBas/config.py", "PiBasConfig._parse_config",
      "        self.param_lambda = config_dict.get(\"param_lambda\")", "        self.param_lambda = config_dict.setdefault(\"param_lambda\", 32)")]),
    V("pibas-search-pops-entries", "fire", "R7.1", [("schemes/CJJ14/PiBas/construction.py", "PiBas._Search",
      "cipher = D.get(addr)", "cipher = D.pop(addr, None)")]),
    V("sse1-search-consumes-array", "fire", "R7.1", [("schemes/CGKO06/SSE1/construction.py", "SSE1._Search",
      "            node_cipher = A[int_from_bytes(node_addr)]", "            node_cipher = A[int_from_bytes(node_addr)]\n            A[int_from_bytes(node_addr)] = b''")]),
    V("helper-mutates-argument", "fire", "R7.1", [("toolkit/database_utils.py", "get_total_size",
      "    return sum(len(identifier_list) for identifier_list in db.values())", "    db.pop(None, None)\n    return sum(len(identifier_list) for identifier_list in db.values())")]),
    V("default-config-written", "fire", "R7.2", [("schemes/CGKO06/SSE2/config.py", "scan_database_and_update_config_dict",
      "    config_dict[\"param_n\"] = determine_param_n(database)", "    config_dict[\"param_n\"] = determine_param_n(database)\n    DEFAULT_CONFIG[\"param_n\"] = config_dict[\"param_n\"]")]),
    V("pipack-extends-alias-in-place", "fire", "R7.1", [("schemes/CJJ14/PiPack/construction.py", "PiPack._Enc",
      "            K1 = self.config.prf_f(K, b'\\x01' + keyword)", "            ids = database[keyword]\n            ids += []\n            K1 = self.config.prf_f(K, b'\\x01' + keyword)")]),
    V("benign-sorted-copy", "silent", None, [("schemes/CJJ14/PiPack/construction.py", "PiPack._Enc",
      "partition_identifiers_to_blocks(database[keyword], self.config.param_B,", "partition_identifiers_to_blocks(sorted(database[keyword]), self.config.param_B,")]),
    V("benign-deepcopy-alias", "silent", None, [(_A, "Pi._Enc", "padded_database = copy.deepcopy(database)", "db2 = copy.deepcopy(database)\n        padded_database = db2")]),
    V("benign-local-result-list", "silent", None, [("schemes/CJJ14/PiBas/construction.py", "PiBas._Search",
      "        result = []", "        result = list()\n        result.clear()")]),
]
