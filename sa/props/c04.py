"""C04 - the stored index and the tokens never expose keywords or identifiers; encryption is randomised.

Taint analysis on use-def terms: sources are the keyword and the identifiers of the database (and
the master key); sanitisers are the message position of a keyed primitive; sinks are every key and
value stored into an encrypted-database container and every argument of a token constructor.  See
DESIGN.md section 3, C04.
"""
import ast

from ..core import Rule
from ..model import AnalysisError, dotted, unparse, short
from ..cfg import cfg_of
from ..terms import fn_terms, walk, show
from ..schemes import discover, flatten, is_urandom, is_builder

EXPLANATION = ("Taint analysis over use-def derivation terms of all nine schemes.  Sources: the keyword, every element of a "
               "posting list, the master key.  Sanitiser: being the message of a PRF/PRP/cipher call whose key argument is "
               "key-derived (or being XOR-masked with such an output).  Sinks: every key and value term stored into a container "
               "of the encrypted database (fillers included) and every argument of a token constructor.  No sink may contain an "
               "unsanitised source; every label must be keyed; the IV of AES-CBC must be os.urandom(block size) drawn inside "
               "Encrypt and emitted with the ciphertext; keys and fillers must come from os.urandom/KeyGen.  Frozen exception "
               "(from the property): SSE-2 stores identifiers in the clear as values of I.")
ASSUMPTIONS = ["the primitives (HMAC, AES-CBC, Feistel PRP) hide their message when keyed with a secret key",
               "lengths and counts (len(), total size) are not considered content"]

SIZE_CALLS = {"len", "math.ceil", "math.log2", "math.floor", "math.log", "toolkit/database_utils.py::get_total_size",
              "toolkit/database_utils.py::get_distinct_keyword_count", "toolkit/database_utils.py::get_distinct_file_count", "range",
              "sum", "max", "min", "int.bit_length"}
RANDOM_OK = {"os.urandom", "secrets.token_bytes"}


class Taint:
    def __init__(self, db_params, kw_params, key_params):
        self.db, self.kw, self.key = set(db_params), set(kw_params), set(key_params)
        self.memo = {}
        self.used_keys = set()

    def note_keys(self, t):
        """Remember fresh (random) terms that are used as the key of a primitive somewhere in this function."""
        for x in walk(t):
            if isinstance(x, tuple) and x and x[0] == "prim" and x[2] in (None, "Encrypt") and len(x[3]) >= 2 and not x[1].startswith("hash"):
                k = x[3][0]
                if k[0] in ("sub", "cont", "call", "elem", "proj") and self.keyish(k) and not any(
                        isinstance(y, tuple) and y and y[0] == "attr" and y[1][0] == "param" and y[1][1] in self.key for y in walk(k)):
                    self.used_keys.add(_strip_index(k))

    def keyish(self, t, depth=0):
        """The term is key material: master key part, fresh random key, or output of a keyed primitive (any slice/piece of it)."""
        if not isinstance(t, tuple) or depth > 40:
            return False
        tag = t[0]
        if tag == "attr" and t[1][0] == "param" and t[1][1] in self.key:
            return True
        if tag == "param" and t[1] in self.key:
            return True
        if tag == "call" and t[1] in RANDOM_OK:
            return True
        if tag == "prim":
            if t[2] == "KeyGen":
                return True
            if t[2] in (None, "Encrypt") and t[3]:
                return self.keyish(t[3][0], depth + 1)
        if tag in ("slice", "piece", "proj", "sub", "elem"):
            return self.keyish(t[1], depth + 1)
        if tag == "phi":
            return all(self.keyish(x, depth + 1) for x in t[1])
        if tag in ("list", "tuple"):
            return bool(t[1]) and all(self.keyish(x, depth + 1) for x in t[1])
        if tag == "cont":
            vals = []
            if t[2][0] in ("list", "tuple"):
                vals += [self.keyish(x, depth + 1) for x in t[2][1]]
            else:
                vals.append(self.keyish(t[2], depth + 1))
            for m in t[3]:
                if m[0] in ("append",) and m[2]:
                    vals.append(self.keyish(m[2][0], depth + 1))
            return bool(vals) and all(vals)
        if tag == "call" and t[1].endswith("Bitset.__init__") and t[2]:
            return self.keyish(t[2][0], depth + 1)
        if tag == "call" and t[1] in ("bytes", "toolkit/bytes_utils.py::add_leading_zeros") and t[2]:
            return self.keyish(t[2][0], depth + 1)
        return False

    def leaks(self, t, depth=0):
        """List of (kind, subterm) occurrences of unsanitised secrets inside t."""
        if not isinstance(t, (tuple, frozenset)) or depth > 60:
            return []
        if isinstance(t, frozenset):
            out = []
            for x in t:
                out += self.leaks(x, depth + 1)
            return out
        if not t:
            return []
        if not isinstance(t[0], str):
            out = []
            for x in t:
                out += self.leaks(x, depth + 1)
            return out
        k = id(t)
        if k in self.memo and self.memo[k][0] is t:
            return self.memo[k][1]
        self.memo[k] = (t, [])
        tag = t[0]
        out = []
        if self.used_keys and _strip_index(t) in self.used_keys:
            out = [("per-list key", t)]
        elif tag == "param":
            if t[1] in self.db:
                out = [("database content", t)]
            elif t[1] in self.kw:
                out = [("keyword", t)]
            elif t[1] in self.key:
                out = [("key material", t)]
        elif tag == "attr" and t[1][0] == "param" and t[1][1] in self.key:
            out = [("key material", t)]
        elif tag in ("const", "cfg", "counter", "rangevar", "ref", "global", "rec", "unk", "free", "lparam"):
            out = []
        elif tag == "call" and t[1] in SIZE_CALLS:
            out = []
        elif tag == "call" and t[1] in RANDOM_OK:
            out = []
        elif tag == "prim":
            slot, meth, args = t[1], t[2], t[3]
            if meth == "KeyGen":
                out = []
            elif meth in (None, "Encrypt", "Decrypt") and len(args) >= 2 and not slot.startswith("hash"):
                # keyed primitive: message is sanitised iff the key is key material
                if self.keyish(args[0]):
                    out = []
                else:
                    out = [("unkeyed primitive %s" % slot, t)] if (self.leaks(args[1], depth + 1) or self.leaks(args[0], depth + 1)) else []
            else:
                # unkeyed hash & co: transparent
                for a in args:
                    out += self.leaks(a, depth + 1)
        elif tag == "call" and t[1].endswith("bytes_utils.py::bytes_xor") and len(t[2]) == 2:
            a, b = t[2]
            la, lb = self.leaks(a, depth + 1), self.leaks(b, depth + 1)
            if (not la and self._mask(a)) or (not lb and self._mask(b)):
                out = []
            else:
                out = la + lb
        elif tag == "comp":
            out = self.leaks(t[2], depth + 1)
        elif tag == "cont":
            out = self.leaks(t[2], depth + 1)
            for m in t[3]:
                for part in m[1:4]:
                    if isinstance(part, tuple):
                        out += self.leaks(part, depth + 1)
        else:
            for c in t[1:]:
                if isinstance(c, (tuple, frozenset)):
                    out += self.leaks(c, depth + 1)
        self.memo[k] = (t, out)
        return out

    def _mask(self, t):
        """A pseudo-random mask: (hash of) the output of a keyed primitive."""
        if t[0] == "prim":
            if t[2] in (None,) and len(t[3]) >= 2 and not t[1].startswith("hash"):
                return self.keyish(t[3][0])
            if t[1].startswith("hash") and t[3]:
                return any(self._mask(x) for x in walk(t[3][0]) if isinstance(x, tuple) and x and x[0] == "prim" and x is not t)
        return False


def _strip_index(t):
    """K_i[j], K_i[0], K_i[-1] -> the key list itself (index-insensitive)."""
    while isinstance(t, tuple) and t and t[0] in ("sub", "elem", "proj"):
        t = t[1]
    return t


def _sse2_value_ok(term, dbparam):
    """SSE-2 may store identifiers in the clear: every occurrence of the database must be an element of a posting list."""
    bad = []

    def rec(t, depth=0):
        if not isinstance(t, (tuple, frozenset)) or depth > 40:
            return
        if isinstance(t, frozenset):
            for x in t:
                rec(x, depth + 1)
            return
        if not t:
            return
        if t == ("param", dbparam):
            bad.append(t)
            return
        if t[0] == "elem" and isinstance(t[1], tuple) and t[1] and t[1][0] in ("sub", "mcall") and t[1][1] == ("param", dbparam):
            return  # an identifier: element of database[...]
        if t[0] == "sub" and t[1][0] == "sub" and t[1][1] == ("param", dbparam):
            return  # database[kw][i]
        if t[0] == "call" and t[1] in SIZE_CALLS:
            return
        for c in t[1:]:
            rec(c, depth + 1)
    rec(term)
    return not bad


def _label_keyed(taint, t):
    """Every PRF/PRP on the label's spine is keyed with key material; at least one exists (or the label is random filler)."""
    prims = [x for x in walk(t) if isinstance(x, tuple) and x and x[0] == "prim" and not x[1].startswith("hash") and x[2] in (None, "Encrypt")]
    if not prims:
        return None
    bad = [p for p in prims if not (p[3] and taint.keyish(p[3][0]))]
    return not bad, (bad[0] if bad else None)


# values that are deterministic by construction (frozen, with the reason):
DETERMINISTIC_VALUES = {
    ("CGKO06.SSE2", "I"),   # SSE-2 stores the identifiers themselves (the property's stated exception)
    ("DP17.Pi", "HT"),      # [level || bucket] masked with H(F(k2, w) || count): hides a location, carries no identifier; the bucket is chosen at random
}

def _initial_elements(t, depth=0):
    """lst[i] for a constant i inside the list's initial display, when the list is only appended to afterwards, is that initial
    element (what is appended later does not contribute to it)."""
    if depth > 40 or not isinstance(t, tuple) or not t:
        return t
    if t[0] == "sub" and len(t) == 3 and isinstance(t[1], tuple) and t[1] and t[1][0] == "cont" and t[2][0] == "const" and isinstance(t[2][1], int):
        cont = t[1]
        init, muts = cont[2], cont[3]
        if init[0] in ("list", "tuple") and 0 <= t[2][1] < len(init[1]) and all(m[0] in ("append", "extend") for m in muts):
            return _initial_elements(init[1][t[2][1]], depth + 1)
    return tuple(_initial_elements(x, depth + 1) if isinstance(x, tuple) else x for x in t)


_FRESH_CALLS = ("os.urandom", "urandom", "secrets.token_bytes", "token_bytes", "secrets.randbits", "random.randbytes", "random.getrandbits")


def _draws_randomness(e):
    for c in ast.walk(e):
        if isinstance(c, ast.Call):
            d = dotted(c.func) or ""
            if d in _FRESH_CALLS or d.endswith(".Encrypt") or d.endswith(".KeyGen"):
                return True
    return False


def _leaves(e):
    """Names an entry is assembled from directly: through tuples / lists / concatenation / conditional expressions, not through calls."""
    if isinstance(e, ast.Name):
        return [e]
    if isinstance(e, (ast.Tuple, ast.List)):
        return [x for el in e.elts for x in _leaves(el)]
    if isinstance(e, ast.BinOp) and isinstance(e.op, ast.Add):
        return _leaves(e.left) + _leaves(e.right)
    if isinstance(e, ast.IfExp):
        return _leaves(e.body) + _leaves(e.orelse)
    if isinstance(e, ast.Starred):
        return _leaves(e.value)
    return []


def _check_fresh_per_entry(rule, s, fi):
    """Every loop / comprehension of `fi` that produces entries (comprehension elements, appended / added / yielded values, values
    stored under a subscript): a plain name assembled into the entry must not be a value that was drawn at random once, outside
    the loop - all entries of the loop would then carry the same bytes."""
    fnode = fi.node
    assigns = {}
    for st in ast.walk(fnode):
        if isinstance(st, ast.Assign):
            for t in st.targets:
                for nm in ([t] if isinstance(t, ast.Name) else [x for x in ast.walk(t) if isinstance(x, ast.Name) and isinstance(x.ctx, ast.Store)]):
                    assigns.setdefault(nm.id, []).append(st)
        elif isinstance(st, (ast.AugAssign, ast.AnnAssign)) and isinstance(st.target, ast.Name):
            assigns.setdefault(st.target.id, []).append(st)
        elif isinstance(st, (ast.For, ast.comprehension)):
            for nm in ast.walk(st.target):
                if isinstance(nm, ast.Name):
                    assigns.setdefault(nm.id, []).append(st)
    n = 0
    for loop in ast.walk(fnode):
        produced = []
        if isinstance(loop, (ast.ListComp, ast.SetComp, ast.GeneratorExp)):
            produced = [loop.elt]
        elif isinstance(loop, ast.DictComp):
            produced = [loop.key, loop.value]
        elif isinstance(loop, (ast.For, ast.While)):
            for x in [y for b in loop.body for y in ast.walk(b)]:
                if isinstance(x, ast.Call) and isinstance(x.func, ast.Attribute) and x.func.attr in ("append", "add", "appendleft", "insert") and x.args:
                    produced.append(x.args[-1])
                elif isinstance(x, ast.Assign) and any(isinstance(t, ast.Subscript) for t in x.targets):
                    produced.append(x.value)
                elif isinstance(x, (ast.Yield,)) and x.value is not None:
                    produced.append(x.value)
        if not produced:
            continue
        n += 1
        inside = {id(x) for x in ast.walk(loop)}
        bad = None
        for pe in produced:
            for nm in _leaves(pe):
                defs = assigns.get(nm.id, [])
                if not defs or any(id(d) in inside for d in defs):
                    continue
                rnd = [d for d in defs if isinstance(d, (ast.Assign, ast.AnnAssign)) and d.value is not None and _draws_randomness(d.value)]
                if rnd and len(rnd) == len(defs):
                    bad = (nm, rnd[0], pe)
        desc = {"scheme": s.name, "function": fi.qual, "line": getattr(loop, "lineno", 0)}
        if bad:
            nm, d, pe = bad
            rule.fail_fn(fi, pe, "one random draw shared by the entries of a loop",
                         "%s.%s: the entries produced at line %d all contain %s, which is drawn once before the loop (%s): they are byte-identical instead of "
                         "independently random / independently encrypted" % (s.name, fi.name, getattr(loop, "lineno", 0), nm.id, short(d)), witness=desc)
        else:
            rule.ok(desc)
    return n


def check(repo):
    r1 = Rule("R4.1", "no unsanitised keyword / identifier / key reaches the index or a token")
    r2 = Rule("R4.2", "labels and addresses are keyed")
    r3 = Rule("R4.3", "AES-CBC draws a fresh IV per encryption and emits it")
    r4 = Rule("R4.4", "keys and fillers come from os.urandom / KeyGen, never from `random`")
    r7 = Rule("R4.7", "every stored value carries fresh randomness (a random draw or a randomised encryption), so set-ups do not repeat entries")
    rules = [r1, r2, r3, r4, r7]
    schemes = discover(repo)
    n_sinks = 0
    for s in schemes:
        enc, trap, gen = s.method("_Enc"), s.method("_Trap"), s.method("_Gen")
        # ------------------------------------------------------------------ index
        ft = fn_terms(repo, enc)
        taint = Taint([enc.params[2]], [], [enc.params[1]])
        pos = s.ctor_positional(s.edb_cls)
        for n in ft.cfg.nodes:
            if n.kind != "return" or n.stmt.value is None:
                continue
            t = ft.term(n.stmt.value, n.id)
            groups = []
            if t[0] == "call" and t[1].endswith("EncryptedDatabase.__init__"):
                groups = [(pos[i] if i < len(pos) else None, a) for i, a in enumerate(t[2])]
            elif t[0] == "call" and is_builder(repo, t[1]):
                groups = [(pos[0] if pos else "D", t)]
            for attr, a in groups:
                if attr is None:
                    continue
                leaves = flatten(repo, a)
                for lf in leaves:
                    for term in (lf.key, lf.value):
                        if term is not None:
                            taint.note_keys(term)
                for lf in leaves:
                    line = ft.cfg.nodes[lf.node].line if lf.node is not None else n.line
                    for role, term in (("key", lf.key), ("value", lf.value)):
                        if term is None or term == ("const", None) or (term[0] in ("tuple", "list") and not term[1]):
                            continue
                        n_sinks += 1
                        lk = taint.leaks(term)
                        if s.name == "CGKO06.SSE2" and role == "value" and _sse2_value_ok(term, enc.params[2]):
                            # frozen exception: identifiers (not keywords, not keys) are stored in the clear in SSE-2
                            lk = [x for x in lk if x[0] != "database content"]
                        desc = {"scheme": s.name, "container": attr, "role": role, "term": show(term, maxdepth=6)[:200], "line": line}
                        if lk:
                            kinds = sorted({x[0] for x in lk})
                            r1.fail(enc.module.rel, enc.qual, line, "%s %s of %s carries %s" % (role, "entry", attr, "/".join(kinds)),
                                    "%s: a %s stored in %s contains unsanitised %s: %s" % (s.name, role, attr, " and ".join(kinds), show(term, maxdepth=5)[:220]),
                                    witness=desc)
                        else:
                            r1.ok(desc)
                        # stored values are randomised: two set-ups of the same (key, database) share no value entry
                        if role == "value" and term[0] != "const" and (s.name, attr) not in DETERMINISTIC_VALUES:
                            fresh = any(isinstance(x, tuple) and x and ((x[0] == "call" and x[1] in RANDOM_OK) or (x[0] == "prim" and x[2] in ("Encrypt", "KeyGen")))
                                        for x in walk(_initial_elements(term)))
                            if fresh:
                                r7.ok({"scheme": s.name, "container": attr, "line": line})
                            else:
                                r7.fail(enc.module.rel, enc.qual, line, "deterministic value in %s" % attr,
                                        "%s: a value stored in %s is a deterministic function of key and database (no os.urandom draw, no randomised encryption in %s): "
                                        "encrypting the same database twice under the same key yields the same entry" % (s.name, attr, show(term, maxdepth=4)[:160]), witness=desc)
                        # no `random` module in stored material
                        root = _bytes_root(term)
                        if role == "value" or (role == "key" and _dictish(a)):
                            if root[0] == "call" and (root[1].startswith("random.") or root[1] in ("time.time", "uuid.uuid4")):
                                r4.fail(enc.module.rel, enc.qual, line, "%s of %s drawn from random" % (role, attr),
                                        "%s: a stored %s in %s is produced by %s, not by os.urandom" % (s.name, role, attr, show(root, maxdepth=3)))
                            else:
                                r4.ok()
                    # labels keyed (dict keys that are not random filler)
                    if lf.key is not None and not is_urandom(lf.key):
                        res = _label_keyed(taint, lf.key)
                        if res is None:
                            # a label without any keyed primitive: acceptable only if it carries no secret (list slot numbers etc.)
                            if taint.leaks(lf.key):
                                r2.fail(enc.module.rel, enc.qual, line, "unkeyed label in %s" % attr,
                                        "%s: a label of %s is derived from the database without any keyed primitive: %s" % (s.name, attr, show(lf.key, maxdepth=5)[:200]))
                            continue
                        ok, bad = res
                        if ok:
                            r2.ok({"scheme": s.name, "container": attr, "label": show(lf.key, maxdepth=5)[:160]})
                        else:
                            r2.fail(enc.module.rel, enc.qual, line, "label of %s keyed with non-key" % attr,
                                    "%s: a label of %s applies %s with a key argument that is not key material: %s" % (s.name, attr, bad[1], show(bad, maxdepth=4)[:200]))
        # ------------------------------------------------------------------ tokens
        ftt = fn_terms(repo, trap)
        taint_t = Taint([], [trap.params[2]], [trap.params[1]])
        for n in ftt.cfg.nodes:
            if n.kind != "return" or n.stmt.value is None:
                continue
            t = ftt.term(n.stmt.value, n.id)
            if not (t[0] == "call" and t[1].endswith("Token.__init__")):
                r1.fail_fn(trap, n.stmt, "token not built by its constructor", "%s._Trap returns %s" % (s.name, show(t, maxdepth=3)[:100]))
                continue
            for i, a in enumerate(t[2]):
                parts = [a]
                if a[0] == "cont":
                    parts = [lf.value for lf in flatten(repo, a)] or [a]
                for p in parts:
                    n_sinks += 1
                    lk = taint_t.leaks(p)
                    desc = {"scheme": s.name, "token_field": i, "term": show(p, maxdepth=6)[:200]}
                    if lk:
                        kinds = sorted({x[0] for x in lk})
                        r1.fail_fn(trap, n.stmt, "token field %d carries %s" % (i, "/".join(kinds)),
                                   "%s: token field %d contains unsanitised %s: %s" % (s.name, i, " and ".join(kinds), show(p, maxdepth=5)[:200]), witness=desc)
                    else:
                        r1.ok(desc)
                    res = _label_keyed(taint_t, p)
                    if res is None:
                        r2.fail_fn(trap, n.stmt, "token field %d not derived by a keyed primitive" % i,
                                   "%s: token field %d is %s" % (s.name, i, show(p, maxdepth=4)[:160]))
                    elif res[0]:
                        r2.ok()
                    else:
                        r2.fail_fn(trap, n.stmt, "token field %d keyed with non-key" % i,
                                   "%s: token field %d applies %s with a key argument that is not key material" % (s.name, i, res[1][1]))
        # ------------------------------------------------------------------ keys
        ftg = fn_terms(repo, gen)
        for n in ftg.cfg.nodes:
            if n.kind != "return" or n.stmt.value is None:
                continue
            t = ftg.term(n.stmt.value, n.id)
            calls = [x for x in walk(t) if isinstance(x, tuple) and x and x[0] == "call" and (x[1] in RANDOM_OK or x[1].startswith("random.") or x[1].startswith("secrets."))]
            okk = bool(calls) and all(c[1] in RANDOM_OK for c in calls)
            r4.require(okk, gen, "key material from os.urandom", "%s._Gen does not draw the key from os.urandom: %s" % (s.name, show(t, maxdepth=5)[:160]), n.stmt)
    r1.require(n_sinks >= 30, schemes[0].method("_Enc"), "sinks floor", "only %d sinks analysed (expected >= 30)" % n_sinks)
    r1.instance({"sinks_analysed": n_sinks})
    _check_iv(repo, r3)
    # ------------------------------------------------------------------ R4.6 randomness is drawn per entry
    r6 = Rule("R4.6", "random material that ends up in entries is drawn inside the loop that produces them (one draw per entry)")
    rules.append(r6)
    n_prod = 0
    for s in schemes:
        fns = list(s.cls.methods.values()) + [f for f in s.cls.module.functions.values()]
        for f in fns:
            n_prod += _check_fresh_per_entry(r6, s, f)
    r6.require(n_prod >= 20, schemes[0].method("_Enc"), "entry producers floor", "only %d entry-producing loops / comprehensions examined (expected >= 20)" % n_prod)
    # set-up keeps nothing on the scheme object: a memoised block would be handed out again, byte for byte, by the next set-up
    r5 = Rule("R4.5", "set-up and token generation keep no state: ciphertexts and tokens are never replayed from an earlier call")
    rules.append(r5)
    from .c07 import Analyzer
    an = Analyzer(repo)
    for s in schemes:
        for mname in ("_Enc", "EDBSetup", "_Trap", "TokenGen"):
            fi = s.cls.methods.get(mname)
            if fi is None:
                continue
            hidden = [x for x in an.sites(fi) if x[0] == ("self",)]
            memo = [d for d in fi.decorators if any(k in d for k in ("cache", "memo"))]
            if hidden or memo:
                r5.fail_fn(fi, hidden[0][2] if hidden else fi.node, "%s keeps state on the scheme object" % mname,
                           "%s.%s stores into the scheme object%s: entries produced by an earlier call can be emitted again unchanged, so two encryptions of one database "
                           "under one key are no longer disjoint" % (s.name, mname, " / is memoised" if memo else ""))
            else:
                r5.ok({"scheme": s.name, "method": mname})
    # a mutable default argument is one object shared by every call that omits it: an index built into it is also every later index
    seen_mods = set()
    for s in schemes:
        for m in {s.cls.module, s.edb_cls.module}:
            if m.rel in seen_mods:
                continue
            seen_mods.add(m.rel)
            for fi in m.all_functions():
                a = fi.node.args
                for d in list(a.defaults) + [x for x in a.kw_defaults if x is not None]:
                    mutable = isinstance(d, (ast.Dict, ast.List, ast.Set)) or (
                        isinstance(d, ast.Call) and dotted(d.func) in ("dict", "list", "set", "bytearray", "collections.defaultdict", "defaultdict", "collections.OrderedDict", "OrderedDict"))
                    if mutable:
                        r5.fail_fn(fi, d, "mutable default argument",
                                   "%s has the mutable default %s: the one object created at definition time is shared by all calls that omit the argument, so what one "
                                   "set-up stores in it shows up in (and is serialised with) every other encrypted database of the process" % (fi.qual, short(d)))
            r5.ok({"module": m.rel, "rule": "no mutable default arguments"})
    return rules


def _is_identifier(t, dbparam):
    # elem(database[...]) style terms
    return isinstance(t, tuple) and t and t[0] == "param" and t[1] == dbparam


def _is_keyword_term(term, dbparam):
    """SSE-2 value that is (or contains) a keyword rather than an identifier: elem(database) directly."""
    for x in walk(term):
        if isinstance(x, tuple) and x and x[0] == "elem" and x[1] == ("param", dbparam):
            # is it used as a subscript index (then it selects a posting list) or stands alone?
            pass
    return term[0] == "elem" and term[1] == ("param", dbparam)


def _bytes_root(term, depth=0):
    """Strip conversions to find what produces the bytes of a stored term."""
    t = term
    while depth < 10 and isinstance(t, tuple):
        depth += 1
        if t[0] == "call" and (t[1] in ("bytes", "bytearray", "int") or t[1].endswith("::int_to_bytes") or t[1].endswith("::add_leading_zeros")) and t[2]:
            t = t[2][0]
            continue
        if t[0] == "mcall" and t[2] in ("to_bytes", "join") and (t[3] if t[2] == "join" else True):
            t = t[3][0] if t[2] == "join" else t[1]
            continue
        if t[0] == "comp":
            t = t[2]
            continue
        break
    return t


def _dictish(t):
    from .c02 import shape_of
    return shape_of(t)[0] != "list"


def _check_iv(repo, r3):
    rel = "toolkit/symmetric_encryption/aes.py"
    enc = repo.func(rel, "AESxCBC.Encrypt")
    dec = repo.func(rel, "AESxCBC.Decrypt")
    ft = fn_terms(repo, enc)
    cbc = []
    for n in ft.cfg.nodes:
        if n.stmt is None or n.ast is None:
            continue
        for c in ast.walk(n.stmt if n.kind != "test" else n.ast):
            if isinstance(c, ast.Call) and (dotted(c.func) or "").endswith("modes.CBC") and c.args:
                cbc.append((n, c))
    if not r3.require(len(cbc) == 1, enc, "CBC mode construction", "AESxCBC.Encrypt no longer builds exactly one modes.CBC(iv)"):
        return
    n, c = cbc[0]
    ivt = ft.term(c.args[0], n.id)
    ok = ivt[0] == "call" and ivt[1] == "os.urandom" and ivt[2]
    r3.require(ok, enc, "IV is os.urandom drawn in this call",
               "the IV passed to modes.CBC is %s, not a fresh os.urandom(...) drawn inside Encrypt (constant, cached, attribute or parameter IVs make "
               "equal plaintexts produce equal ciphertexts)" % show(ivt, maxdepth=4)[:120], c)
    if ok:
        size = ivt[2][0]
        good = size == ("binop", "FloorDiv", ("attr", ("attr", ("ref", "external", "cryptography.hazmat.primitives.ciphers.algorithms"), "AES"), "block_size"), ("const", 8)) \
            or size == ("const", 16)
        if not good:
            # accept any expression mentioning AES.block_size // 8
            txt = show(size, maxdepth=6)
            good = "block_size" in txt and "// 8" in txt
        r3.require(good, enc, "IV length is the block size", "the IV has %s bytes, expected the AES block size (16)" % show(size, maxdepth=4), c)
    # emitted: the return value starts with the iv
    rets = [m for m in ft.cfg.nodes if m.kind == "return" and m.stmt.value is not None]
    for m in rets:
        from ..terms import norm_concat
        rt = norm_concat(ft.term(m.stmt.value, m.id))
        first = rt
        while first[0] == "binop" and first[1] == "Add":
            first = first[2]
        r3.require(first == ivt, enc, "IV prepended to the ciphertext", "Encrypt does not return iv || ciphertext (returns %s)" % show(rt, maxdepth=3)[:120], m.stmt)
    for fi in (enc, dec, repo.func(rel, "AESxCBC.__init__")):
        r3.require(not any(x in d for d in fi.decorators for x in ("cache", "memo")), fi, "no memoisation on %s" % fi.name, "%s is memoised" % fi.qual)
    # no attribute of self named like an IV is ever assigned in the class
    ci = repo.cls(rel, "AESxCBC")
    for fi in ci.methods.values():
        for st in ast.walk(fi.node):
            if isinstance(st, ast.Assign):
                for t in st.targets:
                    if isinstance(t, ast.Attribute) and isinstance(t.value, ast.Name) and t.value.id == "self" and "iv" in t.attr.lower():
                        r3.fail_fn(fi, st, "IV stored on the cipher object", "%s stores an IV on the cipher object: %s" % (fi.qual, short(st)))


# ----------------------------------------------------------------------------- self-test variants
from ..selftest import V  # noqa: E402

_PB = "schemes/CJJ14/PiBas/construction.py"
_AES = "toolkit/symmetric_encryption/aes.py"
VARIANTS = [
    V("pibas-identifier-in-clear", "fire", "R4.1", [(_PB, "PiBas._Enc", "d = self.config.ske.Encrypt(K2, identifier)", "d = identifier")]),
    V("pibas-label-keyed-by-keyword", "fire", "R4.", [(_PB, "PiBas._Enc", "l = self.config.prf_f(K1, int_to_bytes(c))", "l = self.config.prf_f(keyword, int_to_bytes(c))")]),
    V("pibas-token-carries-keyword", "fire", "R4.1", [(_PB, "PiBas._Trap", "return PiBasToken(K1, K2)", "return PiBasToken(K1, keyword)")]),
    V("pibas-token-carries-master-key", "fire", "R4.1", [(_PB, "PiBas._Trap", "return PiBasToken(K1, K2)", "return PiBasToken(K1, K)")]),
    V("aes-constant-iv", "fire", "R4.3", [(_AES, "AESxCBC.Encrypt", "iv = os.urandom(algorithms.AES.block_size // 8)", "iv = b\"\\x00\" * (algorithms.AES.block_size // 8)")]),
    V("aes-cached-iv", "fire", "R4.3", [(_AES, "AESxCBC.Encrypt", "iv = os.urandom(algorithms.AES.block_size // 8)", "iv = self._iv")]),
    V("aes-iv-not-emitted", "fire", "R4.3", [(_AES, "AESxCBC.Encrypt", "return iv + encryptor.update(padded_message) + encryptor.finalize()", "return encryptor.update(padded_message) + encryptor.finalize()")]),
    V("dp17-label-unkeyed-hash", "fire", "R4.", [("schemes/DP17/Pi/construction.py", "Pi._Enc",
      "key = self.config.hash_h(self.config.prf_f(k1, keyword) + int_to_bytes(count))", "key = self.config.hash_h(keyword + int_to_bytes(count))")]),
    V("sse1-table-entry-unmasked", "fire", "R4.1", [("schemes/CGKO06/SSE1/construction.py", "SSE1._Enc",
      "                bytes_xor(bytes(first_node_addr) + K_i[0],\n                          self.config.prf_f(K2, add_leading_zeros(keyword, self.config.param_l)))",
      "                bytes(first_node_addr) + K_i[0]")]),
    V("sse2-stores-keyword", "fire", "R4.1", [("schemes/CGKO06/SSE2/construction.py", "SSE2._Enc",
      "                )] = identifier\n\n                document_count_dict", "                )] = keyword + identifier\n\n                document_count_dict")]),
    V("ct14-filler-from-random-module", "fire", "R4.4", [("schemes/CT14/Pi/construction.py", "Pi._Enc",
      "((os.urandom(self.config.param_l), os.urandom(d_len)) for _ in range((2 ** (t - i)) - len(L_list[i])))", "((os.urandom(self.config.param_l), random.randbytes(d_len)) for _ in range((2 ** (t - i)) - len(L_list[i])))")]),
    V("pipack-key-from-random-module", "fire", "R4.4", [("schemes/CJJ14/PiPack/construction.py", "PiPack._Gen",
      "K = os.urandom(self.config.param_lambda)", "import random\n        K = random.randbytes(self.config.param_lambda)")]),
    V("anss16-size-in-clear", "fire", "R4.", [("schemes/ANSS16/Scheme3/construction.py", "Pi._Enc",
      "S.append((li_prime, ni_prime))", "S.append((keyword[:4] + li_prime, ni_prime))")]),
    V("benign-encrypt-via-alias", "silent", None, [(_PB, "PiBas._Enc", "d = self.config.ske.Encrypt(K2, identifier)", "enc = self.config.ske.Encrypt\n                d = enc(K2, identifier)")]),
    V("benign-ske-local-name", "silent", None, [(_PB, "PiBas._Enc", "d = self.config.ske.Encrypt(K2, identifier)", "ske = self.config.ske\n                d = ske.Encrypt(K2, identifier)")]),
    V("benign-iv-length-constant", "silent", None, [(_AES, "AESxCBC.Encrypt", "iv = os.urandom(algorithms.AES.block_size // 8)", "iv_len = algorithms.AES.block_size // 8\n        iv = os.urandom(iv_len)")]),
]
