"""C15 - pseudo-random permutations are length-preserving bijections with inverses.

A Feistel round (a, b) -> (b, a xor F(b)) is a bijection for every F, and the network is inverted by
(a, b) -> (b xor F(a), a) applied in reverse round order.  If the code has that shape the bijection
and inverse clauses hold for every key, width and round function - a complete static argument.  The
rules reconstruct the state transformer of the loop bodies and compose them symbolically.  See
DESIGN.md section 3, C15.
"""
import ast

from ..core import Rule
from ..model import AnalysisError, dotted, unparse, short
from ..cfg import cfg_of
from .. import straight as S
from .. import shape
from ..facts import facts_of
from ..contract import entry
from ..pathsum import summarize
from ..model import inline_locals
from .c08 import guard_contract, raising_ifs
from ..contract import describe_alt

EXPLANATION = ("State-transformer reconstruction of the Feistel loop bodies (straight-line use-def substitution): "
               "BitwiseFFX.encrypt must be T(a,b) = (b, a xor F(key,i,b,len a)) with F independent of a's value, decrypt must be "
               "U(a,b) = (b xor F(key,i,a,len b), a); U o T is reduced to the identity by x^y^y -> x; the round index sequences "
               "must be reverses of each other; an even default round count re-aligns the unequal halves; the round function "
               "returns exactly the requested number of bits; LubyRackoffPRP.__call__ must be three rounds (R, L xor F_i(R)) over "
               "three disjoint sub-keys; the length guards of the PRP wrappers must exist.  Bijectivity by shape; pseudo-randomness "
               "is not examined.")
ASSUMPTIONS = ["Bitset xor / concat / higher / lower bits behave like fixed-width bit vectors (C18)",
               "HMAC is a function (deterministic)"]

FPE = "toolkit/symmetric_encryption/fpe.py"
LR = "toolkit/prp/luby_rackoff_prp.py"


def _loop(fi):
    loops = [st for st in fi.node.body if isinstance(st, ast.For)]
    return loops[0] if len(loops) == 1 else None


def _is_round_call(t, var):
    """F(key, i, <var>, len(<other>)) -> (ok, other, full term)"""
    return t[0] == "call" and t[1] == ("fn", "self.round")


def check_prp_stateless(repo, rule):
    for rel, cname in ((FPE, "BitwiseFFX"), ("toolkit/prp/bitwise_fpe_prp.py", "BitwiseFPEPRP"), (LR, "LubyRackoffPRP"),
                       ("toolkit/prp/hmac_luby_rackoff_prp.py", "HmacLubyRackoffPRP")):
        ci = repo.cls(rel, cname)
        for mname, fi in ci.methods.items():
            if mname == "__init__":
                continue
            for st in ast.walk(fi.node):
                tg = st.targets if isinstance(st, ast.Assign) else ([st.target] if isinstance(st, ast.AugAssign) else [])
                for t in tg:
                    base = t
                    while isinstance(base, (ast.Attribute, ast.Subscript)):
                        base = base.value
                    if isinstance(base, ast.Name) and base.id == "self" and t is not base:
                        rule.fail_fn(fi, st, "%s.%s keeps state" % (cname, mname),
                                     "%s.%s stores %s on the object: the permutation computed by a later call (e.g. under another key) depends on an earlier one" % (cname, mname, unparse(t)))
        rule.ok({"class": "%s::%s" % (rel, cname), "methods": sorted(ci.methods)})
    rnd = repo.func(FPE, "BitwiseFFX.round")
    keyed = [c for c in ast.walk(rnd.node) if isinstance(c, ast.Call) and dotted(c.func) == "hmac.new" and c.args and isinstance(c.args[0], ast.Name) and c.args[0].id == rnd.params[1]]
    rule.require(bool(keyed), rnd, "round MAC keyed with this call's key", "BitwiseFFX.round no longer keys its MAC with the key passed to this call")


def _halves(sm, fi, vparam):
    """Roles (A, B) of the two half variables: initialised from the two components of split(v), returned as A + B."""
    SPLIT = ("call", ("fn", "self.split"), (("var", vparam),), ())
    A, B = S.mv("A"), S.mv("B")
    eqs = [(("proj", SPLIT, 0), lambda asg: sm.init.get(asg["A"])),
           (("proj", SPLIT, 1), lambda asg: sm.init.get(asg["B"]))]
    cands = [v for v in sm.init if v in sm.carried]
    f = S.match_all(eqs, ["A", "B"], cands)
    if f is None:
        return None
    asg, _ = f
    if sm.ret != ("cat", (("var", asg["A"]), ("var", asg["B"]))):
        return None
    return asg["A"], asg["B"]


def _canonical_step(sm, roles, ivar):
    """Step of the loop with the half variables renamed to a, b, the round index to i, and other carried temporaries substituted."""
    ren = {roles[0]: ("var", "a"), roles[1]: ("var", "b")}
    if ivar:
        ren[ivar] = ("var", "i")
    a2 = S.canon(S.subst(sm.step.get(roles[0], ("var", roles[0])), ren))
    b2 = S.canon(S.subst(sm.step.get(roles[1], ("var", roles[1])), ren))
    return a2, b2


def _round_call(t):
    return t[0] == "call" and t[1] == ("fn", "self.round")


def _round_args(F, rnd_params):
    """{param: term} of a self.round(...) call term."""
    out = {}
    for i, x in enumerate(F[2]):
        if i < len(rnd_params):
            out[rnd_params[i]] = x
    for k, v in F[3]:
        out[k] = v
    return out


def _check_ffx(repo, r1, r2, r3, r4, enc, dec, se, sd):
    rnd = repo.func(FPE, "BitwiseFFX.round")
    rp = rnd.params[1:]  # key, i, s, output_len
    key_e, v_e = enc.params[1], enc.params[2]
    key_d, v_d = dec.params[1], dec.params[2]
    re_, rd_ = _halves(se, enc, v_e), _halves(sd, dec, v_d)
    if not r1.require(re_ is not None, enc, "halves from split, rejoined in order", "%s no longer starts from a, b = self.split(v) and returns a + b" % enc.qual):
        return
    if not r2.require(rd_ is not None, dec, "halves from split, rejoined in order", "%s no longer starts from a, b = self.split(v) and returns a + b" % dec.qual):
        return
    ive = se.target if se.kind == "for" else None
    ivd = sd.target if sd.kind == "for" else None
    a2, b2 = _canonical_step(se, re_, ive)
    desc = {"T": {"a'": S.show(a2), "b'": S.show(b2)}}
    A, B = ("var", "a"), ("var", "b")
    ok_a = a2 == B
    okb, F = False, None
    if b2[0] == "xor" and len(b2[1]) == 2 and A in b2[1]:
        F = [x for x in b2[1] if x != A][0]
        okb = _round_call(F)
    r1.require(ok_a and okb, enc, "round transformer shape",
               "BitwiseFFX.encrypt: one round maps (a, b) to (%s, %s); a Feistel round must map it to (b, a ^ round(key, i, b, len(a)))" % (S.show(a2), S.show(b2)), se.loop)
    if okb:
        args = _round_args(F, rp)
        uses_a_value = any(S.mentions(x, "a") and not (x[0] == "call" and x[1] == ("fn", "len")) for x in args.values())
        r1.require(not uses_a_value, enc, "round function independent of the xor-ed half",
                   "BitwiseFFX.encrypt: the round function reads the value of the half it is xor-ed into (%s): the round is no longer invertible" % S.show(F), se.loop)
        r1.require(args.get(rp[0]) == ("var", key_e) and args.get(rp[1]) == ("var", "i") and args.get(rp[2]) == B, enc, "round function inputs",
                   "BitwiseFFX.encrypt: round is called as %s, expected round(key, i, b, len(a))" % S.show(F), se.loop)
        w = args.get(rp[3])
        r4.require(w == ("call", ("fn", "len"), (A,), ()), enc, "requested width is the xor-ed half's length",
                   "BitwiseFFX.encrypt asks the round function for %s bits, but xors the result into a (len(a) bits)" % (S.show(w) if w else None), se.loop)
        r1.instance(desc)
    ua, ub = _canonical_step(sd, rd_, ivd)
    r2.instance({"U": {"a'": S.show(ua), "b'": S.show(ub)}})
    if okb and ok_a:
        def norm_len(t):
            if isinstance(t, tuple):
                if t and t[0] == "call" and t[1] == ("fn", "len") and t[2] and t[2][0][0] == "xor":
                    inner = [x for x in t[2][0][1] if not _round_call(x)]
                    if len(inner) == 1:
                        return ("call", ("fn", "len"), (norm_len(inner[0]),), ())
                return tuple(norm_len(x) if isinstance(x, tuple) else x for x in t)
            return t
        key_ren = {key_d: ("var", key_e)}
        comp_a = norm_len(S.subst(S.subst(ua, key_ren), {"a": a2, "b": b2}))
        comp_b = norm_len(S.subst(S.subst(ub, key_ren), {"a": a2, "b": b2}))
        comp_a, comp_b = S.subst(comp_a, {}), S.subst(comp_b, {})
        ok = comp_a == A and comp_b == B
        r2.require(ok, dec, "decrypt round inverts encrypt round",
                   "BitwiseFFX.decrypt: applying the decryption round to the output of the encryption round gives (%s, %s) instead of (a, b): decrypt(encrypt(x)) != x" % (
                       S.show(comp_a)[:120], S.show(comp_b)[:120]), sd.loop)
    # round order: encrypt runs i = 0 .. N-1, decrypt the same N downwards; N is the stored (even) round count
    def count_up(it):
        if it is not None and it[0] == "call" and it[1] == ("fn", "range"):
            if len(it[2]) == 1:
                return it[2][0]
            if len(it[2]) == 2 and it[2][0] == ("const", 0):
                return it[2][1]
        return None

    def count_down(it):
        if it is None:
            return None
        if it[0] == "call" and it[1] == ("fn", "reversed") and len(it[2]) == 1:
            return count_up(it[2][0])
        if it[0] == "call" and it[1] == ("fn", "range") and len(it[2]) == 3 and it[2][1] == ("const", -1) and it[2][2] == ("const", -1):
            hi = it[2][0]
            if hi[0] == "op" and hi[1] == "Sub" and hi[3] == ("const", 1):
                return hi[2]
            if hi[0] == "cat" and len(hi[1]) == 2 and ("const", -1) in hi[1]:
                return [x for x in hi[1] if x != ("const", -1)][0]
        return None
    ne, nd = count_up(se.iter), count_down(sd.iter)
    r2.require(ne is not None and nd is not None and ne == nd, dec, "round order reversed",
               "encrypt iterates %s and decrypt %s: decryption must run the same rounds in reverse order" % (S.show(se.iter) if se.iter else None, S.show(sd.iter) if sd.iter else None), sd.loop)
    r3.require(ne == ("attr", ("var", "self"), "rounds"), enc, "round count is the stored (even) count",
               "BitwiseFFX.encrypt runs %s rounds: only the stored round count is known to be even, and with an odd count the unequal halves of an odd-width input end up "
               "swapped, so the inverse no longer matches" % (S.show(ne) if ne else None), se.loop)


def check(repo):
    r1 = Rule("R15.1", "encryption round is (a, b) -> (b, a xor F(b)) with F independent of a")
    r2 = Rule("R15.2", "decryption round inverts the encryption round; round order is reversed")
    r3 = Rule("R15.3", "halves re-align: even number of rounds")
    r4 = Rule("R15.4", "the round function returns exactly the width it is asked for")
    r5 = Rule("R15.5", "length contracts of the PRP wrappers")
    r6 = Rule("R15.6", "Luby-Rackoff: three Feistel rounds over three disjoint sub-keys")
    rules = [r1, r2, r3, r4, r5, r6]

    enc = repo.func(FPE, "BitwiseFFX.encrypt")
    dec = repo.func(FPE, "BitwiseFFX.decrypt")
    sums = {}
    for fi, rule in ((enc, r1), (dec, r2)):
        try:
            sums[fi.name] = shape.summary(fi.node)
        except shape.NoShape as e:
            rule.fail_fn(fi, fi.node, "single round loop", "%s is no longer <split>; <one round loop>; <join> (%s)" % (fi.qual, e))
    if len(sums) == 2:
        _check_ffx(repo, r1, r2, r3, r4, enc, dec, sums["encrypt"], sums["decrypt"])
    # ---------------------------------------------------------------- R15.3 parity
    m = repo.module(FPE)
    try:
        dr = repo.const_value(m, m.globals["DEFAULT_ROUNDS"])
    except Exception:
        dr = None
    r3.require(isinstance(dr, int) and dr > 0 and dr % 2 == 0, repo.func(FPE, "BitwiseFFX.__init__"), "even default round count",
               "DEFAULT_ROUNDS is %r: with an odd number of rounds the unequal halves of an odd-width input end up swapped and the output width / inverse break" % (dr,))
    init = repo.func(FPE, "BitwiseFFX.__init__")
    dflt = init.node.args.defaults
    try:
        dv = repo.const_value(m, dflt[0]) if dflt else None
    except Exception:
        dv = None
    r3.require(isinstance(dv, int) and dv > 0 and dv % 2 == 0, init, "rounds default", "BitwiseFFX.__init__ defaults rounds to %r, not to an even constant" % (dv,))
    stored = [ps.store("rounds") for ps in summarize(init) if ps.exc is None]
    r3.require(bool(stored) and all(x == ("var", init.params[1]) for x in stored), init, "round count stored as given", "BitwiseFFX.__init__ stores %s as its round count" % (
        [S.show(x) if x else None for x in stored]))
    for rel, mod in repo.modules.items():
        for fi in mod.all_functions():
            for c in ast.walk(fi.node):
                if isinstance(c, ast.Call) and (dotted(c.func) or "").split(".")[-1] == "BitwiseFFX":
                    odd = False
                    for a in list(c.args[:1]) + [k.value for k in c.keywords if k.arg == "rounds"]:
                        try:
                            v = repo.const_value(mod, a)
                            odd = not (isinstance(v, int) and v % 2 == 0)
                        except Exception:
                            odd = True
                    r3.require(not odd, fi, "caller passes even rounds", "%s constructs BitwiseFFX with a round count that is not a known even constant" % fi.qual, c)
    split = repo.func(FPE, "BitwiseFFX.split")
    r3.require(any(isinstance(c, ast.Call) and dotted(c.func) == "half_bits_not_padding" for c in ast.walk(split.node)), split, "split helper",
               "BitwiseFFX.split no longer uses half_bits_not_padding")
    # ---------------------------------------------------------------- R15.4 round returns exactly output_len bits
    rnd = repo.func(FPE, "BitwiseFFX.round")
    _check_round(repo, r4, rnd)

    # the permutation is a function of (key, input): no state kept on the cipher / PRP objects after construction
    check_prp_stateless(repo, r4)

    # ---------------------------------------------------------------- R15.5 contracts
    for rel, qual, subj, decl in (("toolkit/prp/bitwise_fpe_prp.py", "BitwiseFPEPRP.__call__", "key", "key_bit_length"),
                                  ("toolkit/prp/bitwise_fpe_prp.py", "BitwiseFPEPRP.__call__", "message", "message_bit_length"),
                                  (LR, "LubyRackoffPRP.__call__", "key", "key_length"),
                                  (LR, "LubyRackoffPRP.__call__", "message", "message_length")):
        fi = repo.func(rel, qual)
        refused, bad, F, what = guard_contract(fi, subj, decl)
        if r5.require(bool(refused), fi, "guard %s/%s" % (subj, decl), "%s no longer refuses a %s of the wrong length" % (qual, subj)):
            if bad:
                nid, alt = bad[0]
                r5.fail_fn(fi, F.cfg.nodes[nid].stmt, "guard %s dominates" % subj,
                           "%s: the %s check does not precede the permutation on every path: a result is produced under [%s], i.e. without %s being established "
                           "(a wrong-length %s is then permuted at its own width instead of being refused)" % (qual, subj, describe_alt(alt), what.replace("!=", "=="), subj))
            else:
                r5.ok({"function": qual, "subject": subj, "declared": decl})
    fp = repo.func("toolkit/prp/bitwise_fpe_prp.py", "BitwiseFPEPRP.__call__")
    want = ("call", ("fn", "self.underlying_fpe.encrypt"), (("call", ("fn", "bytes"), (("var", fp.params[1]),), ()), ("var", fp.params[2])), ())
    rets = [ps.ret for ps in summarize(fp) if ps.exc is None]
    r5.require(bool(rets) and all(x == want for x in rets), fp, "PRP delegates to the cipher",
               "BitwiseFPEPRP.__call__ no longer returns underlying_fpe.encrypt(bytes(key), message) (returns %s)" % [S.show(x)[:80] if x else None for x in rets])
    lri = repo.func(LR, "LubyRackoffPRP.__init__")
    Fl = facts_of(lri)
    kl, ml, up = lri.params[2], lri.params[1], lri.params[3]
    if "key_length" in lri.params and "message_length" in lri.params:
        kl, ml = "key_length", "message_length"
        up = [x for x in lri.params[1:] if x not in (kl, ml)][0]
    need = {
        "key length = 3 x PRF key length": lambda k, t: k[0] == "==" and t and entry(kl) in k[1:] and any(up in x and "key_length" in x and "3" in x for x in k[1:]),
        "PRF input length = PRF output length": lambda k, t: k[0] == "==" and t and any("message_length" in x for x in k[1:]) and any("output_length" in x for x in k[1:]),
        "message length = 2 x PRF input length": lambda k, t: k[0] == "==" and t and entry(ml) in k[1:] and any(up in x and "message_length" in x and "2" in x for x in k[1:]),
    }
    exit_alts = Fl.alts(Fl.cfg.exit) or []
    for what, pred in need.items():
        ok = bool(exit_alts) and all(any(pred(k, t) for (k, t) in alt) for alt in exit_alts)
        r5.require(ok, lri, "constructor constraint: %s" % what, "LubyRackoffPRP.__init__ no longer refuses a PRF / length combination violating '%s'" % what)
    hl = repo.func("toolkit/prp/hmac_luby_rackoff_prp.py", "HmacLubyRackoffPRP.__init__")
    Fh = facts_of(hl)
    hk, hm = ("key_length", "message_length") if "key_length" in hl.params else (hl.params[2], hl.params[1])
    ex = Fh.alts(Fh.cfg.exit) or []

    def divisible(param, d):
        def pred(k, t):
            txt = "%s %% %d" % (entry(param), d)
            return (k == ("truth", txt) and not t) or (k[0] == "==" and "0" in k[1:] and txt in k[1:] and t)
        return pred
    for param, d in ((hk, 3), (hm, 2)):
        r5.require(bool(ex) and all(any(divisible(param, d)(k, t) for (k, t) in alt) for alt in ex), hl, "divisibility check %s %% %d" % (param, d),
                   "HmacLubyRackoffPRP.__init__ no longer refuses a %s that is not a multiple of %d" % (param, d))
    # geometry of the round PRF: key_length // 3, message_length // 2 in and out
    geo = None
    for c in ast.walk(hl.node):
        if isinstance(c, ast.Call) and {k.arg for k in c.keywords} >= {"output_length", "message_length", "key_length"} and (dotted(c.func) or "").endswith("PRF"):
            geo = {k.arg: S.canon(S.expr(inline_locals(hl.node, k.value), {})) for k in c.keywords}
    half = ("op", "FloorDiv", ("var", hm), ("const", 2))
    third = ("op", "FloorDiv", ("var", hk), ("const", 3))
    r5.require(geo is not None and geo.get("output_length") == half and geo.get("message_length") == half and geo.get("key_length") == third, hl,
               "underlying PRF geometry", "HmacLubyRackoffPRP builds its round PRF with the wrong key/message/output lengths (%s)" % (
                   {k: S.show(v) for k, v in geo.items()} if geo else None))
    hc = repo.func("toolkit/prp/hmac_luby_rackoff_prp.py", "HmacLubyRackoffPRP.__call__")
    rets = [ps.ret for ps in summarize(hc) if ps.exc is None]
    wantc = ("call", ("fn", "self.underlying_prp"), (("var", hc.params[1]), ("var", hc.params[2])), ())
    wantd = ("call", ("fn", "self.underlying_prp.__call__"), wantc[2], ())
    r5.require(bool(rets) and all(x in (wantc, wantd) for x in rets), hc, "wrapper delegates", "HmacLubyRackoffPRP.__call__ no longer delegates (key, message)")

    # ---------------------------------------------------------------- R15.6 Luby-Rackoff rounds
    lrc = repo.func(LR, "LubyRackoffPRP.__call__")
    _check_luby_rackoff(repo, r6, lrc)
    return rules


def _check_round(repo, r4, rnd):
    """round(key, i, s, output_len): returns the higher `output_len` bits of an accumulation that stopped only when it was wide
    enough; output_len defaults to len(s); the MAC is keyed with this call's key and its input binds the round index and the half."""
    from ..terms import fn_terms, walk
    kp, ip, sp, op_ = rnd.params[1:5]
    F = facts_of(rnd)
    cfg = F.cfg
    rets = [n for n in cfg.nodes if n.kind == "return" and n.id in F.ins]
    okr = bool(rets)
    for n in rets:
        v = inline_locals(rnd.node, n.stmt.value)
        if not (isinstance(v, ast.Call) and isinstance(v.func, ast.Attribute) and v.func.attr == "get_higher_bits" and len(v.args) == 1 and
                isinstance(v.args[0], ast.Name) and v.args[0].id == op_):
            okr = False
    wide = okr
    for n in rets:
        if not okr:
            break
        v = n.stmt.value
        recv = v.func.value if isinstance(v, ast.Call) and isinstance(v.func, ast.Attribute) else None
        rn = unparse(recv) if recv is not None else "?"
        if not F.one_of(n.id, [(("<", "len(%s)" % rn, op_), False)]):
            wide = False
    if okr and wide:
        r4.ok({"round": "get_higher_bits(%s) of an accumulation left only when len(result) >= %s" % (op_, op_)})
        r4.ok({"round": "returns exactly the requested width"})
    else:
        # another spelling: decide "exactly output_len bits, all of them keyed MAC output" by abstract interpretation on a grid
        from .. import macwidth
        try:
            ok_w, what = macwidth.full_width_round(rnd.node, kp, sp, op_)
        except macwidth.GiveUp as e:
            ok_w, what = None, str(e)
        if ok_w:
            r4.ok({"round": "abstract interpretation: exactly %s bits of keyed MAC output" % op_, "grid points": what})
            r4.ok({"round": "returns exactly the requested width"})
        elif ok_w is None:
            r4.fail_fn(rnd, rnd.node, "round truncates to the requested width",
                       "BitwiseFFX.round no longer returns result.get_higher_bits(output_len) of an accumulation that is at least that wide, and its new form is not "
                       "understood (%s)" % what)
        else:
            r4.fail_fn(rnd, rnd.node, "round returns full-width MAC output",
                       "BitwiseFFX.round: %s; a round function that is constant (or partly constant) makes the Feistel network independent of the key on narrow domains "
                       "- with an even number of rounds it is the identity" % what)
    # default width: when output_len == 0 it becomes len(s)
    dflt = False
    for n in cfg.nodes:
        if n.kind == "stmt" and isinstance(n.stmt, ast.Assign) and len(n.stmt.targets) == 1 and isinstance(n.stmt.targets[0], ast.Name) and n.stmt.targets[0].id == op_ and \
                unparse(n.stmt.value) == "len(%s)" % sp and F.one_of(n.id, [(("==", "0", entry(op_)), True), (("truth", entry(op_)), False)]):
            dflt = True
    r4.require(dflt, rnd, "default width", "BitwiseFFX.round lost its default width (len(s))")
    # the MAC
    ft = fn_terms(repo, rnd)
    macs = []
    for n in ft.cfg.nodes:
        if n.stmt is None or n.ast is None:
            continue
        root = n.ast if n.kind == "test" else n.stmt
        for c in ast.walk(root):
            if isinstance(c, ast.Call) and dotted(c.func) == "hmac.new" and len(c.args) >= 2:
                macs.append((ft.term(c.args[0], n.id), ft.term(c.args[1], n.id), c))
    okm = bool(macs)
    for k, msg, c in macs:
        leaves = [x for x in walk(msg) if isinstance(x, tuple)]
        if k != ("param", kp) or ("param", ip) not in leaves or ("param", sp) not in leaves:
            okm = False
    r4.require(okm, rnd, "round binds key, round index and half", "BitwiseFFX.round no longer keys its MAC with this call's key or no longer feeds the round index and the half into the MAC input")
    bad = [dotted(c.func) for c in ast.walk(rnd.node) if isinstance(c, ast.Call) and (dotted(c.func) or "").split(".")[0] in ("os", "random", "time", "secrets", "uuid")]
    r4.require(not bad, rnd, "round is a function of (key, i, s)", "BitwiseFFX.round is no longer a deterministic function of its inputs (%s)" % bad)


def _check_luby_rackoff(repo, r6, lrc):
    from ..terms import fn_terms
    kp, mp = lrc.params[1], lrc.params[2]
    try:
        sm = shape.summary(lrc.node)
    except shape.NoShape as e:
        # the rounds may be written out one after the other: roll them up again and judge the loop
        rolled = shape.reroll(lrc.node)
        sm = None
        if rolled is not None:
            try:
                sm = shape.summary(rolled)
            except shape.NoShape:
                sm = None
        if sm is None:
            r6.fail_fn(lrc, lrc.node, "round loop", "LubyRackoffPRP.__call__ is no longer <split>; <round loop>; <join> (%s)" % e)
            return
    msg = ("var", mp)
    H = S.mv("H")
    eqs = [(("slice", msg, None, H), lambda asg: sm.init.get(asg["L"])),
           (("slice", msg, H, None), lambda asg: sm.init.get(asg["R"]))]
    f = S.match_all(eqs, ["L", "R"], [v for v in sm.init if v in sm.carried])
    half = ("op", "FloorDiv", ("attr", ("var", "self"), "message_length"), ("const", 2))
    if not r6.require(f is not None and f[1].get("H") == half, lrc, "halves", "LubyRackoffPRP no longer splits the message into two halves at message_length // 2"):
        return
    asg, _b = f
    Lv, Rv = ("var", asg["L"]), ("var", asg["R"])
    r6.require(sm.ret == ("cat", (Lv, Rv)), lrc, "halves rejoined", "LubyRackoffPRP no longer returns left + right (returns %s)" % (S.show(sm.ret) if sm.ret else None))
    L2, R2 = sm.step.get(asg["L"]), sm.step.get(asg["R"])
    okL = L2 == Rv
    okR, Fk = False, None
    if R2 is not None and R2[0] == "call" and R2[1] == ("fn", "bytes_xor") and len(R2[2]) == 2 and Lv in R2[2]:
        Fc = [x for x in R2[2] if x != Lv]
        Fc = Fc[0] if Fc else None
        if Fc is not None and Fc[0] == "call" and Fc[1] == ("fn", "self.underlying_prf") and len(Fc[2]) == 2 and Fc[2][1] == Rv and not S.mentions(Fc, asg["L"]):
            okR, Fk = True, Fc[2][0]
    r6.require(okL and okR, lrc, "Feistel round shape",
               "LubyRackoffPRP: one round maps (L, R) to (%s, %s); expected (R, L xor F_i(R))" % (S.show(L2) if L2 else None, S.show(R2)[:100] if R2 else None), sm.loop)
    tm = shape.times(sm, None)
    third_s = ("op", "FloorDiv", ("attr", ("var", "self"), "key_length"), ("const", 3))
    chunked = [("call", ("fn", "chunks"), (("var", kp), third_s), ()), ("call", ("fn", "toolkit.list_utils.chunks"), (("var", kp), third_s), ())]
    chunked += [("call", ("fn", "list"), (x,), ()) for x in list(chunked)]
    by_chunks = sm.kind == "for" and sm.iter is not None and (sm.iter in chunked or (sm.iter[0] == "slice" and sm.iter[1] in chunked and sm.iter[2] is None and sm.iter[3] == ("const", 3)))
    if by_chunks:
        tm = ("count", ("const", 3), None)   # the key has 3 * (key_length // 3) bytes (constructor constraint + length guard)
    r6.require(tm is not None and tm[0] == "count" and tm[1] == ("const", 3), lrc, "three rounds",
               "LubyRackoffPRP runs %s rounds; three are needed for a PRP" % (S.show(tm[1]) if tm and tm[1] is not None else tm), sm.loop)
    if okR:
        ivar = sm.target
        # round key i is the i-th of three disjoint thirds of the key
        third = ("op", "FloorDiv", ("attr", ("var", "self"), "key_length"), ("const", 3))
        K = ("attr", ("var", "self"), "key_length")
        ok_key = False
        shown = S.show(Fk)[:100]
        if by_chunks and Fk == ("var", ivar):
            ok_key = True   # one chunk of key_length // 3 bytes per round, in order (chunks: R17.4)
        elif Fk[0] == "sub" and Fk[2] == ("var", ivar) and Fk[1] in chunked and Fk[1][1] == ("fn", "list") and tm is not None and tm[0] == "count" and tm[1] == ("const", 3) \
                and sm.iter is not None and S.show(sm.iter) in ("range(3)", "range(0, 3)"):
            ok_key = True   # list(chunks(key, key_length // 3))[i] for i = 0, 1, 2
        elif Fk[0] == "sub" and Fk[2] == ("var", ivar):
            ft = fn_terms(repo, lrc)
            for n in ft.cfg.nodes:
                if n.stmt is None or n.ast is None:
                    continue
                for x in ast.walk(n.ast if n.kind == "test" else n.stmt):
                    if isinstance(x, ast.Call) and dotted(x.func) == "self.underlying_prf" and x.args and isinstance(x.args[0], ast.Subscript):
                        t = ft.term(x.args[0].value, n.id)
                        while t[0] == "cont":
                            t = t[2]
                        if t[0] == "comp" and t[2][0] == "slice" and t[2][1] == ("param", kp):
                            lo, hi = t[2][2], t[2][3]
                            shown = "%s[..]" % __import__("sa.terms", fromlist=["show"]).show(t, maxdepth=4)[:90]
                            rv = lo if lo is not None and lo[0] == "rangevar" else None
                            if rv is not None and len(rv[1]) == 3 and rv[1][0] == ("const", 0) and _is_attr(rv[1][1], "key_length") and _is_third(rv[1][2]) and \
                                    hi is not None and hi[0] == "binop" and hi[1] == "Add" and hi[2] == lo and _is_third(hi[3]):
                                ok_key = True
        elif Fk[0] == "slice" and Fk[1] == ("var", kp):
            # key[i*k : (i+1)*k] written out
            pass
        r6.require(ok_key, lrc, "three disjoint sub-keys", "LubyRackoffPRP: round i no longer uses the i-th of three disjoint thirds of the key (uses %s)" % shown, sm.loop)


def _is_attr(t, name):
    return t == ("attr", ("param", "self"), name)


def _is_third(t):
    return t[0] == "binop" and t[1] == "FloorDiv" and _is_attr(t[2], "key_length") and t[3] == ("const", 3)


# ----------------------------------------------------------------------------- self-test variants
from ..selftest import V  # noqa: E402

VARIANTS = [
    V("round-depends-on-a", "fire", "R15.1", [(FPE, "BitwiseFFX.encrypt", "c = a ^ self.round(key, i, b, len(a))", "c = a ^ self.round(key, i, a + b, len(a))")]),
    V("odd-default-rounds", "fire", "R15.3", [(FPE, None, "DEFAULT_ROUNDS = 10", "DEFAULT_ROUNDS = 9")]),
    V("decrypt-forward-order", "fire", "R15.2", [(FPE, "BitwiseFFX.decrypt", "for i in range(self.rounds - 1, -1, -1):", "for i in range(self.rounds):")]),
    V("decrypt-wrong-half", "fire", "R15.2", [(FPE, "BitwiseFFX.decrypt", "a = c ^ self.round(key, i, b, len(c))", "a = c ^ self.round(key, i, c, len(c))")]),
    V("round-width-of-b", "fire", "R15.4", [(FPE, "BitwiseFFX.encrypt", "c = a ^ self.round(key, i, b, len(a))", "c = a ^ self.round(key, i, b, len(b))")]),
    V("round-returns-untruncated", "fire", "R15.4", [(FPE, "BitwiseFFX.round", "return result.get_higher_bits(output_len)", "return result")]),
    V("fpe-message-guard-dropped", "fire", "R15.5", [("toolkit/prp/bitwise_fpe_prp.py", "BitwiseFPEPRP.__call__",
      "        if len(message) != self.message_bit_length:\n            raise ValueError(\"Message(Input) bit length mismatch for PRP.\")\n", "")]),
    V("luby-rackoff-two-rounds", "fire", "R15.6", [(LR, "LubyRackoffPRP.__call__", "for i in range(3):", "for i in range(2):")]),
    V("luby-rackoff-round-leaks-left", "fire", "R15.6", [(LR, "LubyRackoffPRP.__call__",
      "bytes_xor(curr_left, self.underlying_prf(key_list[i], curr_right))", "bytes_xor(curr_left, self.underlying_prf(key_list[i], curr_left))")]),
    V("round-bytes-floor", "fire", "R15.4", [(FPE, "BitwiseFFX.round", "        output_len_per_hash = int(self.digest_size * 8)\n        i = 0\n        result = Bitset(0b0, 0)\n        while True:\n            h = hmac.new(key, pre + struct.pack('I', i), self.digest_mod)\n            d = Bitset(int(h.hexdigest(), 16), output_len_per_hash)\n            result = result + d\n            if len(result) >= output_len:\n                break\n\n        return result.get_higher_bits(output_len)\n", "        digest = hmac.new(key, pre + struct.pack('I', 0), self.digest_mod).digest()\n        nbytes = output_len // 8\n        stream = digest * (nbytes // self.digest_size + 1)\n        return Bitset(int.from_bytes(stream[:nbytes], 'big'), output_len)\n")]),
    V("benign-round-bytes-ceil-shift", "silent", None, [(FPE, "BitwiseFFX.round", "        output_len_per_hash = int(self.digest_size * 8)\n        i = 0\n        result = Bitset(0b0, 0)\n        while True:\n            h = hmac.new(key, pre + struct.pack('I', i), self.digest_mod)\n            d = Bitset(int(h.hexdigest(), 16), output_len_per_hash)\n            result = result + d\n            if len(result) >= output_len:\n                break\n\n        return result.get_higher_bits(output_len)\n", "        digest = hmac.new(key, pre + struct.pack('I', 0), self.digest_mod).digest()\n        nbytes = (output_len + 7) // 8\n        stream = digest * (nbytes // self.digest_size + 1)\n        return Bitset(int.from_bytes(stream[:nbytes], 'big') >> (8 * nbytes - output_len), output_len)\n")]),
    V("benign-rename-temp", "silent", None, [(FPE, "BitwiseFFX.encrypt", "            c = a ^ self.round(key, i, b, len(a))\n            a, b = b, c", "            nxt = a ^ self.round(key, i, b, len(a))\n            a, b = b, nxt")]),
]
