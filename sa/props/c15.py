"""C15 - pseudo-random permutations are length-preserving bijections with inverses.

A Feistel round (a, b) -> (b, a xor F(b)) is a bijection for every F, and the network is inverted by
(a, b) -> (b xor F(a), a) applied in reverse round order.  If the code has that shape the bijection
and inverse clauses hold for every key, width and round function - a complete static argument.  The
rules reconstruct the state transformer of the loop bodies and compose them symbolically.  See
DESIGN.md section 3, C15.
"""
import ast

from ..core import Rule
from ..model import AnalysisError, dotted, unparse, short
from ..cfg import cfg_of
from .. import straight as S
from .c08 import guard_contract, raising_ifs
from ..contract import describe_alt

EXPLANATION = ("State-transformer reconstruction of the Feistel loop bodies (straight-line use-def substitution): "
               "BitwiseFFX.encrypt must be T(a,b) = (b, a xor F(key,i,b,len a)) with F independent of a's value, decrypt must be "
               "U(a,b) = (b xor F(key,i,a,len b), a); U o T is reduced to the identity by x^y^y -> x; the round index sequences "
               "must be reverses of each other; an even default round count re-aligns the unequal halves; the round function "
               "returns exactly the requested number of bits; LubyRackoffPRP.__call__ must be three rounds (R, L xor F_i(R)) over "
               "three disjoint sub-keys; the length guards of the PRP wrappers must exist.  Bijectivity by shape; pseudo-randomness "
               "is not examined.")
ASSUMPTIONS = ["Bitset xor / concat / higher / lower bits behave like fixed-width bit vectors (C18)",
               "HMAC is a function (deterministic)"]

FPE = "toolkit/symmetric_encryption/fpe.py"
LR = "toolkit/prp/luby_rackoff_prp.py"


def _loop(fi):
    loops = [st for st in fi.node.body if isinstance(st, ast.For)]
    return loops[0] if len(loops) == 1 else None


def _is_round_call(t, var):
    """F(key, i, <var>, len(<other>)) -> (ok, other, full term)"""
    return t[0] == "call" and t[1] == ("fn", "self.round")


def check_prp_stateless(repo, rule):
    for rel, cname in ((FPE, "BitwiseFFX"), ("toolkit/prp/bitwise_fpe_prp.py", "BitwiseFPEPRP"), (LR, "LubyRackoffPRP"),
                       ("toolkit/prp/hmac_luby_rackoff_prp.py", "HmacLubyRackoffPRP")):
        ci = repo.cls(rel, cname)
        for mname, fi in ci.methods.items():
            if mname == "__init__":
                continue
            for st in ast.walk(fi.node):
                tg = st.targets if isinstance(st, ast.Assign) else ([st.target] if isinstance(st, ast.AugAssign) else [])
                for t in tg:
                    base = t
                    while isinstance(base, (ast.Attribute, ast.Subscript)):
                        base = base.value
                    if isinstance(base, ast.Name) and base.id == "self" and t is not base:
                        rule.fail_fn(fi, st, "%s.%s keeps state" % (cname, mname),
                                     "%s.%s stores %s on the object: the permutation computed by a later call (e.g. under another key) depends on an earlier one" % (cname, mname, unparse(t)))
        rule.ok({"class": "%s::%s" % (rel, cname), "methods": sorted(ci.methods)})
    rnd = repo.func(FPE, "BitwiseFFX.round")
    keyed = [c for c in ast.walk(rnd.node) if isinstance(c, ast.Call) and dotted(c.func) == "hmac.new" and c.args and isinstance(c.args[0], ast.Name) and c.args[0].id == rnd.params[1]]
    rule.require(bool(keyed), rnd, "round MAC keyed with this call's key", "BitwiseFFX.round no longer keys its MAC with the key passed to this call")


def check(repo):
    r1 = Rule("R15.1", "encryption round is (a, b) -> (b, a xor F(b)) with F independent of a")
    r2 = Rule("R15.2", "decryption round inverts the encryption round; round order is reversed")
    r3 = Rule("R15.3", "halves re-align: even number of rounds")
    r4 = Rule("R15.4", "the round function returns exactly the width it is asked for")
    r5 = Rule("R15.5", "length contracts of the PRP wrappers")
    r6 = Rule("R15.6", "Luby-Rackoff: three Feistel rounds over three disjoint sub-keys")
    rules = [r1, r2, r3, r4, r5, r6]

    enc = repo.func(FPE, "BitwiseFFX.encrypt")
    dec = repo.func(FPE, "BitwiseFFX.decrypt")
    le, ld = _loop(enc), _loop(dec)
    if not (r1.require(le is not None, enc, "single round loop", "BitwiseFFX.encrypt no longer consists of one round loop") and
            r2.require(ld is not None, dec, "single round loop", "BitwiseFFX.decrypt no longer consists of one round loop")):
        return rules
    # halves come from split(v) and are rejoined as a + b
    for fi in (enc, dec):
        first = fi.node.body[0]
        ok = isinstance(first, ast.Assign) and isinstance(first.targets[0], ast.Tuple) and [unparse(x) for x in first.targets[0].elts] == ["a", "b"] and \
            isinstance(first.value, ast.Call) and dotted(first.value.func) == "self.split"
        (r1 if fi is enc else r2).require(ok, fi, "halves from split", "%s no longer starts with a, b = self.split(v)" % fi.qual)
        last = fi.node.body[-1]
        ok = isinstance(last, ast.Return) and unparse(last.value) == "a + b"
        (r1 if fi is enc else r2).require(ok, fi, "halves rejoined in order", "%s no longer returns a + b" % fi.qual)
    try:
        te = S.run(le.body)
        td = S.run(ld.body)
    except S.NotStraight as e:
        r1.fail_fn(enc, le, "round body not straight-line", "round loop body contains control flow: %s" % e)
        return rules
    ivar = le.target.id if isinstance(le.target, ast.Name) else "i"
    a2, b2 = te.get("a", ("var", "a")), te.get("b", ("var", "b"))
    desc = {"T": {"a'": S.show(a2), "b'": S.show(b2)}}
    # a' = b
    ok_a = a2 == ("var", "b")
    # b' = a ^ F where F does not mention a except inside len()
    okb = False
    F = None
    if b2[0] == "xor" and len(b2[1]) == 2:
        others = [x for x in b2[1] if x != ("var", "a")]
        if len(others) == 1 and ("var", "a") in b2[1]:
            F = others[0]
            okb = F[0] == "call" and F[1] == ("fn", "self.round")
    r1.require(ok_a and okb, enc, "round transformer shape",
               "BitwiseFFX.encrypt: one round maps (a, b) to (%s, %s); a Feistel round must map it to (b, a ^ round(key, i, b, len(a)))" % (S.show(a2), S.show(b2)))
    if F is not None and okb:
        args = F[2]
        uses_a_value = any(S.mentions(x, "a") and not (x[0] == "call" and x[1] == ("fn", "len")) for x in args)
        r1.require(not uses_a_value, enc, "round function independent of the xor-ed half",
                   "BitwiseFFX.encrypt: the round function reads the value of the half it is xor-ed into (%s): the round is no longer invertible" % S.show(F))
        r1.require(len(args) >= 3 and args[0] == ("var", "key") and args[1] == ("var", ivar) and args[2] == ("var", "b"), enc, "round function inputs",
                   "BitwiseFFX.encrypt: round is called as %s, expected round(key, i, b, len(a))" % S.show(F))
        # width requested = len of the half being xor-ed
        w = args[3] if len(args) > 3 else dict(F[3]).get("output_len")
        r4.require(w == ("call", ("fn", "len"), (("var", "a"),), ()), enc, "requested width is the xor-ed half's length",
                   "BitwiseFFX.encrypt asks the round function for %s bits, but xors the result into a (len(a) bits)" % (S.show(w) if w else None))
        r1.instance(desc)
    # ---------------------------------------------------------------- decrypt: compose U(T(a, b))
    ua, ub = td.get("a", ("var", "a")), td.get("b", ("var", "b"))
    r2.instance({"U": {"a'": S.show(ua), "b'": S.show(ub)}})
    ivd = ld.target.id if isinstance(ld.target, ast.Name) else "i"
    if okb and ok_a:
        # lengths: len(x ^ F) == len(x) when F has the requested width (R15.4); len of substituted halves
        def norm_len(t):
            if isinstance(t, tuple):
                if t and t[0] == "call" and t[1] == ("fn", "len") and t[2] and t[2][0][0] == "xor":
                    inner = [x for x in t[2][0][1] if not (x[0] == "call" and x[1] == ("fn", "self.round"))]
                    if len(inner) == 1:
                        return ("call", ("fn", "len"), (norm_len(inner[0]),), ())
                return tuple(norm_len(x) if isinstance(x, tuple) else x for x in t)
            return t
        comp_a = norm_len(S.subst(ua, {"a": a2, "b": b2, ivd: ("var", ivar)}))
        comp_b = norm_len(S.subst(ub, {"a": a2, "b": b2, ivd: ("var", ivar)}))
        # re-run xor cancellation after normalisation
        comp_a = S.subst(comp_a, {})
        comp_b = S.subst(comp_b, {})
        ok = comp_a == ("var", "a") and comp_b == ("var", "b")
        r2.require(ok, dec, "decrypt round inverts encrypt round",
                   "BitwiseFFX.decrypt: applying the decryption round to the output of the encryption round gives (%s, %s) instead of (a, b): decrypt(encrypt(x)) != x" % (
                       S.show(comp_a)[:120], S.show(comp_b)[:120]))
    # round order
    re_, rd = unparse(le.iter), unparse(ld.iter)
    r2.require(re_ == "range(self.rounds)" and rd in ("range(self.rounds - 1, -1, -1)", "reversed(range(self.rounds))"), dec, "round order reversed",
               "encrypt iterates %s and decrypt %s: decryption must run the rounds in reverse order" % (re_, rd))
    # ---------------------------------------------------------------- R15.3 parity
    m = repo.module(FPE)
    try:
        dr = repo.const_value(m, m.globals["DEFAULT_ROUNDS"])
    except Exception:
        dr = None
    r3.require(isinstance(dr, int) and dr > 0 and dr % 2 == 0, repo.func(FPE, "BitwiseFFX.__init__"), "even default round count",
               "DEFAULT_ROUNDS is %r: with an odd number of rounds the unequal halves of an odd-width input end up swapped and the output width / inverse break" % (dr,))
    init = repo.func(FPE, "BitwiseFFX.__init__")
    dflt = init.node.args.defaults
    r3.require(bool(dflt) and unparse(dflt[0]) == "DEFAULT_ROUNDS", init, "rounds default", "BitwiseFFX.__init__ no longer defaults rounds to DEFAULT_ROUNDS")
    for rel, mod in repo.modules.items():
        for fi in mod.all_functions():
            for c in ast.walk(fi.node):
                if isinstance(c, ast.Call) and (dotted(c.func) or "").split(".")[-1] == "BitwiseFFX":
                    odd = False
                    for a in list(c.args[:1]) + [k.value for k in c.keywords if k.arg == "rounds"]:
                        try:
                            v = repo.const_value(mod, a)
                            odd = not (isinstance(v, int) and v % 2 == 0)
                        except Exception:
                            odd = True
                    r3.require(not odd, fi, "caller passes even rounds", "%s constructs BitwiseFFX with a round count that is not a known even constant" % fi.qual, c)
    split = repo.func(FPE, "BitwiseFFX.split")
    r3.require(any(isinstance(c, ast.Call) and dotted(c.func) == "half_bits_not_padding" for c in ast.walk(split.node)), split, "split helper",
               "BitwiseFFX.split no longer uses half_bits_not_padding")
    # ---------------------------------------------------------------- R15.4 round returns exactly output_len bits
    rnd = repo.func(FPE, "BitwiseFFX.round")
    rets = [x for x in ast.walk(rnd.node) if isinstance(x, ast.Return)]
    ok = len(rets) == 1 and unparse(rets[0].value) == "result.get_higher_bits(output_len)"
    r4.require(ok, rnd, "round truncates to the requested width", "BitwiseFFX.round no longer returns result.get_higher_bits(output_len)")
    brk = [st for st in ast.walk(rnd.node) if isinstance(st, ast.If) and any(isinstance(x, ast.Break) for x in st.body)]
    ok = len(brk) == 1 and unparse(brk[0].test) in ("len(result) >= output_len",)
    r4.require(ok, rnd, "round accumulates until wide enough", "BitwiseFFX.round leaves its accumulation loop before len(result) >= output_len")
    # deterministic: uses key, i, s; no randomness
    src = unparse(rnd.node)
    r4.require("hmac.new(key" in src and "os.urandom" not in src and "random." not in src and "time." not in src, rnd, "round is a function of (key, i, s)",
               "BitwiseFFX.round is no longer a deterministic function of its inputs")
    pre = [st for st in rnd.node.body if isinstance(st, ast.Assign) and unparse(st.targets[0]) == "pre"]
    r4.require(bool(pre) and "i, *s" in unparse(pre[0].value), rnd, "round binds round index and half", "BitwiseFFX.round no longer feeds the round index and the half into the MAC input")
    dflt_len = [st for st in rnd.node.body if isinstance(st, ast.If) and unparse(st.test) == "output_len == 0"]
    r4.require(bool(dflt_len), rnd, "default width", "BitwiseFFX.round lost its default width (len(s))")

    # the permutation is a function of (key, input): no state kept on the cipher / PRP objects after construction
    check_prp_stateless(repo, r4)

    # ---------------------------------------------------------------- R15.5 contracts
    for rel, qual, subj, decl in (("toolkit/prp/bitwise_fpe_prp.py", "BitwiseFPEPRP.__call__", "key", "key_bit_length"),
                                  ("toolkit/prp/bitwise_fpe_prp.py", "BitwiseFPEPRP.__call__", "message", "message_bit_length"),
                                  (LR, "LubyRackoffPRP.__call__", "key", "key_length"),
                                  (LR, "LubyRackoffPRP.__call__", "message", "message_length")):
        fi = repo.func(rel, qual)
        refused, bad, F, what = guard_contract(fi, subj, decl)
        if r5.require(bool(refused), fi, "guard %s/%s" % (subj, decl), "%s no longer refuses a %s of the wrong length" % (qual, subj)):
            if bad:
                nid, alt = bad[0]
                r5.fail_fn(fi, F.cfg.nodes[nid].stmt, "guard %s dominates" % subj,
                           "%s: the %s check does not precede the permutation on every path: a result is produced under [%s], i.e. without %s being established "
                           "(a wrong-length %s is then permuted at its own width instead of being refused)" % (qual, subj, describe_alt(alt), what.replace("!=", "=="), subj))
            else:
                r5.ok({"function": qual, "subject": subj, "declared": decl})
    fp = repo.func("toolkit/prp/bitwise_fpe_prp.py", "BitwiseFPEPRP.__call__")
    ret = [x for x in ast.walk(fp.node) if isinstance(x, ast.Return)]
    r5.require(len(ret) == 1 and unparse(ret[0].value) == "self.underlying_fpe.encrypt(bytes(key), message)", fp, "PRP delegates to the cipher",
               "BitwiseFPEPRP.__call__ no longer returns underlying_fpe.encrypt(bytes(key), message)")
    lri = repo.func(LR, "LubyRackoffPRP.__init__")
    r5.require(len([1 for st, exc in raising_ifs(lri) if exc == "ValueError"]) >= 3, lri, "constructor constraints", "LubyRackoffPRP.__init__ lost a constructor constraint")
    hl = repo.func("toolkit/prp/hmac_luby_rackoff_prp.py", "HmacLubyRackoffPRP.__init__")
    r5.require(len([1 for st, exc in raising_ifs(hl) if exc == "ValueError"]) >= 2, hl, "divisibility checks", "HmacLubyRackoffPRP.__init__ lost a divisibility check")
    srch = unparse(hl.node)
    r5.require("output_length=message_length // 2" in srch and "message_length=message_length // 2" in srch and "key_length=key_length // 3" in srch, hl,
               "underlying PRF geometry", "HmacLubyRackoffPRP builds its round PRF with the wrong key/message/output lengths")
    hc = repo.func("toolkit/prp/hmac_luby_rackoff_prp.py", "HmacLubyRackoffPRP.__call__")
    r5.require("self.underlying_prp" in unparse(hc.node) and "(key, message)" in unparse(hc.node), hc, "wrapper delegates", "HmacLubyRackoffPRP.__call__ no longer delegates (key, message)")

    # ---------------------------------------------------------------- R15.6 Luby-Rackoff rounds
    lrc = repo.func(LR, "LubyRackoffPRP.__call__")
    loop = next((st for st in lrc.node.body if isinstance(st, ast.For)), None)
    if r6.require(loop is not None, lrc, "round loop", "LubyRackoffPRP.__call__ lost its round loop"):
        try:
            t = S.run(loop.body)
            L2, R2 = t.get("curr_left"), t.get("curr_right")
            okL = L2 == ("var", "curr_right")
            okR = False
            F = None
            if R2 is not None and R2[0] == "call" and R2[1] == ("fn", "bytes_xor") and len(R2[2]) == 2:
                x, F = R2[2]
                okR = x == ("var", "curr_left") and F[0] == "call" and F[1] == ("fn", "self.underlying_prf") and len(F[2]) == 2 and \
                    F[2][1] == ("var", "curr_right") and not S.mentions(F, "curr_left")
            r6.require(okL and okR, lrc, "Feistel round shape",
                       "LubyRackoffPRP: one round maps (L, R) to (%s, %s); expected (R, L xor F_i(R))" % (S.show(L2) if L2 else None, S.show(R2)[:100] if R2 else None))
            if F is not None and okR:
                ivar2 = loop.target.id
                r6.require(F[2][0] == ("sub", ("var", "key_list"), ("var", ivar2)), lrc, "round key is key_list[i]",
                           "LubyRackoffPRP: round %s uses the key %s instead of key_list[i]" % (ivar2, S.show(F[2][0])))
        except S.NotStraight as e:
            r6.fail_fn(lrc, loop, "round body not straight-line", str(e))
        r6.require(unparse(loop.iter) == "range(3)", lrc, "three rounds", "LubyRackoffPRP runs %s rounds; three are needed for a PRP" % unparse(loop.iter))
    src = unparse(lrc.node)
    r6.require("message[:self.message_length // 2], message[self.message_length // 2:]" in src, lrc, "halves", "LubyRackoffPRP no longer splits the message into two halves")
    r6.require("[key[i:i + self.key_length // 3] for i in range(0, self.key_length, self.key_length // 3)]" in src, lrc, "three disjoint sub-keys",
               "LubyRackoffPRP no longer cuts the key into three disjoint sub-keys")
    rets = [x for x in ast.walk(lrc.node) if isinstance(x, ast.Return)]
    r6.require(len(rets) == 1 and unparse(rets[0].value) == "curr_left + curr_right", lrc, "halves rejoined", "LubyRackoffPRP no longer returns curr_left + curr_right")
    return rules


# ----------------------------------------------------------------------------- self-test variants
from ..selftest import V  # noqa: E402

VARIANTS = [
    V("round-depends-on-a", "fire", "R15.1", [(FPE, "BitwiseFFX.encrypt", "c = a ^ self.round(key, i, b, len(a))", "c = a ^ self.round(key, i, a + b, len(a))")]),
    V("odd-default-rounds", "fire", "R15.3", [(FPE, None, "DEFAULT_ROUNDS = 10", "DEFAULT_ROUNDS = 9")]),
    V("decrypt-forward-order", "fire", "R15.2", [(FPE, "BitwiseFFX.decrypt", "for i in range(self.rounds - 1, -1, -1):", "for i in range(self.rounds):")]),
    V("decrypt-wrong-half", "fire", "R15.2", [(FPE, "BitwiseFFX.decrypt", "a = c ^ self.round(key, i, b, len(c))", "a = c ^ self.round(key, i, c, len(c))")]),
    V("round-width-of-b", "fire", "R15.4", [(FPE, "BitwiseFFX.encrypt", "c = a ^ self.round(key, i, b, len(a))", "c = a ^ self.round(key, i, b, len(b))")]),
    V("round-returns-untruncated", "fire", "R15.4", [(FPE, "BitwiseFFX.round", "return result.get_higher_bits(output_len)", "return result")]),
    V("fpe-message-guard-dropped", "fire", "R15.5", [("toolkit/prp/bitwise_fpe_prp.py", "BitwiseFPEPRP.__call__",
      "        if len(message) != self.message_bit_length:\n            raise ValueError(\"Message(Input) bit length mismatch for PRP.\")\n", "")]),
    V("luby-rackoff-two-rounds", "fire", "R15.6", [(LR, "LubyRackoffPRP.__call__", "for i in range(3):", "for i in range(2):")]),
    V("luby-rackoff-round-leaks-left", "fire", "R15.6", [(LR, "LubyRackoffPRP.__call__",
      "bytes_xor(curr_left, self.underlying_prf(key_list[i], curr_right))", "bytes_xor(curr_left, self.underlying_prf(key_list[i], curr_left))")]),
    V("benign-rename-temp", "silent", None, [(FPE, "BitwiseFFX.encrypt", "            c = a ^ self.round(key, i, b, len(a))\n            a, b = b, c", "            nxt = a ^ self.round(key, i, b, len(a))\n            a, b = b, nxt")]),
]
