"""C19 - persistent fixed-length byte array behaves like a list, on disk and after reopen.

Decides the structural conditions of list-equivalence: index provenance (every index reaching the
index -> (file, offset) mapping is provably in range), failure atomicity of slice assignment, totality
of the closed marker, and file-name discipline.  The equivalence over operation histories itself is
not decidable statically.  See DESIGN.md section 3, C19.
"""
import ast

from ..core import Rule
from ..model import AnalysisError, dotted, unparse, short, ancestors
from ..cfg import cfg_of, calls_in_order
from .c08 import raising_ifs

EXPLANATION = ("(1) Index provenance: every argument reaching _get_bytes_by_index / _write_bytes_to_file (hence divmod(index, "
               "per_file) and the chunk file name) is an element of range(*slice.indices(len(self))) or an integer that passed "
               "the bounds guard and was normalised with % len(self); __getitem__ and __setitem__ must apply the same guard and "
               "normalisation (sibling cross-check).  (2) Slice assignment records the old item before overwriting it, restores "
               "all recorded items in a catch-all handler and re-raises; StopIteration is not a failure; type and size checks "
               "precede any write.  (3) Every operation SPFLBArray performs on its underlying array is bound to the raising "
               "function / descriptor of the closed marker, and close()/release() install the marker on every path.  (4) Only "
               "<path>_meta and <path>_<k> with k from divmod of a proven index are opened or unlinked; create refuses an existing "
               "meta; open validates it.  (5) Deletion is zero-fill through __setitem__; clear covers range(len(self)).")
ASSUMPTIONS = ["equivalence with the list model over operation histories is not decided; only its structural preconditions are"]

PA = "data_persistence/persistent_array.py"
IF = "data_persistence/interfaces.py"
CORE = "SimpleMultiFilePersistentFixedLengthBytesArray"


def _calls(fi, name):
    return [c for c in ast.walk(fi.node) if isinstance(c, ast.Call) and (dotted(c.func) or "") == name]


def _int_path_facts(fi, key_param):
    """For the int path of __getitem__/__setitem__: the operator.index() variable, the bounds guard, normalised names."""
    src = fi.node
    idx_var = None
    for st in ast.walk(src):
        if isinstance(st, ast.Assign) and isinstance(st.value, ast.Call) and dotted(st.value.func) == "operator.index" and isinstance(st.targets[0], ast.Name):
            idx_var = st.targets[0].id
    guard = None
    for st, exc in raising_ifs(fi):
        t = unparse(st.test)
        if exc == "IndexError" and idx_var and ("%s >= len(self)" % idx_var in t) and ("%s < -len(self)" % idx_var in t):
            guard = st
    return idx_var, guard


def _normalised(expr, idx_var, norm_names):
    """expr is idx % len(self), a name bound to it, or idx after `if idx < 0: idx += len(self)`."""
    t = unparse(expr)
    if t == "%s %% len(self)" % idx_var:
        return True
    if isinstance(expr, ast.Name) and expr.id in norm_names:
        return True
    return False


def check(repo):
    r1 = Rule("R19.1", "index provenance: only proven in-range indices reach the file mapping")
    r2 = Rule("R19.2", "failure atomicity of slice assignment; checks precede writes")
    r3 = Rule("R19.3", "closed marker is total and installed on every path")
    r4 = Rule("R19.4", "only the array's own files are touched; metadata written once and validated")
    r5 = Rule("R19.5", "deletion is zero-fill through __setitem__; clear covers the whole range")
    rules = [r1, r2, r3, r4, r5]
    ci = repo.cls(PA, CORE)
    get, set_ = ci.methods.get("__getitem__"), ci.methods.get("__setitem__")
    if get is None or set_ is None:
        raise AnalysisError("%s.__getitem__/__setitem__ vanished" % CORE)

    # ---------------------------------------------------------------- R19.1
    who = {"self._get_bytes_by_index": [], "self._write_bytes_to_file": []}
    for fi in ci.methods.values():
        for nm in who:
            for c in _calls(fi, nm):
                who[nm].append((fi, c))
    r1.require(len(who["self._get_bytes_by_index"]) >= 2 and len(who["self._write_bytes_to_file"]) >= 2, get, "mapping call sites",
               "expected slice and int call sites of the index mapping in __getitem__/__setitem__")
    facts = {}
    for fi, key in ((get, get.params[1]), (set_, set_.params[1])):
        idx_var, guard = _int_path_facts(fi, key)
        norm_names = set()
        for st in ast.walk(fi.node):
            if isinstance(st, ast.Assign) and isinstance(st.targets[0], ast.Name) and idx_var and unparse(st.value) == "%s %% len(self)" % idx_var:
                norm_names.add(st.targets[0].id)
        # in-place normalisation: if idx < 0: idx += len(self)
        for st in ast.walk(fi.node):
            if isinstance(st, ast.If) and idx_var and unparse(st.test) == "%s < 0" % idx_var and any(
                    isinstance(x, ast.AugAssign) and unparse(x) == "%s += len(self)" % idx_var for x in st.body):
                norm_names.add(idx_var)
        facts[fi.name] = (idx_var, guard, norm_names)
        r1.require(guard is not None, fi, "bounds guard", "%s.%s lost its bounds guard (index >= len or index < -len -> IndexError)" % (CORE, fi.name))
    for nm, sites in who.items():
        for fi, c in sites:
            if fi.name not in facts:
                r1.fail_fn(fi, c, "mapping called from %s" % fi.name, "%s calls the index mapping directly" % fi.qual)
                continue
            idx_var, guard, norm_names = facts[fi.name]
            arg = c.args[0] if c.args else None
            in_slice = any(isinstance(a, ast.For) and isinstance(a.iter, ast.Call) and dotted(a.iter.func) == "range" and
                           [unparse(x) for x in a.iter.args] == ["start", "stop", "stride"] and isinstance(arg, ast.Name) and arg.id == a.target.id for a in ancestors(c))
            desc = {"function": fi.qual, "call": short(c), "line": c.lineno}
            if in_slice:
                # start, stop, stride come from <slice>.indices(len(self))
                ok = any(isinstance(st, ast.Assign) and unparse(st.targets[0]).strip("()") == "start, stop, stride" and isinstance(st.value, ast.Call) and
                         isinstance(st.value.func, ast.Attribute) and st.value.func.attr == "indices" and [unparse(x) for x in st.value.args] == ["len(self)"]
                         for st in ast.walk(fi.node))
                r1.require(ok, fi, "slice indices clamped to len(self)", "%s: the slice loop bounds do not come from <slice>.indices(len(self))" % fi.qual, c)
                desc["provenance"] = "range(*slice.indices(len(self)))"
                r1.instance(desc)
                continue
            if arg is not None and idx_var and _normalised(arg, idx_var, norm_names):
                # and the guard dominates the call
                cfg = cfg_of(fi.node)
                cn = cfg.node_of_expr(c)
                gn = cfg.nodes_of(guard)[0] if guard is not None else None
                okd = gn is not None and all(cfg.dominates(gn, x) for x in cn)
                r1.require(okd, fi, "guard dominates the mapping", "%s: the bounds guard does not precede %s" % (fi.qual, short(c)), c)
                desc["provenance"] = "guarded and normalised with % len(self)"
                r1.instance(desc)
            else:
                r1.fail_fn(fi, c, "raw index reaches the file mapping",
                           "%s passes %s to %s: a negative index is not normalised, so divmod(index, per_file) selects the wrong slot or a file named <path>_-1 "
                           "(visible when the length is not a multiple of the chunk size)" % (fi.qual, unparse(arg) if arg is not None else None, nm.split(".")[-1]), witness=desc)
    # the mapping itself
    for nm in ("_get_bytes_by_index", "_write_bytes_to_file"):
        f = ci.methods.get(nm)
        src = unparse(f.node)
        r1.require("file_id, offset = divmod(index, self.__item_num_in_one_file)" in src.replace("(file_id, offset)", "file_id, offset") and "file = self._get_file_by_id(file_id)" in src and
                   "offset_bytes = offset * self.__item_size" in src and "file.seek(offset_bytes, 0)" in src, f, "%s mapping" % nm,
                   "%s no longer maps index -> (file, offset) by divmod(index, items_per_file) and seeks to offset * item_size" % nm)
    gb = ci.methods["_get_bytes_by_index"]
    r1.require("ret = file.read(self.__item_size)" in unparse(gb.node) and "ret += b'\\x00' * (self.__item_size - len(ret))" in unparse(gb.node), gb, "short reads zero-filled",
               "_get_bytes_by_index no longer zero-fills a short read")
    wb = ci.methods["_write_bytes_to_file"]
    srcw = unparse(wb.node)
    r1.require("content = b'\\x00' * (self.__item_size - len(content)) + content" in srcw and "file.write(content)" in srcw, wb, "items left-padded to item_size",
               "_write_bytes_to_file no longer left-pads the item to item_size before writing")

    # ---------------------------------------------------------------- R19.2
    g = [st for st, exc in raising_ifs(wb) if exc == "ValueError" and "len(content) > self.__item_size" in unparse(st.test)]
    if r2.require(bool(g), wb, "oversized item refused", "_write_bytes_to_file no longer refuses an item longer than item_size"):
        cfg = cfg_of(wb.node)
        writes = [n.id for n in cfg.nodes if n.ast is not None and n.stmt is not None and any(
            isinstance(c.func, ast.Attribute) and c.func.attr in ("write", "seek") for c in calls_in_order(n.stmt if n.kind != "test" else n.ast))]
        r2.require(all(cfg.dominates(cfg.nodes_of(g[0])[0], w) for w in writes), wb, "size check precedes seek/write", "_write_bytes_to_file writes before checking the size")
    # slice branch of __setitem__
    tries = [st for st in ast.walk(set_.node) if isinstance(st, ast.Try)]
    if r2.require(len(tries) == 1, set_, "slice write inside try", "__setitem__ (slice) is no longer protected by a try block"):
        tr = tries[0]
        loop = next((x for x in tr.body if isinstance(x, ast.For)), None)
        body_src = [unparse(x) for x in (loop.body if loop else [])]
        ok = loop is not None and len(body_src) >= 2 and body_src[0] == "old_items.append(self[index])" and "self._write_bytes_to_file(index, next(value_iter))" in body_src[1]
        r2.require(ok, set_, "old item recorded before it is overwritten", "__setitem__ (slice): loop body is %s; each old item must be recorded before the write of the same index" % body_src)
        hs = tr.handlers
        stop = [h for h in hs if h.type is not None and unparse(h.type) == "StopIteration"]
        r2.require(bool(stop) and all(isinstance(x, ast.Pass) for x in stop[0].body) and hs.index(stop[0]) == 0, set_, "StopIteration is not a failure",
                   "__setitem__ (slice): running out of values must end the assignment quietly (first handler: except StopIteration: pass)")
        catch = [h for h in hs if h.type is None or unparse(h.type) in ("Exception", "BaseException")]
        okc = bool(catch) and [unparse(x) for x in catch[0].body] == ["self[%s] = old_items" % set_.params[1], "raise"]
        r2.require(okc, set_, "catch-all restores every recorded item and re-raises",
                   "__setitem__ (slice): the failure handler is %s; it must restore self[key] = old_items and re-raise" % ([unparse(x) for x in catch[0].body] if catch else [unparse(h.type) if h.type else None for h in hs]))
    # int path: type check and bounds before the write
    idx_var, guard, norm_names = facts["__setitem__"]
    tg = [st for st, exc in raising_ifs(set_) if exc == "TypeError" and "isinstance(%s, typing.ByteString)" % set_.params[2] in unparse(st.test)]
    if r2.require(bool(tg), set_, "non-bytes item refused", "__setitem__ (int) no longer refuses a non-bytes value with TypeError"):
        cfg = cfg_of(set_.node)
        int_writes = [x for fi_, c in who["self._write_bytes_to_file"] if fi_ is set_ and not any(isinstance(a, ast.Try) for a in ancestors(c)) for x in cfg.node_of_expr(c)]
        r2.require(bool(int_writes) and all(cfg.dominates(cfg.nodes_of(tg[0])[0], w) for w in int_writes), set_, "type check precedes the write", "__setitem__ (int) writes before checking the value's type")

    # ---------------------------------------------------------------- R19.3 closed marker
    wrap = repo.cls(PA, "SPFLBArray")
    marker = repo.cls(PA, "_ClosedFixedLengthBytesArray")
    bound = set()
    for nm, v in marker.attrs.items():
        if isinstance(v, ast.Name) and v.id == "closed":
            bound.add(nm)
        if isinstance(v, ast.Call) and dotted(v.func) == "_ClosedDescriptor":
            bound.add(nm)
    closed_fn = marker.methods.get("closed")
    r3.require(closed_fn is not None and any(isinstance(x, ast.Raise) for x in closed_fn.node.body), closed_fn or list(marker.methods.values())[0], "marker function raises",
               "_ClosedFixedLengthBytesArray.closed no longer raises")
    desc_cls = repo.cls(PA, "_ClosedDescriptor")
    for m in ("__get__", "__set__"):
        f = desc_cls.methods.get(m)
        r3.require(f is not None and any(isinstance(x, ast.Raise) for x in f.node.body), f or closed_fn, "descriptor %s raises" % m, "_ClosedDescriptor.%s no longer raises" % m)
    used = {}
    for fi in wrap.methods.values():
        for n in ast.walk(fi.node):
            base = None
            if isinstance(n, ast.Attribute) and unparse(n.value) == "self.__underlying_array":
                used.setdefault(n.attr, fi)
            if isinstance(n, ast.Subscript) and unparse(n.value) == "self.__underlying_array":
                used.setdefault("__setitem__" if isinstance(n.ctx, ast.Store) else "__getitem__", fi)
            if isinstance(n, ast.Call) and dotted(n.func) in ("len", "iter") and n.args and unparse(n.args[0]) == "self.__underlying_array":
                used.setdefault("__%s__" % dotted(n.func), fi)
    for op, fi in sorted(used.items()):
        r3.require(op in bound, fi, "marker covers %s" % op, "SPFLBArray.%s uses `%s` of the underlying array, which the closed marker does not bind to its raising function: "
                   "the operation would not raise on a closed array" % (fi.name, op))
    r3.instance({"operations_used": sorted(used), "marker_binds": sorted(bound)})
    for nm in ("close", "release"):
        f = wrap.methods.get(nm)
        if f is None:
            r3.fail(PA, "SPFLBArray", 0, "%s missing" % nm, "SPFLBArray.%s vanished" % nm)
            continue
        tr = next((st for st in f.node.body if isinstance(st, ast.Try)), None)
        ok = tr is not None and tr.finalbody and "self.__underlying_array = _ClosedFixedLengthBytesArray()" in unparse(ast.Module(body=tr.finalbody, type_ignores=[]))
        r3.require(ok, f, "%s installs the marker in a finally" % nm, "SPFLBArray.%s does not install the closed marker on every path" % nm)
    # the public operations go through the guarded attribute (no cached copies)
    for nm in ("__getitem__", "__setitem__", "__len__", "__iter__"):
        f = wrap.methods.get(nm)
        r3.require(f is not None and "self.__underlying_array" in unparse(f.node), f or list(wrap.methods.values())[0], "%s uses the guarded attribute" % nm,
                   "SPFLBArray.%s does not go through self.__underlying_array" % nm)

    # ---------------------------------------------------------------- R19.4 files
    gf = ci.methods.get("_get_file_by_id")
    srcg = unparse(gf.node)
    r4.require("file_path = self.__local_path + f'_{file_id}'" in srcg, gf, "chunk file name", "_get_file_by_id opens %s; expected <local_path>_<file_id>" % [l for l in srcg.splitlines() if "file_path =" in l])
    r4.require("open(file_path, 'rb+')" in srcg and "except FileNotFoundError" in srcg and "open(file_path, 'wb+')" in srcg and "self.__opened_files[file_id] = file" in srcg, gf,
               "chunk opened read/write, created on demand, cached", "_get_file_by_id no longer opens rb+ / creates wb+ / caches the handle")
    init = ci.methods.get("__init__")
    srci = unparse(init.node)
    r4.require("if os.path.exists(self.__local_path + '_meta'):" in srci and "raise FileExistsError" in srci, init, "create refuses an existing array", "create mode no longer refuses an existing meta file")
    r4.require("open(local_path + '_meta', 'rb+')" in srci and "raise FileNotFoundError" in srci, init, "open refuses a missing array", "open mode no longer refuses a missing meta file")
    r4.require("isinstance(pickled_object, typing.Tuple) and len(pickled_object) == 3" in srci and "isinstance(self.__item_size, int)" in srci, init, "meta validated",
               "open mode no longer validates the metadata tuple")
    r4.require("pickle.dump((self.__item_size, self.__array_len, self.__item_num_in_one_file), meta_file)" in srci, init, "meta written at creation", "create mode no longer writes (item_size, array_len, items_per_file)")
    r4.require("self.__file_num = math.ceil(self.__array_len / self.__item_num_in_one_file)" in srci, init, "file count", "the number of chunk files is no longer ceil(len / per_file)")
    for fi in ci.methods.values():
        for c in ast.walk(fi.node):
            if isinstance(c, ast.Call) and dotted(c.func) in ("open", "os.unlink", "os.remove", "os.rename", "os.replace"):
                arg = unparse(c.args[0]) if c.args else ""
                ok = arg in ("local_path + '_meta'", "file_path", "meta_file_path", "chunk_file_path", "self.__local_path + '_meta'")
                r4.require(ok, fi, "file access %s" % arg, "%s touches %s, which is not one of the array's own files" % (fi.qual, arg), c)
    rel = ci.methods.get("release")
    srcr = unparse(rel.node)
    r4.require("self.close()" in srcr and "meta_file_path = self.__local_path + '_meta'" in srcr and "chunk_file_path = self.__local_path + f'_{chunk_file_id}'" in srcr and
               "for chunk_file_id in range(self.__file_num)" in srcr, rel, "release removes exactly the array's files", "release no longer closes and removes <path>_meta and <path>_<k>")

    # ---------------------------------------------------------------- R19.5
    iface = repo.cls(IF, "PersistentFixedLengthBytesArray")
    dl = iface.methods.get("__delitem__")
    srcd = unparse(dl.node)
    r5.require("start, stop, stride = i.indices(len(self))" in srcd.replace("(start, stop, stride)", "start, stop, stride") and "for index in range(start, stop, stride)" in srcd and srcd.count("self._set_all_zeros_by_index(index)") == 2, dl,
               "deletion zero-fills each index", "__delitem__ no longer zero-fills every selected index")
    z = iface.methods.get("_set_all_zeros_by_index")
    r5.require(unparse(z.node.body[-1]) == "self[index] = b'\\x00' * self.item_size", z, "zero-fill through __setitem__", "_set_all_zeros_by_index no longer assigns item_size zero bytes through __setitem__")
    cl = iface.methods.get("clear")
    r5.require("for i in range(len(self))" in unparse(cl.node) and "del self[i]" in unparse(cl.node), cl, "clear covers range(len(self))", "clear no longer deletes every index")
    it = iface.methods.get("__iter__")
    r5.require("for index in range(len(self))" in unparse(it.node) and "yield self[index]" in unparse(it.node), it, "iteration covers range(len(self))", "__iter__ no longer yields every index")
    # subclasses do not override clear / __delitem__ with shortcuts
    for c2 in (wrap, ci):
        for nm in ("clear", "__delitem__", "_set_all_zeros_by_index"):
            if nm in c2.methods:
                r5.fail_fn(c2.methods[nm], c2.methods[nm].node, "%s overridden in %s" % (nm, c2.name),
                           "%s.%s overrides the zero-fill deletion of the interface; deletion must go through __setitem__ of every index (an override that touches only "
                           "opened chunk files leaves data behind after a reopen)" % (c2.name, nm))
    return rules


# ----------------------------------------------------------------------------- self-test variants
from ..selftest import V  # noqa: E402

VARIANTS = [
    V("getitem-raw-index", "fire", "R19.1", [(PA, CORE + ".__getitem__", "ret = self._get_bytes_by_index(index % len(self))", "ret = self._get_bytes_by_index(index)")]),
    V("setitem-raw-index", "fire", "R19.1", [(PA, CORE + ".__setitem__", "        actual_index = index % len(self)\n        self._write_bytes_to_file(actual_index, bytes(value))", "        self._write_bytes_to_file(index, bytes(value))")]),
    V("rollback-partial", "fire", "R19.2", [(PA, CORE + ".__setitem__", "                self[key] = old_items\n", "                self[key] = old_items[:-1]\n")]),
    V("rollback-only-valueerror", "fire", "R19.2", [(PA, CORE + ".__setitem__", "            except:  # Other exceptions, roll back the array state to before it was written", "            except ValueError:")]),
    V("old-item-recorded-after-write", "fire", "R19.2", [(PA, CORE + ".__setitem__",
      "                    old_items.append(self[index])\n                    self._write_bytes_to_file(index, next(value_iter))", "                    self._write_bytes_to_file(index, next(value_iter))\n                    old_items.append(self[index])")]),
    V("marker-forgets-len", "fire", "R19.3", [(PA, "_ClosedFixedLengthBytesArray", "__iter__ = __len__ = __getitem__ = __setitem__ = release = close = closed", "__iter__ = __getitem__ = __setitem__ = release = close = closed\n\n    def __len__(self):\n        return 0")]),
    V("close-without-marker", "fire", "R19.3", [(PA, "SPFLBArray.close", "                self.__underlying_array = _ClosedFixedLengthBytesArray()", "                pass")]),
    V("chunk-file-named-by-offset", "fire", "R19.4", [(PA, CORE + "._get_file_by_id", "file_path = self.__local_path + f\"_{file_id}\"", "file_path = self.__local_path + f\"_{file_id * self._SimpleMultiFilePersistentFixedLengthBytesArray__item_num_in_one_file}\"")]),
    V("fast-clear-override", "fire", "R19.5", [(PA, "SPFLBArray.sync", "    def sync(self) -> None:", "    def clear(self):\n        self.__underlying_array.truncate_opened()\n\n    def sync(self) -> None:")]),
    V("size-check-after-write", "fire", "R19.2", [(PA, CORE + "._write_bytes_to_file",
      "        if len(content) > self.__item_size:\n            raise ValueError(\n                \"The length of the data to be written is greater than the item length of the persistent array\"\n            )\n", "")]),
    V("benign-inplace-normalisation", "silent", None, [(PA, CORE + ".__getitem__", "        ret = self._get_bytes_by_index(index % len(self))", "        if index < 0:\n            index += len(self)\n        ret = self._get_bytes_by_index(index)")]),
]
