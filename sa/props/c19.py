"""C19 - persistent fixed-length byte array behaves like a list, on disk and after reopen.

Decides the structural conditions of list-equivalence: index provenance (every index reaching the
index -> (file, offset) mapping is provably in range), failure atomicity of slice assignment, totality
of the closed marker, and file-name discipline.  The equivalence over operation histories itself is
not decidable statically.  See DESIGN.md section 3, C19.
"""
import ast

from ..core import Rule
from ..model import AnalysisError, dotted, unparse, short, ancestors
from ..cfg import cfg_of, calls_in_order
from .. import straight as S
from ..facts import facts_of
from ..contract import entry, refusals, unpermitted, isinstance_of, describe_alt
from ..pathsum import summarize
from .. import shape
from ..terms import fn_terms
from ..model import inline_locals

EXPLANATION = ("(1) Index provenance: every argument reaching _get_bytes_by_index / _write_bytes_to_file (hence divmod(index, "
               "per_file) and the chunk file name) is an element of range(*slice.indices(len(self))) or an integer that passed "
               "the bounds guard and was normalised with % len(self); __getitem__ and __setitem__ must apply the same guard and "
               "normalisation (sibling cross-check).  (2) Slice assignment records the old item before overwriting it, restores "
               "all recorded items in a catch-all handler and re-raises; StopIteration is not a failure; type and size checks "
               "precede any write.  (3) Every operation SPFLBArray performs on its underlying array is bound to the raising "
               "function / descriptor of the closed marker, and close()/release() install the marker on every path.  (4) Only "
               "<path>_meta and <path>_<k> with k from divmod of a proven index are opened or unlinked; create refuses an existing "
               "meta; open validates it.  (5) Deletion is zero-fill through __setitem__; clear covers range(len(self)).")
ASSUMPTIONS = ["equivalence with the list model over operation histories is not decided; only its structural preconditions are"]

PA = "data_persistence/persistent_array.py"
IF = "data_persistence/interfaces.py"
CORE = "SimpleMultiFilePersistentFixedLengthBytesArray"


def _calls(fi, name):
    return [c for c in ast.walk(fi.node) if isinstance(c, ast.Call) and (dotted(c.func) or "") == name]


LEN_TERMS = [("call", "len", (("param", "self"),), ()), ("attr", ("param", "self"), "__array_len")]
LEN_TEXTS = ["len(self)", "self.__array_len"]


def _slice_provenance(t):
    """t is the loop variable of range(*<slice>.indices(len(self)))"""
    if t[0] != "rangevar":
        return False
    a = t[1]

    def ind(x):
        return x[0] == "mcall" and x[2] == "indices" and len(x[3]) == 1 and x[3][0] in LEN_TERMS and x[1][0] == "param"
    if len(a) == 3 and all(x[0] == "proj" and x[2] == i and ind(x[1]) for i, x in enumerate(a)) and len({x[1] for x in a}) == 1:
        return True
    if len(a) == 1 and a[0][0] == "star" and ind(a[0][1]):
        return True
    return False


def _int_provenance(fi, F, call, nid):
    """The argument is <idx> % len(self) reached only with -len <= idx < len established, or <idx> after the in-place
    normalisation `if idx < 0: idx += len(self)` entered with the same bounds.  -> (ok, description)"""
    arg = call.args[0] if call.args else None
    if arg is None:
        return False, "no argument"
    e = inline_locals(fi.node, arg)
    if isinstance(e, ast.BinOp) and isinstance(e.op, ast.Mod) and unparse(e.right) in LEN_TEXTS:
        L, N = unparse(e.left), unparse(e.right)
        for n_txt in LEN_TEXTS:
            if F.one_of(nid, [(("<", L, n_txt), True)]) and F.one_of(nid, [(("<", L, "-" + n_txt), False)]):
                return True, "guarded and normalised with % len(self)"
        return False, "%s %% %s is computed without -len <= %s < len being established" % (L, N, L)
    if isinstance(arg, ast.Name):
        L = arg.id
        for st in ast.walk(fi.node):
            if isinstance(st, ast.If) and not st.orelse and len(st.body) == 1 and isinstance(st.body[0], ast.AugAssign) and isinstance(st.body[0].op, ast.Add) and \
                    unparse(st.body[0].target) == L and unparse(st.body[0].value) in LEN_TEXTS and isinstance(st.test, ast.Compare) and unparse(st.test) == "%s < 0" % L:
                tn = F.cfg.nodes_of(st)
                if not tn:
                    continue
                n_txt = unparse(st.body[0].value)
                bounded = any(F.one_of(tn[0], [(("<", L, x), True)]) and F.one_of(tn[0], [(("<", L, "-" + x), False)]) for x in LEN_TEXTS)
                dominated = not F.cfg.can_reach(F.cfg.entry, nid, avoid=set(tn))
                later = [m.id for m in F.cfg.nodes if m.id != F.cfg.nodes_of(st.body[0])[0] and L in F._killed(m) and F.cfg.can_reach(tn[0], m.id) and F.cfg.can_reach(m.id, nid)]
                if bounded and dominated and not later:
                    return True, "guarded and normalised in place (if idx < 0: idx += %s)" % n_txt
    if isinstance(arg, ast.Name):
        # the same normalisation into another name:  if idx < 0: a = idx + len(self)  else: a = idx     (also written as a conditional expression)
        A = arg.id
        for st in ast.walk(fi.node):
            if not (isinstance(st, ast.If) and len(st.body) == 1 and len(st.orelse) == 1 and isinstance(st.test, ast.Compare) and len(st.test.ops) == 1):
                continue
            t_ = st.test
            L = None
            if isinstance(t_.ops[0], ast.Lt) and isinstance(t_.comparators[0], ast.Constant) and t_.comparators[0].value == 0:
                L, neg, pos = unparse(t_.left), st.body[0], st.orelse[0]
            elif isinstance(t_.ops[0], ast.GtE) and isinstance(t_.comparators[0], ast.Constant) and t_.comparators[0].value == 0:
                L, neg, pos = unparse(t_.left), st.orelse[0], st.body[0]
            if L is None or not all(isinstance(x, ast.Assign) and len(x.targets) == 1 and unparse(x.targets[0]) == A for x in (neg, pos)):
                continue
            nv = neg.value
            plus_len = isinstance(nv, ast.BinOp) and isinstance(nv.op, ast.Add) and ({unparse(nv.left), unparse(nv.right)} & set(LEN_TEXTS)) and L in (unparse(nv.left), unparse(nv.right))
            if not plus_len or unparse(pos.value) != L:
                continue
            tn = F.cfg.nodes_of(st)
            if not tn:
                continue
            bounded = any(F.one_of(tn[0], [(("<", L, x), True)]) and F.one_of(tn[0], [(("<", L, "-" + x), False)]) for x in LEN_TEXTS)
            dominated = not F.cfg.can_reach(F.cfg.entry, nid, avoid=set(tn))
            own = {F.cfg.nodes_of(neg)[0], F.cfg.nodes_of(pos)[0]}
            later = [m.id for m in F.cfg.nodes if m.id not in own and (A in F._killed(m) or L in F._killed(m)) and F.cfg.can_reach(tn[0], m.id) and F.cfg.can_reach(m.id, nid)]
            if bounded and dominated and not later:
                return True, "guarded and normalised by cases (idx + len(self) if idx < 0 else idx)"
    return False, "%s is neither an element of range(*slice.indices(len(self))) nor a guarded index normalised with %% len(self)" % unparse(arg)


def check(repo):
    r1 = Rule("R19.1", "index provenance: only proven in-range indices reach the file mapping")
    r2 = Rule("R19.2", "failure atomicity of slice assignment; checks precede writes")
    r3 = Rule("R19.3", "closed marker is total and installed on every path")
    r4 = Rule("R19.4", "only the array's own files are touched; metadata written once and validated")
    r5 = Rule("R19.5", "deletion is zero-fill through __setitem__; clear covers the whole range")
    rules = [r1, r2, r3, r4, r5]
    ci = repo.cls(PA, CORE)
    get, set_ = ci.methods.get("__getitem__"), ci.methods.get("__setitem__")
    if get is None or set_ is None:
        raise AnalysisError("%s.__getitem__/__setitem__ vanished" % CORE)
    _check_provenance(repo, r1, ci)
    _check_mapping(repo, r1, r2, ci)
    _check_atomicity(repo, r2, ci, set_)
    _check_marker(repo, r3)
    _check_files(repo, r4, ci)
    _check_delete(repo, r5, ci)
    return rules


# ---------------------------------------------------------------------------------------------------------------- R19.1
def _check_provenance(repo, r1, ci):
    n_slice = n_int = 0
    for fi in ci.methods.values():
        ft = None
        F = None
        for nm in ("self._get_bytes_by_index", "self._write_bytes_to_file"):
            for c in _calls(fi, nm):
                if ft is None:
                    ft, F = fn_terms(repo, fi), facts_of(fi)
                nids = [i for i in ft.cfg.node_of_expr(c) if i in F.ins] or ft.cfg.node_of_expr(c)
                if not nids or not c.args:
                    r1.fail_fn(fi, c, "mapping call without index", "%s calls %s without an index" % (fi.qual, nm))
                    continue
                nid = nids[0]
                env = None
                try:
                    from .c02 import _comp_env
                    env = _comp_env(ft, c, nid)
                except Exception:
                    env = None
                t = ft.term(c.args[0], nid, env) if env else ft.term(c.args[0], nid)
                desc = {"function": fi.qual, "call": short(c), "line": c.lineno}
                if _slice_provenance(t):
                    desc["provenance"] = "range(*slice.indices(len(self)))"
                    n_slice += 1
                    r1.ok(desc)
                    continue
                ok, why = _int_provenance(fi, F, c, nid)
                if ok:
                    desc["provenance"] = why
                    n_int += 1
                    r1.ok(desc)
                else:
                    r1.fail_fn(fi, c, "raw index reaches the file mapping",
                               "%s passes %s to %s: %s; an index outside [0, len) makes divmod(index, per_file) select the wrong slot or a file named <path>_-1 "
                               "(visible when the length is not a multiple of the chunk size)" % (fi.qual, unparse(c.args[0]), nm.split(".")[-1], why), witness=desc)
    r1.require(n_slice >= 2 and n_int >= 2, ci.methods["__getitem__"], "mapping call sites",
               "expected slice and int call sites of the index mapping in __getitem__/__setitem__ (found %d slice, %d int)" % (n_slice, n_int))


def _check_mapping(repo, r1, r2, ci):
    """index -> (file, offset) by divmod(index, items_per_file); seek to offset * item_size; short reads right-filled,
    items left-padded to item_size; an oversized item is refused before anything is written."""
    PER = ("attr", ("var", "self"), "__item_num_in_one_file")
    ISZ = ("attr", ("var", "self"), "__item_size")
    Z = ("const", b"\x00")
    for nm in ("_get_bytes_by_index", "_write_bytes_to_file"):
        f = ci.methods.get(nm)
        if f is None:
            raise AnalysisError("%s.%s vanished" % (CORE, nm))
        idx = ("var", f.params[1])
        DM = ("call", ("fn", "divmod"), (idx, PER), ())
        FILE = ("call", ("fn", "self._get_file_by_id"), (("proj", DM, 0),), ())
        FILE2 = ("call", ("fn", "self._get_file_by_id"), (("op", "FloorDiv", idx, PER),), ())
        offs = [("op", "Mult", ("proj", DM, 1), ISZ), ("op", "Mult", ISZ, ("proj", DM, 1)), ("op", "Mult", ("op", "Mod", idx, PER), ISZ), ("op", "Mult", ISZ, ("op", "Mod", idx, PER))]
        paths = [ps for ps in summarize(f) if ps.exc is None]
        okm = bool(paths)
        for ps in paths:
            seeks = [c for _n, c, _f in ps.calls if c[0] == "call" and c[1][0] == "method" and c[1][2] == "seek"]
            if not seeks or not all(c[1][1] in (FILE, FILE2) and c[2] and c[2][0] in offs and (len(c[2]) == 1 or c[2][1] in (("const", 0), ("fn", "os.SEEK_SET"), ("fn", "io.SEEK_SET"))) for c in seeks):
                okm = False
            if nm == "_get_bytes_by_index":
                R_ = [("call", ("method", fl, "read"), (ISZ,), ()) for fl in (FILE, FILE2)]
                want = [("cat", (r_, m)) for r_ in R_ for m in [("op", "Mult", Z, ("op", "Sub", ISZ, ("call", ("fn", "len"), (r_,), ()))), ("op", "Mult", ("op", "Sub", ISZ, ("call", ("fn", "len"), (r_,), ())), Z)]]
                want += [("call", ("method", r_, "ljust"), (ISZ, Z), ()) for r_ in R_]
                if ps.ret not in want:
                    okm = False
                    r1.fail_fn(f, f.node, "short reads zero-filled", "_get_bytes_by_index returns %s; expected file.read(item_size) right-filled with zero bytes to item_size" % (S.show(ps.ret)[:140] if ps.ret else None))
            else:
                c0 = ("var", f.params[2])
                padded = [("cat", (m, c0)) for m in [("op", "Mult", Z, ("op", "Sub", ISZ, ("call", ("fn", "len"), (c0,), ()))), ("op", "Mult", ("op", "Sub", ISZ, ("call", ("fn", "len"), (c0,), ())), Z)]]
                padded += [("call", ("method", c0, "rjust"), (ISZ, Z), ())]
                writes = [c for _n, c, _f in ps.calls if c[0] == "call" and c[1][0] == "method" and c[1][2] == "write"]
                if not writes or not all(c[1][1] in (FILE, FILE2) and c[2] and c[2][0] in padded for c in writes):
                    okm = False
                    r1.fail_fn(f, f.node, "items left-padded to item_size", "_write_bytes_to_file writes %s; expected the item left-padded with zero bytes to item_size" % (
                        [S.show(c[2][0])[:120] for c in writes if c[2]]))
        r1.require(okm, f, "%s mapping" % nm, "%s no longer maps index -> (file, offset) by divmod(index, items_per_file) and seeks to offset * item_size" % nm)
    wb = ci.methods["_write_bytes_to_file"]
    Fw = facts_of(wb)
    cp = entry(wb.params[2])
    big = lambda truth: (lambda k, t: k == ("<", "self.__item_size", "len(%s)" % cp) and t == truth)  # noqa: E731
    if r2.require(bool(refusals(Fw, big(True))), wb, "oversized item refused", "_write_bytes_to_file no longer refuses an item longer than item_size"):
        io = [n.id for n in Fw.cfg.nodes if n.id in Fw.ins and n.ast is not None and n.stmt is not None and any(
            isinstance(c.func, ast.Attribute) and c.func.attr in ("write", "seek", "truncate") for c in calls_in_order(n.stmt if n.kind != "test" else n.ast))]
        r2.require(bool(io) and not unpermitted(Fw, io, [big(False)]), wb, "size check precedes seek/write", "_write_bytes_to_file writes before checking the size")


# ---------------------------------------------------------------------------------------------------------------- R19.2
def _check_atomicity(repo, r2, ci, set_):
    key, val = set_.params[1], set_.params[2]
    cfg = cfg_of(set_.node)
    tries = [st for st in ast.walk(set_.node) if isinstance(st, ast.Try) and any(
        isinstance(c, ast.Call) and dotted(c.func) == "self._write_bytes_to_file" for b in st.body for c in ast.walk(b))]
    if r2.require(len(tries) == 1, set_, "slice write inside try", "__setitem__ (slice) is no longer protected by a try block"):
        tr = tries[0]
        # (a) inside the try body: the old item is recorded before the write of the same index
        olds = None
        okrec = False
        for lp in [x for b in tr.body for x in ast.walk(b) if isinstance(x, (ast.For, ast.While))]:
            rec = [c for c in ast.walk(lp) if isinstance(c, ast.Call) and isinstance(c.func, ast.Attribute) and c.func.attr == "append" and len(c.args) == 1 and
                   isinstance(c.args[0], ast.Subscript) and unparse(c.args[0].value) == "self"]
            wr = [c for c in ast.walk(lp) if isinstance(c, ast.Call) and dotted(c.func) == "self._write_bytes_to_file"]
            if rec and wr:
                rn, wn = cfg.node_of_expr(rec[0]), cfg.node_of_expr(wr[0])
                same_idx = wr[0].args and unparse(rec[0].args[0].slice) == unparse(wr[0].args[0])
                if rn and wn and same_idx and all(not cfg.can_reach(cfg.nodes_of(lp)[0], w, avoid=set(rn)) for w in wn if cfg.nodes_of(lp)):
                    okrec = True
                    olds = unparse(rec[0].func.value)
        # (a') the items written are the caller's items as given: a conversion (bytes(x), str(x).encode()) would turn a value of the
        #      wrong type into zero bytes instead of letting the write fail and roll back
        ftS = fn_terms(repo, set_)
        for c in [c for b in tr.body for c in ast.walk(b) if isinstance(c, ast.Call) and dotted(c.func) == "self._write_bytes_to_file" and len(c.args) >= 2]:
            nidc = ftS.cfg.node_of_expr(c)
            t = ftS.term(c.args[1], nidc[0]) if nidc else None
            from ..terms import walk as twalk
            conv = [x[1] for x in twalk(t) if isinstance(x, tuple) and x and x[0] == "call" and x[1] not in ("next", "iter")] if t is not None else ["?"]
            from_value = t is not None and any(x == ("param", val) for x in twalk(t))
            r2.require(from_value and not conv, set_, "slice items written as given",
                       "__setitem__ (slice) writes %s: the caller's items must reach the writer unconverted, so that an item of the wrong type fails (and rolls the slice back) "
                       "as it does for an integer index" % unparse(c.args[1]), c)
        r2.require(okrec, set_, "old item recorded before it is overwritten",
                   "__setitem__ (slice): each old item must be recorded (self[index] appended to the undo list) before the write of the same index")
        hs = tr.handlers
        catch = [h for h in hs if h.type is None or unparse(h.type) in ("Exception", "BaseException")]
        okc = False
        if catch and olds:
            h = catch[0]
            restores = [st for st in h.body if isinstance(st, ast.Assign) and len(st.targets) == 1 and isinstance(st.targets[0], ast.Subscript) and
                        unparse(st.targets[0].value) == "self" and unparse(st.targets[0].slice) == key and unparse(st.value) == olds]
            reraise = bool(h.body) and isinstance(h.body[-1], ast.Raise) and (h.body[-1].exc is None or (h.name and unparse(h.body[-1].exc) == h.name))
            okc = bool(restores) and reraise
        r2.require(okc, set_, "catch-all restores every recorded item and re-raises",
                   "__setitem__ (slice): the failure handler is %s; it must restore self[key] = <all recorded items> and re-raise" % (
                       [unparse(x) for x in catch[0].body] if catch else [unparse(h.type) if h.type else None for h in hs]))
        uses_next = any(isinstance(c, ast.Call) and dotted(c.func) == "next" for b in tr.body for c in ast.walk(b))
        if uses_next:
            stop = [h for h in hs if h.type is not None and "StopIteration" in unparse(h.type)]
            quiet = bool(stop) and not any(isinstance(x, (ast.Raise, ast.Assign)) for b in stop[0].body for x in ast.walk(b)) and (not catch or hs.index(stop[0]) < hs.index(catch[0]))
            r2.require(quiet, set_, "StopIteration is not a failure",
                       "__setitem__ (slice): running out of values must end the assignment quietly (an `except StopIteration` before the catch-all, without restore / re-raise)")
    # int path: the value is a byte string before it is written
    F = facts_of(set_)
    isb = isinstance_of(entry(val), True, types=("typing.ByteString", "ByteString", "collections.abc.ByteString", "(bytes, bytearray)", "(bytearray, bytes)", "bytes"))
    int_writes = []
    for c in _calls(set_, "self._write_bytes_to_file"):
        if not any(isinstance(a, ast.Try) for a in ancestors(c)):
            int_writes += [i for i in cfg.node_of_expr(c) if i in F.ins]
    if r2.require(bool(refusals(F, isinstance_of(entry(val), False), ("TypeError",))), set_, "non-bytes item refused", "__setitem__ (int) no longer refuses a non-bytes value with TypeError"):
        r2.require(bool(int_writes) and not unpermitted(F, int_writes, [isb]), set_, "type check precedes the write", "__setitem__ (int) writes before checking the value's type")


# ---------------------------------------------------------------------------------------------------------------- R19.3
def _check_marker(repo, r3):
    wrap = repo.cls(PA, "SPFLBArray")
    marker = repo.cls(PA, "_ClosedFixedLengthBytesArray")
    bound = set()
    closed_fn = marker.methods.get("closed")
    raising_fns = {n for n, f in marker.methods.items() if f.node.body and all(p.exc is not None for p in summarize(f)) and summarize(f)}
    for st in marker.node.body:
        if isinstance(st, ast.Assign):
            v = st.value
            if (isinstance(v, ast.Name) and v.id in raising_fns) or (isinstance(v, ast.Call) and dotted(v.func) == "_ClosedDescriptor"):
                for t in st.targets:
                    for x in ast.walk(t):
                        if isinstance(x, ast.Name):
                            bound.add(x.id)
    for n in raising_fns:
        if n.startswith("__") or n in ("close", "release"):
            bound.add(n)
    r3.require(bool(raising_fns), closed_fn or list(marker.methods.values())[0], "marker function raises", "_ClosedFixedLengthBytesArray has no raising function any more")
    desc_cls = repo.cls(PA, "_ClosedDescriptor")
    for m in ("__get__", "__set__"):
        f = desc_cls.methods.get(m)
        ps = summarize(f) if f is not None else []
        r3.require(f is not None and bool(ps) and all(p.exc is not None for p in ps), f or closed_fn, "descriptor %s raises" % m, "_ClosedDescriptor.%s no longer raises" % m)
    used = {}
    for fi in wrap.methods.values():
        for n in ast.walk(fi.node):
            if isinstance(n, ast.Attribute) and unparse(n.value) == "self.__underlying_array":
                used.setdefault(n.attr, fi)
            if isinstance(n, ast.Subscript) and unparse(n.value) == "self.__underlying_array":
                used.setdefault("__setitem__" if isinstance(n.ctx, ast.Store) else "__getitem__", fi)
            if isinstance(n, ast.Call) and dotted(n.func) in ("len", "iter") and n.args and unparse(n.args[0]) == "self.__underlying_array":
                used.setdefault("__%s__" % dotted(n.func), fi)
    for op, fi in sorted(used.items()):
        r3.require(op in bound, fi, "marker covers %s" % op, "SPFLBArray.%s uses `%s` of the underlying array, which the closed marker does not bind to its raising function: "
                   "the operation would not raise on a closed array" % (fi.name, op))
    r3.instance({"operations_used": sorted(used), "marker_binds": sorted(bound)})
    for nm in ("close", "release"):
        f = wrap.methods.get(nm)
        if f is None:
            r3.fail(PA, "SPFLBArray", 0, "%s missing" % nm, "SPFLBArray.%s vanished" % nm)
            continue
        cfg = cfg_of(f.node)
        marks = set()
        for n in cfg.nodes:
            if n.kind == "stmt" and isinstance(n.stmt, ast.Assign) and any(unparse(t) == "self.__underlying_array" for t in n.stmt.targets):
                v = n.stmt.value
                if (isinstance(v, ast.Call) and dotted(v.func) == "_ClosedFixedLengthBytesArray") or (isinstance(v, ast.Constant) and v.value is None):
                    marks.add(n.id)
        ok = bool(marks) and not cfg.can_reach(cfg.entry, cfg.exit, avoid=marks) and not cfg.can_reach(cfg.entry, cfg.raise_exit, avoid=marks)
        r3.require(ok, f, "%s installs the marker on every path" % nm, "SPFLBArray.%s does not install the closed marker on every path (normal and exceptional)" % nm)
    for nm in ("__getitem__", "__setitem__", "__len__", "__iter__"):
        f = wrap.methods.get(nm)
        r3.require(f is not None and any(isinstance(x, ast.Attribute) and unparse(x) == "self.__underlying_array" for x in ast.walk(f.node)), f or list(wrap.methods.values())[0],
                   "%s uses the guarded attribute" % nm, "SPFLBArray.%s does not go through self.__underlying_array" % nm)


# ---------------------------------------------------------------------------------------------------------------- R19.4
def _check_files(repo, r4, ci):
    # the path under which the array lives: self.__local_path and the constructor parameter it is taken from (whatever its name)
    LP = [("attr", ("param", "self"), "__local_path")]
    init_ = ci.methods.get("__init__")
    if init_ is not None:
        for st in ast.walk(init_.node):
            if isinstance(st, ast.Assign) and any(isinstance(t, ast.Attribute) and t.attr == "__local_path" and isinstance(t.value, ast.Name) and t.value.id == "self" for t in st.targets) \
                    and isinstance(st.value, ast.Name) and st.value.id in init_.params:
                LP.append(("param", st.value.id))
    if len(LP) == 1:
        LP.append(("param", "local_path"))
    METAS = [("binop", "Add", lp, ("const", "_meta")) for lp in LP]

    def chunk_id(t):
        """t = <local path> + f"_{X}"  ->  X"""
        if t[0] == "binop" and t[1] == "Add" and t[2] in LP:
            r = t[3]
            if r[0] == "fstr" and len(r[1]) == 2 and r[1][0] == ("const", "_"):
                return r[1][1]
            if r[0] == "binop" and r[1] == "Add" and r[2] == ("const", "_") and r[3][0] == "call" and r[3][1] == "str" and len(r[3][2]) == 1:
                return r[3][2][0]
        return None
    opens = {}
    for fi in ci.methods.values():
        ft = fn_terms(repo, fi)
        for n in ft.cfg.nodes:
            if n.stmt is None or n.ast is None:
                continue
            for c in ast.walk(n.ast if n.kind == "test" else n.stmt):
                if isinstance(c, ast.Call) and dotted(c.func) in ("open", "os.unlink", "os.remove", "os.rename", "os.replace", "os.path.exists", "shutil.rmtree", "os.rmdir", "os.mkdir") and c.args:
                    t = ft.term(c.args[0], n.id)
                    cid = chunk_id(t)
                    kind = "meta" if t in METAS else ("chunk" if cid is not None else None)
                    if kind is None:
                        r4.fail_fn(fi, c, "file access %s" % unparse(c.args[0]), "%s touches %s, which is not one of the array's own files (<path>_meta, <path>_<k>)" % (fi.qual, unparse(c.args[0])))
                        continue
                    opens.setdefault((fi.name, dotted(c.func), kind), []).append((c, cid, ft, n.id))
                    r4.ok({"function": fi.qual, "call": dotted(c.func), "file": kind})
    gf = ci.methods.get("_get_file_by_id")
    fid = ("param", gf.params[1])
    got = opens.get(("_get_file_by_id", "open", "chunk"), [])
    r4.require(bool(got) and all(cid == fid for _c, cid, _ft, _n in got), gf, "chunk file name", "_get_file_by_id opens %s; expected <local_path>_<file_id>" % [unparse(c.args[0]) for c, *_ in got])
    modes = set()
    for c, _cid, _ft, _n in got:
        m = c.args[1] if len(c.args) > 1 else next((k.value for k in c.keywords if k.arg == "mode"), None)
        if isinstance(m, ast.Constant):
            modes.add(m.value)
    cached = any(isinstance(st, ast.Assign) and any(isinstance(t, ast.Subscript) and unparse(t.value) == "self.__opened_files" and unparse(t.slice) == gf.params[1] for t in st.targets)
                 for st in ast.walk(gf.node))
    fnf = any(isinstance(h, ast.ExceptHandler) and h.type is not None and "FileNotFoundError" in unparse(h.type) for h in ast.walk(gf.node)) or \
        any(isinstance(c, ast.Call) and dotted(c.func) == "os.path.exists" for c in ast.walk(gf.node))
    r4.require({"rb+", "wb+"} <= modes and cached and fnf, gf, "chunk opened read/write, created on demand, cached", "_get_file_by_id no longer opens rb+ / creates wb+ / caches the handle")
    init = ci.methods.get("__init__")
    Fi = facts_of(init)
    mode = entry(init.params[2])
    exists = lambda truth: (lambda k, t: k[0] == "truth" and k[1].startswith("os.path.exists(") and k[1].endswith("'_meta')") and t == truth)  # noqa: E731
    r4.require(bool(refusals(Fi, exists(True), ("FileExistsError",))), init, "create refuses an existing array", "create mode no longer refuses an existing meta file")
    creates = [n for c, _cid, _ft, n in opens.get(("__init__", "open", "meta"), []) if any(
        isinstance(m, ast.Constant) and isinstance(m.value, str) and "w" in m.value for m in list(c.args[1:2]) + [k.value for k in c.keywords if k.arg == "mode"])]
    r4.require(bool(creates) and not unpermitted(Fi, [n for n in creates if n in Fi.ins], [exists(False)]), init, "meta created only when absent",
               "create mode opens the meta file for writing without having established that it does not exist")
    reads = [c for c, _cid, _ft, n in opens.get(("__init__", "open", "meta"), []) if any(
        isinstance(m, ast.Constant) and isinstance(m.value, str) and "r" in m.value for m in list(c.args[1:2]) + [k.value for k in c.keywords if k.arg == "mode"])]
    fnf_raise = [n for n, name, _f in Fi.raises() if name and name.split(".")[-1] == "FileNotFoundError"]
    r4.require(bool(reads) and bool(fnf_raise), init, "open refuses a missing array", "open mode no longer refuses a missing meta file")
    # validation of the metadata: a ValueError is raised when it is not a 3-tuple of ints
    def shape_bad(k, t):
        return (k[0] == "truth" and "isinstance(" in k[1] and ("Tuple" in k[1] or "tuple" in k[1]) and not t) or (k[0] == "==" and "3" in k[1:] and any(x.startswith("len(") for x in k[1:]) and not t)

    def ints_bad(k, t):
        if k[0] == "truth" and k[1].startswith("isinstance(") and k[1].endswith(", int)") and not t:
            return True
        # (the same asked of every element at once: all(isinstance(f, int) for f in <the unpickled object>))
        return k[0] == "truth" and k[1].replace("all((", "all(").startswith("all(isinstance(") and ", int) for " in k[1] and not t
    vraises = [alt for n, name, _f in Fi.raises() if name and name.split(".")[-1] == "ValueError" for alt in (Fi.alts(n.id) or [])]
    r4.require(any(any(shape_bad(k, t) for k, t in alt) for alt in vraises) and any(any(ints_bad(k, t) for k, t in alt) for alt in vraises), init, "meta validated",
               "open mode no longer validates the metadata tuple")
    fti = fn_terms(repo, init)
    dumped = False
    trio = [("attr", ("param", "self"), a) for a in ("__item_size", "__array_len", "__item_num_in_one_file")]
    for n in fti.cfg.nodes:
        if n.stmt is None or n.ast is None:
            continue
        for c in ast.walk(n.ast if n.kind == "test" else n.stmt):
            if isinstance(c, ast.Call) and dotted(c.func) == "pickle.dump" and c.args and isinstance(c.args[0], ast.Tuple) and [unparse(e) for e in c.args[0].elts] == [
                    "self.__item_size", "self.__array_len", "self.__item_num_in_one_file"]:
                dumped = True
            # ... or the tuple object itself from which the three slots are then filled, in this order
            if isinstance(c, ast.Call) and dotted(c.func) == "pickle.dump" and c.args and isinstance(c.args[0], ast.Name):
                nm = c.args[0].id
                built = [st for st in ast.walk(init.node) if isinstance(st, ast.Assign) and len(st.targets) == 1 and isinstance(st.targets[0], ast.Name) and st.targets[0].id == nm]
                unpacked = any(isinstance(st, ast.Assign) and len(st.targets) == 1 and isinstance(st.targets[0], ast.Tuple) and isinstance(st.value, ast.Name) and st.value.id == nm and
                               [unparse(e) for e in st.targets[0].elts] == ["self.__item_size", "self.__array_len", "self.__item_num_in_one_file"] for st in ast.walk(init.node))
                if unpacked and built and all(isinstance(st.value, ast.Tuple) and len(st.value.elts) == 3 or (isinstance(st.value, ast.Call) and dotted(st.value.func) == "pickle.load")
                                              for st in built):
                    dumped = True
    r4.require(dumped, init, "meta written at creation", "create mode no longer writes (item_size, array_len, items_per_file)")
    fnum = [st for st in ast.walk(init.node) if isinstance(st, (ast.Assign, ast.AnnAssign)) and unparse(st.targets[0] if isinstance(st, ast.Assign) else st.target) == "self.__file_num"]
    okn = False
    for st in fnum:
        v = inline_locals(init.node, st.value)
        t = S.canon(S.expr(v, {}))
        AL, PER = ("attr", ("var", "self"), "__array_len"), ("attr", ("var", "self"), "__item_num_in_one_file")
        if t in (("call", ("fn", "math.ceil"), (("op", "Div", AL, PER),), ()), ("op", "FloorDiv", ("op", "Sub", ("cat", (AL, PER)), ("const", 1)), PER),
                 ("op", "FloorDiv", ("cat", (AL, PER, ("const", -1))), PER), ("un", "USub", ("op", "FloorDiv", ("un", "USub", AL), PER))):
            okn = True
    r4.require(okn, init, "file count", "the number of chunk files is no longer ceil(len / per_file)")
    # reopening accepts whatever creation accepted: opening refuses a meta file for its form (missing, not unpicklable, not three integers),
    # never for the values - creation validates no values, so any value test at open rejects arrays that were created and used
    meta_attrs = {"__item_size", "__array_len", "__item_num_in_one_file"}
    from ..model import ancestors as _anc
    value_tests = []
    for rs in [x for x in ast.walk(init.node) if isinstance(x, ast.Raise)]:
        child = rs
        for a in _anc(rs):
            if isinstance(a, ast.If) and any(child is b or any(child is y for y in ast.walk(b)) for b in a.body + a.orelse):
                for cmp_ in [c for c in ast.walk(a.test) if isinstance(c, ast.Compare)]:
                    for o in [cmp_.left] + list(cmp_.comparators):
                        if isinstance(o, ast.Attribute) and o.attr in meta_attrs and any(isinstance(op, (ast.Lt, ast.LtE, ast.Gt, ast.GtE, ast.Eq, ast.NotEq)) for op in cmp_.ops):
                            value_tests.append((rs, cmp_))
            child = a
    create_validates = any(isinstance(c, ast.Compare) and any(isinstance(o, ast.Subscript) and unparse(o.value) == "kwargs" for o in [c.left] + list(c.comparators))
                           for c in ast.walk(init.node))
    if value_tests and not create_validates:
        rs, cmp_ = value_tests[0]
        r4.fail_fn(init, rs, "open refuses values that create accepted",
                   "__init__ refuses a stored layout because of `%s`, but creation accepts any (item_size, array_len, items_per_file): an array created with such values "
                   "(e.g. a chunk size larger than the length) works until it is closed and can never be opened again" % unparse(cmp_))
    else:
        r4.ok({"function": init.qual, "rule": "open validates the form of the metadata only"})
    # the chunk files are reached through the two item-level mapping functions only (a second way in - a block-wise reader, a cache
    # with its own arithmetic - is outside everything R19.1 establishes about indices, padding and offsets)
    from ..normalize import load_known
    ref_callers = set(load_known().get("refs", {}).get("%s::%s._get_file_by_id" % (PA, CORE), []))
    for fi2 in ci.methods.values():
        if fi2.name == "_get_file_by_id":
            continue
        for c2 in ast.walk(fi2.node):
            if isinstance(c2, ast.Call) and dotted(c2.func) == "self._get_file_by_id":
                if fi2.key in ref_callers:
                    r4.ok({"function": fi2.qual, "calls": "_get_file_by_id"})
                else:
                    r4.fail_fn(fi2, c2, "new way into the chunk files",
                               "%s obtains a chunk file itself (%s): items are read and written through _get_bytes_by_index / _write_bytes_to_file only, whose offset, "
                               "length and zero-padding per item R19.1 depends on" % (fi2.qual, short(c2)))
    # a cached handle is closed by close() only - or the cache slot is cleared with it: a closed handle left in the cache fails the next access
    for fi2 in ci.methods.values():
        if fi2.name in ("close", "release"):
            continue
        cfg2 = cfg_of(fi2.node)
        resets = {n.id for n in cfg2.nodes if n.kind == "stmt" and isinstance(n.stmt, ast.Assign) and isinstance(n.stmt.value, ast.Constant) and n.stmt.value.value is None and
                  any(isinstance(t, ast.Subscript) and unparse(t.value) == "self.__opened_files" for t in n.stmt.targets)}
        for n in cfg2.nodes:
            if n.stmt is None or n.ast is None:
                continue
            for c2 in ast.walk(n.ast if n.kind == "test" else n.stmt):
                if isinstance(c2, ast.Call) and isinstance(c2.func, ast.Attribute) and c2.func.attr == "close" and not c2.args:
                    recv = unparse(inline_locals(fi2.node, c2.func.value))
                    if "__opened_files" not in recv:
                        continue
                    if resets and cfg2.must_pass(n.id, resets):
                        r4.ok({"function": fi2.qual, "closes": recv, "slot": "cleared"})
                    else:
                        r4.fail_fn(fi2, c2, "cached handle closed but kept",
                                   "%s closes %s and leaves the closed handle in the cache: the next access to that chunk gets it back from the cache and fails with "
                                   "'seek of closed file' on an array that is still open" % (fi2.qual, recv))
    rel = ci.methods.get("release")
    rl = opens
    meta_rm = [x for (fn, call, kind), v in rl.items() if fn == "release" and call in ("os.unlink", "os.remove") and kind == "meta" for x in v]
    chunk_rm = [x for (fn, call, kind), v in rl.items() if fn == "release" and call in ("os.unlink", "os.remove") and kind == "chunk" for x in v]
    FN = ("attr", ("param", "self"), "__file_num")
    all_chunks = bool(chunk_rm) and all(cid is not None and ((cid[0] == "rangevar" and cid[1] in ((FN,), (("const", 0), FN))) or cid[0] == "counter") for _c, cid, _ft, _n in chunk_rm)
    closes = any(isinstance(c, ast.Call) and dotted(c.func) == "self.close" for c in ast.walk(rel.node))
    r4.require(closes and bool(meta_rm) and all_chunks, rel, "release removes exactly the array's files", "release no longer closes and removes <path>_meta and <path>_<k> for every k < file_num")


def _full_index_loop(fi):
    """(loop variable, loop statement) of a loop that visits 0, 1, .., len(self) - 1 in this order: `for v in range(len(self))`
    or the while loop with a counter from 0, step 1, condition counter < len(self) (the length may be read once before the loop)."""
    for lp in ast.walk(fi.node):
        if isinstance(lp, ast.For) and isinstance(lp.target, ast.Name) and unparse(lp.iter) in ("range(len(self))", "range(0, len(self))", "range(0, len(self), 1)"):
            return lp.target.id, lp
    try:
        sm = shape.summary(fi.node)
    except shape.NoShape:
        return None
    if sm.kind != "while" or sm.cond is None:
        return None
    c = sm.cond
    LEN = ("call", ("fn", "len"), (("var", "self"),), ())
    if c[0] == "cmp" and len(c[1]) == 1:
        v = None
        if c[1][0] == "Lt" and c[2][1] == LEN and c[2][0][0] == "var":
            v = c[2][0][1]
        if c[1][0] == "Gt" and c[2][0] == LEN and c[2][1][0] == "var":
            v = c[2][1][1]
        if v is not None and sm.init.get(v) == ("const", 0) and sm.step.get(v) == ("cat", (("var", v), ("const", 1))):
            # the counter is advanced at the end of the body: nothing after the increment may use it
            return v, sm.loop
    return None


# ---------------------------------------------------------------------------------------------------------------- R19.5
def _check_delete(repo, r5, ci):
    wrap = repo.cls(PA, "SPFLBArray")
    iface = repo.cls(IF, "PersistentFixedLengthBytesArray")
    dl = iface.methods.get("__delitem__")
    ftd = fn_terms(repo, dl)
    n_slice = n_int = 0
    for c in _calls(dl, "self._set_all_zeros_by_index"):
        nid = ftd.cfg.node_of_expr(c)
        t = ftd.term(c.args[0], nid[0]) if c.args and nid else None
        if t is not None and _slice_provenance(t):
            n_slice += 1
        elif t is not None and (t == ("call", "operator.index", (("param", dl.params[1]),), ()) or t == ("param", dl.params[1])):
            n_int += 1
        else:
            r5.fail_fn(dl, c, "deletion index", "__delitem__ zero-fills %s, which is neither the given index nor an element of the given slice" % (unparse(c.args[0]) if c.args else None))
    r5.require(n_slice >= 1 and n_int >= 1, dl, "deletion zero-fills each index", "__delitem__ no longer zero-fills every selected index")
    z = iface.methods.get("_set_all_zeros_by_index")
    okz = False
    for ps in summarize(z):
        for st in ps.env.get("__stores__", ()):
            if st[0] == "self" and st[1] == ("var", z.params[1]) and st[2] in (("op", "Mult", ("const", b"\x00"), ("attr", ("var", "self"), "item_size")),
                                                                                 ("op", "Mult", ("attr", ("var", "self"), "item_size"), ("const", b"\x00")),
                                                                                 ("call", ("fn", "bytes"), (("attr", ("var", "self"), "item_size"),), ())):
                okz = True
    r5.require(okz, z, "zero-fill through __setitem__", "_set_all_zeros_by_index no longer assigns item_size zero bytes through __setitem__")
    cl = iface.methods.get("clear")
    var = _full_index_loop(cl)
    okcl = var is not None and any(isinstance(d, ast.Delete) and [unparse(t) for t in d.targets] == ["self[%s]" % var[0]] for d in ast.walk(var[1]))
    if any(isinstance(d, ast.Delete) and [unparse(t) for t in d.targets] == ["self[:]"] for d in ast.walk(cl.node)):
        okcl = True
    r5.require(okcl, cl, "clear covers range(len(self))", "clear no longer deletes every index")
    it = iface.methods.get("__iter__")
    var = _full_index_loop(it)
    okit = var is not None and any(isinstance(y, ast.Yield) and y.value is not None and unparse(y.value) == "self[%s]" % var[0] for y in ast.walk(var[1]))
    r5.require(okit, it, "iteration covers range(len(self))", "__iter__ no longer yields every index")
    for c2 in (wrap, ci):
        for nm in ("__contains__", "index", "count", "__reversed__"):
            if nm in c2.methods:
                r5.fail_fn(c2.methods[nm], c2.methods[nm].node, "%s overridden in %s" % (nm, c2.name),
                           "%s.%s replaces the item-by-item Sequence mixin: the list model compares whole items at item positions; a scan of the raw chunk bytes (find / "
                           "count) also matches across item boundaries or stops at a misaligned first hit" % (c2.name, nm))
    for c2 in (wrap, ci):
        for nm in ("clear", "__delitem__", "_set_all_zeros_by_index"):
            if nm in c2.methods:
                r5.fail_fn(c2.methods[nm], c2.methods[nm].node, "%s overridden in %s" % (nm, c2.name),
                           "%s.%s overrides the zero-fill deletion of the interface; deletion must go through __setitem__ of every index (an override that touches only "
                           "opened chunk files leaves data behind after a reopen)" % (c2.name, nm))


# ----------------------------------------------------------------------------- self-test variants
from ..selftest import V  # noqa: E402

VARIANTS = [
    V("getitem-raw-index", "fire", "R19.1", [(PA, CORE + ".__getitem__", "ret = self._get_bytes_by_index(index % len(self))", "ret = self._get_bytes_by_index(index)")]),
    V("setitem-raw-index", "fire", "R19.1", [(PA, CORE + ".__setitem__", "        actual_index = index % len(self)\n        self._write_bytes_to_file(actual_index, bytes(value))", "        self._write_bytes_to_file(index, bytes(value))")]),
    V("rollback-partial", "fire", "R19.2", [(PA, CORE + ".__setitem__", "                self[key] = old_items\n", "                self[key] = old_items[:-1]\n")]),
    V("rollback-only-valueerror", "fire", "R19.2", [(PA, CORE + ".__setitem__", "            except:  # Other exceptions, roll back the array state to before it was written", "            except ValueError:")]),
    V("old-item-recorded-after-write", "fire", "R19.2", [(PA, CORE + ".__setitem__",
      "                    old_items.append(self[index])\n                    self._write_bytes_to_file(index, next(value_iter))", "                    self._write_bytes_to_file(index, next(value_iter))\n                    old_items.append(self[index])")]),
    V("marker-forgets-len", "fire", "R19.3", [(PA, "_ClosedFixedLengthBytesArray", "__iter__ = __len__ = __getitem__ = __setitem__ = release = close = closed", "__iter__ = __getitem__ = __setitem__ = release = close = closed\n\n    def __len__(self):\n        return 0")]),
    V("close-without-marker", "fire", "R19.3", [(PA, "SPFLBArray.close", "                self.__underlying_array = _ClosedFixedLengthBytesArray()", "                pass")]),
    V("chunk-file-named-by-offset", "fire", "R19.4", [(PA, CORE + "._get_file_by_id", "file_path = self.__local_path + f\"_{file_id}\"", "file_path = self.__local_path + f\"_{file_id * self._SimpleMultiFilePersistentFixedLengthBytesArray__item_num_in_one_file}\"")]),
    V("fast-clear-override", "fire", "R19.5", [(PA, "SPFLBArray.sync", "    def sync(self) -> None:", "    def clear(self):\n        self.__underlying_array.truncate_opened()\n\n    def sync(self) -> None:")]),
    V("size-check-after-write", "fire", "R19.2", [(PA, CORE + "._write_bytes_to_file",
      "        if len(content) > self.__item_size:\n            raise ValueError(\n                \"The length of the data to be written is greater than the item length of the persistent array\"\n            )\n", "")]),
    V("benign-inplace-normalisation", "silent", None, [(PA, CORE + ".__getitem__", "        ret = self._get_bytes_by_index(index % len(self))", "        if index < 0:\n            index += len(self)\n        ret = self._get_bytes_by_index(index)")]),
]
