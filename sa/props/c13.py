"""C13 - a crash between persistence steps never leaves a service unusable.

Crash points are program points between durable effects, so "for every crash point" becomes "for
every prefix of every durable effect sequence".  The rules extract, from the source, (a) the
micro-steps of every file_manager writer (mkdir / truncate / fill / rename / unlink), (b) the
effect sequence of every persisting handler path, (c) the loader's existence predicate and the
artifacts it reads; then enumerate all crash prefixes on an abstract disk and evaluate the loader
and the retry on each.  See DESIGN.md section 3, C13.
"""
import ast

from ..core import Rule
from ..model import AnalysisError, dotted, unparse, short
from ..cfg import cfg_of, calls_in_order
from ..effects import EffectScanner, stmts_in_order
from .. import frontend as F

EXPLANATION = ("Static crash-prefix enumeration: the durable micro-steps of each file_manager writer (mkdir, "
               "open-truncate, fill, rename, unlink) and the ordered durable effects of every persisting handler path are "
               "extracted from the source; every prefix of every sequence is applied to an abstract disk (artifact -> "
               "absent/partial/complete, with the state value carried by the meta file) and the loader (existence "
               "predicate + unconditional reads, also extracted) and the retry of the interrupted step are evaluated on "
               "it.  Plus the direct rules: loader predicate covers what it reads, commit (meta) last, no in-place "
               "truncation of the state file, first durable step is retry-tolerant.")
ASSUMPTIONS = ["a crash stops the process between two file-system operations; open(..., 'w') truncates and the following "
               "dump/write completes the file; rename/replace is atomic; fsync and torn writes inside one write() are not modelled",
               "the upload flags of the client are re-synchronised from the server on connect (mechanism named by the property)"]

ART = {"config.json": "config", "service_meta": "meta", "edb": "edb", "key": "key"}


# ----------------------------------------------------------------------------- writer micro-steps
def path_consts(fn, expr, depth=0):
    """String constants of a pathlib chain expression, following local names."""
    out = []
    if depth > 6 or expr is None:
        return out
    if isinstance(expr, ast.Call) and isinstance(expr.func, ast.Attribute) and expr.func.attr == "joinpath":
        out += path_consts(fn, expr.func.value, depth + 1)
        for a in expr.args:
            if isinstance(a, ast.Constant) and isinstance(a.value, str):
                out.append(a.value)
            else:
                out += path_consts(fn, a, depth + 1)
        return out
    if isinstance(expr, ast.BinOp) and isinstance(expr.op, ast.Div):
        return path_consts(fn, expr.left, depth + 1) + path_consts(fn, expr.right, depth + 1)
    if isinstance(expr, ast.Constant) and isinstance(expr.value, str):
        return [expr.value]
    if isinstance(expr, ast.Name):
        defs = [s for s in ast.walk(fn.node) if isinstance(s, ast.Assign) and any(isinstance(t, ast.Name) and t.id == expr.id for t in s.targets)]
        if len(defs) == 1:
            return path_consts(fn, defs[0].value, depth + 1)
        if not defs and expr.id in fn.module.globals:
            return []
    if isinstance(expr, ast.Call) and isinstance(expr.func, ast.Attribute) and expr.func.attr in ("with_suffix", "with_name"):
        base = path_consts(fn, expr.func.value, depth + 1)
        suf = expr.args[0].value if expr.args and isinstance(expr.args[0], ast.Constant) else "?"
        if expr.func.attr == "with_suffix" and base:
            return base[:-1] + [base[-1] + str(suf)]
        return base[:-1] + [str(suf)]
    if isinstance(expr, ast.Call) and dotted(expr.func) in ("str", "os.fspath", "pathlib.Path", "Path") and expr.args:
        return path_consts(fn, expr.args[0], depth + 1)
    if isinstance(expr, ast.BinOp) and isinstance(expr.op, ast.Add):
        l, r = path_consts(fn, expr.left, depth + 1), path_consts(fn, expr.right, depth + 1)
        if l and r:
            return l[:-1] + [l[-1] + r[0]]
        return l or r
    return out


def target_of(fn, expr):
    c = path_consts(fn, expr)
    return c[-1] if c else "dir"


def _write_mode(call):
    mode = "r"
    if len(call.args) > 1 and isinstance(call.args[1], ast.Constant):
        mode = call.args[1].value
    for k in call.keywords:
        if k.arg == "mode" and isinstance(k.value, ast.Constant):
            mode = k.value.value
    return isinstance(mode, str) and any(ch in mode for ch in "wax")


def writer_steps(fn):
    """Ordered micro-steps of a file_manager function: list of tuples."""
    steps = []
    for st in stmts_in_order(fn.node):
        exprs = []
        if isinstance(st, (ast.With, ast.AsyncWith)):
            exprs = [i.context_expr for i in st.items]
        elif isinstance(st, (ast.If, ast.While)):
            exprs = [st.test]
        elif isinstance(st, (ast.For,)):
            exprs = [st.iter]
        elif isinstance(st, (ast.FunctionDef, ast.ClassDef, ast.AsyncFunctionDef, ast.Try)):
            exprs = []
        else:
            exprs = [st]
        for e in exprs:
            for c in calls_in_order(e):
                d = dotted(c.func) or ""
                last = d.split(".")[-1] if d else (c.func.attr if isinstance(c.func, ast.Attribute) else "")
                recv = c.func.value if isinstance(c.func, ast.Attribute) else None
                if last == "mkdir":
                    eo = any(k.arg == "exist_ok" and isinstance(k.value, ast.Constant) and k.value.value is True for k in c.keywords)
                    from ..model import ancestors
                    for a in ancestors(c):
                        if isinstance(a, ast.If) and any(isinstance(x, ast.Call) and isinstance(x.func, ast.Attribute) and x.func.attr == "exists"
                                                         for x in ast.walk(a.test)):
                            eo = True  # guarded by an existence test
                    from .. import frontend as _F
                    if _F.tolerates_existing(c):
                        eo = True  # 'already exists' is caught and passed over
                    steps.append(("mkdir", target_of(fn, recv), eo, c))
                elif last == "makedirs":
                    eo = any(k.arg == "exist_ok" and isinstance(k.value, ast.Constant) and k.value.value is True for k in c.keywords)
                    steps.append(("mkdir", target_of(fn, c.args[0]) if c.args else "dir", eo, c))
                elif d == "open" and _write_mode(c) and c.args:
                    t = target_of(fn, c.args[0])
                    steps.append(("truncate", t, c))
                    steps.append(("fill", t, c))
                elif last == "open" and recv is not None and d != "open" and _write_mode(ast.Call(func=c.func, args=[None] + list(c.args), keywords=c.keywords)):
                    t = target_of(fn, recv)
                    steps.append(("truncate", t, c))
                    steps.append(("fill", t, c))
                elif last in ("write_bytes", "write_text") and recv is not None:
                    t = target_of(fn, recv)
                    steps.append(("truncate", t, c))
                    steps.append(("fill", t, c))
                elif last in ("replace", "rename") and recv is not None and d not in ("os.replace", "os.rename") and c.args and \
                        not (isinstance(c.args[0], ast.Constant)):
                    steps.append(("rename", target_of(fn, recv), target_of(fn, c.args[0]), c))
                elif d in ("os.replace", "os.rename", "shutil.move") and len(c.args) >= 2:
                    steps.append(("rename", target_of(fn, c.args[0]), target_of(fn, c.args[1]), c))
                elif last == "unlink" and recv is not None and d != "os.unlink":
                    steps.append(("unlink", target_of(fn, recv), c))
                elif d in ("os.unlink", "os.remove") and c.args:
                    steps.append(("unlink", target_of(fn, c.args[0]), c))
                elif last == "rmtree":
                    steps.append(("rmtree", "dir", c))
    return steps


def predicate_artifacts(fn):
    """Artifacts whose existence the loader predicate tests conjunctively: set of names ('dir' included)."""
    rets = [n for n in ast.walk(fn.node) if isinstance(n, ast.Return) and n.value is not None]
    tested = set()

    def seq_elems(e):
        """elements of a tuple / list display, also through a single-assignment local"""
        from ..model import inline_locals
        e2 = inline_locals(fn.node, e)
        if isinstance(e2, (ast.Tuple, ast.List)):
            return list(e2.elts)
        if isinstance(e, ast.Name):
            defs = [st.value for st in ast.walk(fn.node) if isinstance(st, ast.Assign) and len(st.targets) == 1 and isinstance(st.targets[0], ast.Name) and st.targets[0].id == e.id]
            if len(defs) == 1 and isinstance(defs[0], (ast.Tuple, ast.List)):
                return list(defs[0].elts)
        return None
    # `for p in (a, b, c): if not p.exists(): return False` ... `return True`
    loops = [st for st in fn.node.body if isinstance(st, ast.For)]
    if len(loops) == 1 and isinstance(loops[0].target, ast.Name) and fn.node.body and isinstance(fn.node.body[-1], ast.Return) and \
            isinstance(fn.node.body[-1].value, ast.Constant) and fn.node.body[-1].value.value is True:
        lp = loops[0]
        elems = seq_elems(lp.iter)
        body = [st for st in lp.body if not isinstance(st, ast.Pass)]
        if elems is not None and len(body) == 1 and isinstance(body[0], ast.If) and not body[0].orelse and len(body[0].body) == 1 and \
                isinstance(body[0].body[0], ast.Return) and isinstance(body[0].body[0].value, ast.Constant) and body[0].body[0].value.value is False:
            t = body[0].test
            if isinstance(t, ast.UnaryOp) and isinstance(t.op, ast.Not) and isinstance(t.operand, ast.Call) and isinstance(t.operand.func, ast.Attribute) and \
                    t.operand.func.attr in ("exists", "is_file", "is_dir") and isinstance(t.operand.func.value, ast.Name) and t.operand.func.value.id == lp.target.id and \
                    len(rets) == 2:
                return {target_of(fn, el) for el in elems}
    if len(rets) != 1:
        return None
    # `return all(p.exists() for p in (a, b, c))`
    v = rets[0].value
    if isinstance(v, ast.Call) and dotted(v.func) == "all" and len(v.args) == 1 and isinstance(v.args[0], (ast.GeneratorExp, ast.ListComp)) and len(v.args[0].generators) == 1:
        g = v.args[0].generators[0]
        elems = seq_elems(g.iter)
        el = v.args[0].elt
        if elems is not None and not g.ifs and isinstance(g.target, ast.Name) and isinstance(el, ast.Call) and isinstance(el.func, ast.Attribute) and \
                el.func.attr in ("exists", "is_file", "is_dir") and isinstance(el.func.value, ast.Name) and el.func.value.id == g.target.id:
            return {target_of(fn, x) for x in elems}

    def rec(e):
        if isinstance(e, ast.BoolOp) and isinstance(e.op, ast.And):
            for v in e.values:
                if not rec(v):
                    return False
            return True
        if isinstance(e, ast.Call) and isinstance(e.func, ast.Attribute) and e.func.attr in ("exists", "is_file", "is_dir"):
            tested.add(target_of(fn, e.func.value))
            return True
        if isinstance(e, ast.Call) and dotted(e.func) in ("os.path.exists", "os.path.isfile", "os.path.isdir") and e.args:
            tested.add(target_of(fn, e.args[0]))
            return True
        return False
    if not rec(rets[0].value):
        return None
    return tested


# ----------------------------------------------------------------------------- abstract disk
class Disk:
    def __init__(self):
        self.st = {}  # name -> 'partial' | 'complete'
        self.val = {}  # name -> value carried (meta state)

    def copy(self):
        d = Disk()
        d.st = dict(self.st)
        d.val = dict(self.val)
        return d

    def exists(self, name):
        return name in self.st

    def apply(self, step, value=None):
        """Apply one micro-step; returns an error string if the step raises."""
        kind = step[0]
        if kind == "mkdir":
            if step[1] in self.st and not step[2]:
                return "mkdir of an existing directory raises FileExistsError"
            self.st[step[1]] = "complete"
        elif kind == "truncate":
            if "dir" not in self.st:
                return "open() under a missing directory raises"
            self.st[step[1]] = "partial"
            self.val.pop(step[1], None)
        elif kind == "fill":
            self.st[step[1]] = "complete"
            self.val[step[1]] = value
        elif kind == "rename":
            if step[1] not in self.st:
                return "rename of a missing file raises"
            self.st[step[2]] = self.st.pop(step[1])
            self.val[step[2]] = self.val.pop(step[1], None)
        elif kind == "unlink":
            self.st.pop(step[1], None)
            self.val.pop(step[1], None)
        elif kind == "rmtree":
            self.st.clear()
            self.val.clear()
        return None

    def describe(self):
        return {k: (v if not k.startswith("service_meta") or self.val.get(k) is None else "%s(state=%s)" % (v, _fmt(self.val[k])))
                for k, v in sorted(self.st.items())}


class Side:
    """Facts of one side (server or client) extracted from its file manager and Service.__init__."""

    def __init__(self, repo, fm_rel, svc_rel, predicate_name, rule):
        self.repo = repo
        self.fm = repo.module(fm_rel)
        self.svc_rel = svc_rel
        self.writers = {name: writer_steps(fn) for name, fn in self.fm.functions.items()}
        self.pred_fn = self.fm.functions.get(predicate_name)
        if self.pred_fn is None:
            raise AnalysisError("loader predicate %s vanished from %s" % (predicate_name, fm_rel))
        self.pred = predicate_artifacts(self.pred_fn)
        self.guarded_by_dir = {}
        for name, fn in self.fm.functions.items():
            # `if not <dir>.exists(): return` at the head: a no-op when the directory is missing
            g = False
            for st in fn.node.body:
                if isinstance(st, ast.If) and isinstance(st.test, ast.UnaryOp) and isinstance(st.test.op, ast.Not) and \
                        any(isinstance(x, ast.Return) for x in st.body):
                    g = True
            self.guarded_by_dir[name] = g
        init = repo.func(svc_rel, "Service.__init__")
        self.init = init
        self.loader_reads = []
        br = F.predicate_branches(init, predicate_name)
        for s in (br[0] if br is not None else []):
            if isinstance(s, (ast.If, ast.For, ast.While, ast.With, ast.Try)):
                continue    # compound statements: their simple statements are listed themselves
            for c in ast.walk(s):
                if isinstance(c, ast.Call):
                    d = dotted(c.func) or ""
                    nm = d.split(".")[-1]
                    if d.startswith("FileManager.") and nm.startswith("read_") and nm in self.fm.functions:
                        self.loader_reads.append((nm, c))
        self.read_target = {}
        for name, fn in self.fm.functions.items():
            if name.startswith("read_"):
                ts = set()
                for c in ast.walk(fn.node):
                    if isinstance(c, ast.Call) and isinstance(c.func, ast.Attribute) and c.func.attr in ("read_text", "read_bytes", "open"):
                        ts.add(target_of(fn, c.func.value))
                    if isinstance(c, ast.Call) and dotted(c.func) == "open" and c.args:
                        ts.add(target_of(fn, c.args[0]))
                self.read_target[name] = ts

    def loader(self, disk):
        """-> ('crash', why) | ('absent', None) | ('loaded', meta value)"""
        if self.pred is None:
            return ("crash", "loader predicate not understood")
        if not all(disk.exists(a) for a in self.pred):
            return ("absent", None)
        for nm, c in self.loader_reads:
            for t in self.read_target.get(nm, ()):
                if disk.st.get(t) != "complete":
                    return ("crash", "%s reads %r which is %s" % (nm, t, disk.st.get(t, "absent")))
        return ("loaded", disk.val.get("service_meta"))


def handler_sequences(repo, fi, scanner, initial_value, value_of_store):
    """All success paths of a handler as lists of (fm name, call node, value-at-that-point)."""
    cfg = cfg_of(fi.node)
    seqs = []
    for p in cfg.paths(ends=[cfg.exit]):
        seq = []
        val = initial_value
        for nid in p:
            n = cfg.nodes[nid]
            if n.stmt is None or n.ast is None:
                continue
            for e in scanner.node_effects(fi, n):
                nv = value_of_store(e, val, fi, nid)
                if nv is not None:
                    val = nv
                if e.kind == "fm" and not e.name.startswith(("read_", "check_")):
                    seq.append((e.name, e.node, val, e.chain))
        if seq and seq not in seqs:
            seqs.append(seq)
    return seqs


def expand(side, seq):
    """fm-call sequence -> micro-step sequence [(step, value, fm name, call node)]"""
    out = []
    for (name, node, val, chain) in seq:
        for stp in side.writers.get(name, []):
            out.append((stp, val, name, node))
    return out


def check(repo):
    rules = []
    r1 = Rule("R13.1", "loader predicate covers every artifact the loader reads")
    r2 = Rule("R13.2", "commit last: the state file is written after the data it vouches for")
    r3 = Rule("R13.3", "the state file is replaced atomically, never truncated in place")
    r4 = Rule("R13.4", "the first durable step of a creating handler tolerates its own partial execution")
    r5 = Rule("R13.5", "crash-prefix enumeration: after every prefix the loader works and the step is before/after/retryable")
    rules += [r1, r2, r3, r4, r5]
    scanner = EffectScanner(repo)

    server = Side(repo, F.SRV_FM, F.SRV, "check_sid_folder_exist", r1)
    client = Side(repo, F.CLI_FM, F.CLI, "check_sid_local_file_valid", r1)

    # ---------------------------------------------------------------- R13.1
    for name, side in (("server", server), ("client", client)):
        r1.require(side.pred is not None, side.pred_fn, "loader predicate form",
                   "the %s loader predicate is not a conjunction of existence tests" % name)
        r1.require(len(side.loader_reads) >= 2, side.init, "loader reads",
                   "the %s loader no longer reads config and state under its existence predicate" % name)
        for nm, c in side.loader_reads:
            tg = side.read_target.get(nm, set())
            missing = sorted(t for t in tg if side.pred is None or t not in side.pred)
            desc = {"side": name, "read": nm, "reads": sorted(tg), "predicate_tests": sorted(side.pred or [])}
            if missing:
                r1.fail_fn(side.init, c, "%s read of %s not covered" % (name, nm),
                           "the %s loader reads %s (%s) whenever %s is true, but the predicate does not test %s: a crash that "
                           "leaves the directory without it makes every later constructor raise" % (name, nm, sorted(tg), side.pred_fn.name, missing),
                           witness=desc)
            else:
                r1.ok(desc)

    # ---------------------------------------------------------------- R13.3 / R13.4 (function level)
    for name, side in (("server", server), ("client", client)):
        steps = side.writers.get("write_service_meta")
        if steps is None:
            raise AnalysisError("%s write_service_meta vanished" % name)
        fn = side.fm.functions["write_service_meta"]
        trunc_final = [s for s in steps if s[0] == "truncate" and s[1] == "service_meta"]
        renames = [s for s in steps if s[0] == "rename" and s[2] == "service_meta"]
        ok = not trunc_final and len(renames) >= 1 and any(s[0] == "fill" and s[1] == renames[0][1] for s in steps[:steps.index(renames[0])])
        desc = {"side": name, "function": "write_service_meta", "steps": [s[:3] if s[0] in ("rename", "mkdir") else s[:2] for s in steps]}
        if ok:
            r3.ok(desc)
        else:
            r3.fail_fn(fn, fn.node, "%s write_service_meta in-place" % name,
                       "%s write_service_meta truncates the committed state file in place (steps %s): a crash between open and "
                       "dump leaves a file the loader unpickles" % (name, desc["steps"]), witness=desc)
    # a temporary is renamed over the committed file only after it was closed; artifact writers can be re-run after a crash
    for name, side in (("server", server), ("client", client)):
        for fname, fn in side.fm.functions.items():
            for c in ast.walk(fn.node):
                if not isinstance(c, ast.Call):
                    continue
                d = dotted(c.func) or ""
                last = d.split(".")[-1] if d else (c.func.attr if isinstance(c.func, ast.Attribute) else "")
                src = None
                if last in ("replace", "rename") and isinstance(c.func, ast.Attribute) and d not in ("os.replace", "os.rename") and c.args and not isinstance(c.args[0], ast.Constant):
                    src = c.func.value
                elif d in ("os.replace", "os.rename", "shutil.move") and len(c.args) >= 2:
                    src = c.args[0]
                if src is not None:
                    from ..model import ancestors as _anc, inline_locals as _il
                    src_t = unparse(_il(fn.node, src))
                    for a in _anc(c):
                        if isinstance(a, (ast.With, ast.AsyncWith)):
                            for it in a.items:
                                oc = it.context_expr
                                if isinstance(oc, ast.Call) and ((dotted(oc.func) == "open" and oc.args and _write_mode(oc) and unparse(_il(fn.node, oc.args[0])) == src_t) or (
                                        isinstance(oc.func, ast.Attribute) and oc.func.attr == "open" and unparse(_il(fn.node, oc.func.value)) == src_t)):
                                    r3.fail_fn(fn, c, "%s %s renames an open file" % (name, fname),
                                               "%s %s renames %s over the committed file inside the `with open(...)` block that is still writing it: the data is only "
                                               "flushed when the block is left, so a crash right after the rename leaves an empty or partial file under the committed name" % (
                                                   name, fname, unparse(src)))
                if (d == "open" or last == "open") and c.args:
                    mode = None
                    margs = c.args[1:2] if d == "open" else c.args[0:1]
                    for m_ in list(margs) + [k.value for k in c.keywords if k.arg == "mode"]:
                        if isinstance(m_, ast.Constant) and isinstance(m_.value, str):
                            mode = m_.value
                    if mode is not None and "x" in mode:
                        r4.fail_fn(fn, c, "%s %s creates exclusively" % (name, fname),
                                   "%s %s opens its artifact with mode %r: if the process dies after the file was written but before the state records it, every retry of the "
                                   "step raises FileExistsError and the workflow can never continue" % (name, fname, mode))
                    elif mode is not None and any(ch in mode for ch in "wa"):
                        r4.ok({"side": name, "function": fname, "mode": mode})
    mk = [s for s in server.writers.get("create_sid_folder", []) if s[0] == "mkdir"]
    csf = server.fm.functions.get("create_sid_folder")
    if csf is None:
        raise AnalysisError("server create_sid_folder vanished")
    guarded = any(isinstance(st, ast.If) and any(isinstance(c, ast.Call) and isinstance(c.func, ast.Attribute) and c.func.attr == "exists"
                                                  for c in ast.walk(st.test)) for st in ast.walk(csf.node))
    r4.require(bool(mk) and (all(s[2] for s in mk) or guarded), csf, "server create_sid_folder retry",
               "server create_sid_folder is a bare mkdir(): after a crash that left the directory behind, re-uploading the "
               "configuration raises FileExistsError and the service can never be created")
    r4.instance({"server create_sid_folder": [s[:3] for s in mk]})

    # ---------------------------------------------------------------- handlers
    table, _ = F.dispatch_table(repo, F.SRV)
    mt = F.msg_types(repo)

    def srv_store(e, val, fi=None, nid=None):
        if e.kind == "item_store" and e.info.get("base") == "service_meta" and e.info.get("key") == "state":
            return e.info.get("const")
        return None
    srv_handlers = [("config", table.get(mt["CONFIG"]), 0, 1), ("upload", table.get(mt["UPLOAD_DB"]), 1, 2)]
    svc_c = repo.cls(F.CLI, "Service")

    def cli_store_factory():
        qs = {}

        def cli_store(e, val, fi=None, nid=None):
            if e.kind == "call" and e.name.endswith("set_current_service_state"):
                # which flag: the derivation of the stored value contains ClientServiceState.set_<flag>(<...>, True)
                # (looked up through temporaries, so `new_state = ...set_x(...); self.set_current_service_state(new_state)` counts)
                call = e.node
                found = None
                for c in ast.walk(call):
                    if isinstance(c, ast.Call):
                        d = dotted(c.func) or ""
                        if ".set_" in d and d.split(".")[-2] == "ClientServiceState" and len(c.args) == 2 and \
                                isinstance(c.args[1], ast.Constant) and c.args[1].value is True:
                            found = d.split(".")[-1][4:]
                if found is None and fi is not None and nid is not None and call.args and not e.chain:
                    from ..query import Q
                    from ..terms import walk as twalk
                    q = qs.get(fi.key) or qs.setdefault(fi.key, Q(repo, fi))
                    try:
                        t = q.arg(call, nid, 0)
                    except Exception:
                        t = None
                    for x in twalk(t) if t is not None else []:
                        if isinstance(x, tuple) and x and x[0] == "call" and isinstance(x[1], str) and ".set_" in x[1] and \
                                x[1].split("::")[-1].split(".")[0] == "ClientServiceState" and len(x[2]) == 2 and x[2][1] == ("const", True):
                            found = x[1].split(".")[-1][4:]
                if found is not None:
                    return frozenset(set(val) | {found})
            return None
        return cli_store
    cli_handlers = [("create-config", svc_c.methods.get("handle_create_config"), frozenset(), frozenset({"config_created"})),
                    ("create-key", svc_c.methods.get("handle_create_key"), frozenset({"config_created"}), frozenset({"config_created", "key_created"})),
                    ("encrypt", svc_c.methods.get("handle_encrypt_database"), frozenset({"config_created", "key_created"}),
                     frozenset({"config_created", "key_created", "db_encrypted"}))]

    # R13.2 orderings (dominance on the handler CFG)
    orders = [(F.SRV, srv_handlers[0][1], ["create_sid_folder", "write_service_config", "write_service_meta"]),
              (F.SRV, srv_handlers[1][1], ["write_encrypted_database", "write_service_meta"]),
              (F.CLI, cli_handlers[0][1], ["create_sid_folder", "write_service_config", "write_service_meta"]),
              (F.CLI, cli_handlers[1][1], ["write_key", "write_service_meta"]),
              (F.CLI, cli_handlers[2][1], ["write_encrypted_database", "write_service_meta"])]
    for rel, fi, order in orders:
        if fi is None:
            raise AnalysisError("persisting handler vanished in %s" % rel)
        cfg = cfg_of(fi.node)
        where = {}
        for n in cfg.nodes:
            if n.stmt is None or n.ast is None:
                continue
            for e in scanner.node_effects(fi, n):
                if e.kind == "fm":
                    where.setdefault(e.name, set()).add(n.id)
        for a, b in zip(order, order[1:]):
            na, nb = where.get(a, set()), where.get(b, set())
            if not na or not nb:
                r2.fail_fn(fi, fi.node, "presence %s/%s" % (a, b), "%s no longer performs %s and %s" % (fi.name, a, b))
                continue
            bad = [x for x in nb if cfg.can_reach(cfg.entry, x, avoid=na) or x in na and False]
            desc = {"handler": fi.key, "first": a, "then": b}
            if bad:
                r2.fail_fn(fi, cfg.nodes[bad[0]].stmt, "%s before %s" % (b, a),
                           "%s can run before %s in %s: the state file would vouch for data that is not written yet" % (b, a, fi.name), witness=desc)
            else:
                r2.ok(desc)

    # premise of the client create-service exception below ("the retry runs under a fresh sid"): the sid is derived from the config
    # *after* the random salt was added.  Otherwise the retry computes the same sid and meets the directory its first attempt left.
    from . import c11 as _c11
    tmp9 = Rule("R11.9", "")
    _c11._check_create_refuses_existing(repo, tmp9)
    for f in tmp9.findings:
        if "salt then sid" in f.construct:
            f.rule = "R13.5"
            f.message = ("the retry of an interrupted create-service no longer runs under a fresh sid (%s): after a crash between the mkdir and the state file, creating "
                         "the service again from the same configuration hits the left-over directory (FileExistsError) for ever" % f.message)
            r5.findings.append(f)
            r5.obligations += 1
    if not any("salt then sid" in f.construct for f in tmp9.findings):
        r5.ok({"premise": "client create-service retries under a fresh sid (salt before sid)"})
    # R13.5 crash prefixes
    n_prefix = 0
    for side, side_name, handlers, store_fn in ((server, "server", srv_handlers, srv_store), (client, "client", cli_handlers, cli_store_factory())):
        for (op, fi, pre, post) in handlers:
            if fi is None:
                raise AnalysisError("handler vanished: %s %s" % (side_name, op))
            seqs = handler_sequences(repo, fi, scanner, pre, store_fn)
            r5.require(bool(seqs), fi, "durable sequence", "%s performs no durable step at all" % fi.name)
            for seq in seqs:
                micro = expand(side, seq)
                # initial disk: what the pre-state guarantees
                base = Disk()
                if (side_name == "server" and pre >= 1) or (side_name == "client" and pre):
                    base.st.update({"dir": "complete", "config.json": "complete", "service_meta": "complete"})
                    base.val["service_meta"] = pre
                    if side_name == "client" and "key_created" in pre:
                        base.st["key"] = "complete"
                for k in range(0, len(micro) + 1):
                    n_prefix += 1
                    disk = base.copy()
                    err = None
                    for (stp, val, fname, node) in micro[:k]:
                        if side.guarded_by_dir.get(fname) and not disk.exists("dir"):
                            continue
                        err = disk.apply(stp, val)
                        if err:
                            break
                    if err:
                        r5.fail_fn(fi, micro[k - 1][3], "%s step raises in normal run" % micro[k - 1][2],
                                   "%s: %s during an uninterrupted run" % (micro[k - 1][2], err))
                        break
                    where = "before any durable step" if k == 0 else "after %s of %s" % (micro[k - 1][0][0], micro[k - 1][2])
                    wit = {"side": side_name, "operation": op, "crash": where, "prefix_len": k, "disk": disk.describe()}
                    kind, val = side.loader(disk)
                    if kind == "crash":
                        r5.fail_fn(fi, micro[k - 1][3] if k else fi.node, "%s crash %s -> loader raises" % (op, where),
                                   "crash %s during %s leaves disk %s; on restart the %s constructor raises: %s" % (
                                       where, op, disk.describe(), side_name, val), witness=wit)
                        continue
                    reported = val if kind == "loaded" else (0 if side_name == "server" else frozenset())
                    if reported is None:
                        reported = pre
                    problem = _consistency(side_name, reported, disk)
                    if problem:
                        r5.fail_fn(fi, micro[k - 1][3] if k else fi.node, "%s crash %s -> claim without data" % (op, where),
                                   "crash %s during %s: restart reports %s but %s" % (where, op, _fmt(reported), problem), witness=wit)
                        continue
                    if reported == post:
                        r5.ok(wit if k in (0, len(micro)) else None)
                        continue
                    if reported != pre:
                        r5.fail_fn(fi, micro[k - 1][3] if k else fi.node, "%s crash %s -> foreign state" % (op, where),
                                   "crash %s during %s: restart reports %s, neither the state before (%s) nor after (%s) the step" % (
                                       where, op, _fmt(reported), _fmt(pre), _fmt(post)), witness=wit)
                        continue
                    # retry from this disk (client create-config retries under a fresh sid)
                    if side_name == "client" and op == "create-config":
                        r5.ok()
                        continue
                    d2 = disk.copy()
                    rerr = None
                    for (stp, v2, fname, node) in micro:
                        if side.guarded_by_dir.get(fname) and not d2.exists("dir"):
                            continue
                        rerr = d2.apply(stp, v2)
                        if rerr:
                            r5.fail_fn(fi, node, "%s retry after crash %s" % (op, where),
                                       "crash %s during %s: the state is still %s, but retrying the step fails: %s" % (where, op, _fmt(pre), rerr), witness=wit)
                            break
                    if not rerr:
                        k2, v2 = side.loader(d2)
                        if k2 == "loaded" and v2 == post:
                            r5.ok()
                        else:
                            r5.fail_fn(fi, fi.node, "%s retry incomplete after crash %s" % (op, where),
                                       "crash %s during %s: after the retry the loader reports %s, expected %s" % (where, op, _fmt(v2), _fmt(post)), witness=wit)
    r5.instance({"crash_prefixes_enumerated": n_prefix})
    r5.require(n_prefix >= 20, repo.func(F.SRV, "Service.__init__"), "prefix floor",
               "only %d crash prefixes enumerated (expected >= 20): effect extraction broken" % n_prefix)

    # ---------------------------------------------------------------- R13.6 upload flags recoverable from the server
    r6 = Rule("R13.6", "a crash around an upload acknowledgement is healed: upload flags are rebuilt from the server's state on connect")
    rules.append(r6)
    from . import c11
    fmodel = c11.FlagModel(repo, Rule("aux", "aux"))
    it0 = c11.Interp(repo, fmodel, scanner)
    c11._check_resync(repo, r6, fmodel, it0)
    lw = repo.func(F.CLI, "Service.load_websocket")
    called = [c for c in ast.walk(lw.node) if isinstance(c, ast.Call) and dotted(c.func) == "self." + c11.RESYNC_FN]
    ok = False
    for c in called:
        a = c.args[0] if c.args else None
        # the argument is the 'state' field of the server's init echo
        if isinstance(a, ast.Name):
            defs = [s_ for s_ in ast.walk(lw.node) if isinstance(s_, ast.Assign) and any(isinstance(t, ast.Name) and t.id == a.id for t in s_.targets)]
            if defs and all(isinstance(d.value, ast.Call) and isinstance(d.value.func, ast.Attribute) and d.value.func.attr == "get" and d.value.args
                            and isinstance(d.value.args[0], ast.Constant) and d.value.args[0].value == "state" for d in defs):
                ok = True
    r6.require(ok, lw, "resync on connect", "load_websocket no longer re-synchronises the upload flags from the 'state' field of the server's init echo")
    for hname in ("handle_upload_config", "handle_upload_encrypted_database", "handle_keyword_search"):
        h = repo.func(F.CLI, "Service." + hname)
        cfg_h = cfg_of(h.node)
        loads = {n.id for n in cfg_h.nodes if n.ast is not None and n.stmt is not None and any(
            dotted(c.func) == "self.load_websocket" for c in calls_in_order(n.stmt if n.kind != "test" else n.ast))}
        tests = [n.id for n in cfg_h.nodes if n.kind == "test"]
        r6.require(bool(loads) and all(not cfg_h.can_reach(cfg_h.entry, t, avoid=loads) for t in tests), h, "connect before flag tests",
                   "%s tests the upload flags before connecting (and re-synchronising them from the server)" % hname)

    # ---------------------------------------------------------------- R13.7 the loaders report the persisted state, they do not repair it
    r7 = Rule("R13.7", "loaders report the persisted state unchanged (no 'self-healing' from the mere existence of a file)")
    rules.append(r7)
    for rel in (F.SRV, F.CLI):
        svc = repo.cls(rel, "Service")
        for mname, fi in svc.methods.items():
            if not (mname == "__init__" or mname.startswith("_load_")):
                continue
            for st in ast.walk(fi.node):
                tg = []
                if isinstance(st, ast.Assign):
                    tg = st.targets
                elif isinstance(st, ast.AugAssign):
                    tg = [st.target]
                for t in tg:
                    if isinstance(t, ast.Subscript) and dotted(t.value) == "self.service_meta":
                        r7.fail_fn(fi, st, "loader rewrites the state", "%s %s.%s changes service_meta while loading: a file that merely exists (possibly truncated by a crash) "
                                   "is taken as proof of a completed step" % (rel, svc.name, mname))
                if isinstance(st, ast.Call) and (dotted(st.func) or "").endswith(("write_service_meta", "set_current_service_state", "_store_service_meta")) and mname != "__init__" or \
                        (isinstance(st, ast.Call) and mname == "__init__" and (dotted(st.func) or "").endswith(("write_service_meta", "_store_service_meta"))):
                    r7.fail_fn(fi, st, "loader persists state", "%s %s.%s writes the state file while loading" % (rel, svc.name, mname))
            r7.ok({"loader": "%s::%s.%s" % (rel, svc.name, mname)})
    # existence predicates are only used by the loaders' predicate, never to derive a state
    for rel in (F.SRV, F.CLI):
        svc = repo.cls(rel, "Service")
        for mname, fi in svc.methods.items():
            for c in ast.walk(fi.node):
                if isinstance(c, ast.Call) and (dotted(c.func) or "").startswith("FileManager.") and (dotted(c.func) or "").split(".")[-1].startswith(("check_", "exists", "has_")):
                    nm = (dotted(c.func) or "").split(".")[-1]
                    r7.require(mname == "__init__" and nm in ("check_sid_folder_exist", "check_sid_local_file_valid"), fi, "existence test %s in %s" % (nm, mname),
                               "%s.%s consults the existence test %s: state must come from the state file, not from which files happen to exist" % (svc.name, mname, nm), c)

    # state rewrites outside creation (close_service on both sides, echo handlers on the client) use write_service_meta:
    # covered by R13.3 because they go through the same function; record the call sites
    sites = 0
    for rel in (F.SRV, F.CLI):
        for fi in repo.module(rel).all_functions():
            for c in ast.walk(fi.node):
                if isinstance(c, ast.Call) and (dotted(c.func) or "").endswith("write_service_meta"):
                    sites += 1
    r3.instance({"write_service_meta call sites routed through the atomic writer": sites})
    # no other writer of the state file
    for side_name, side in (("server", server), ("client", client)):
        for fname, steps in side.writers.items():
            if fname == "write_service_meta":
                continue
            for s in steps:
                if s[0] in ("truncate", "fill", "rename", "unlink") and "service_meta" in s[1:3]:
                    r3.fail_fn(side.fm.functions[fname], s[-1], "%s %s touches the state file" % (side_name, fname),
                               "%s %s modifies the state file outside write_service_meta" % (side_name, fname))
    # ---------------------------------------------------------------- R13.8 the alias table
    r8 = Rule("R13.8", "the alias table survives a crash of its own writer: it is replaced atomically, or its reader treats an undecodable file as empty")
    rules.append(r8)
    snh = repo.module(F.CLI_SNH)
    loads = [(fi, c) for fi in snh.all_functions() for c in ast.walk(fi.node) if isinstance(c, ast.Call) and (dotted(c.func) or "") in ("json.load", "json.loads")]
    dumps = [(fi, c) for fi in snh.all_functions() for c in ast.walk(fi.node) if isinstance(c, ast.Call) and (dotted(c.func) or "") in ("json.dump", "json.dumps")]
    snh_fns = list(snh.all_functions())
    if r8.require(bool(loads) and bool(dumps), snh_fns[0] if snh_fns else client.init, "alias table reader and writer", "the alias table is no longer read / written as JSON in service_name_handler"):
        atomic = all(any(isinstance(x, ast.Call) and ((dotted(x.func) or "").endswith((".replace", ".rename")) or dotted(x.func) in ("os.replace", "os.rename")) for x in ast.walk(fi.node))
                     for fi, _c in dumps)
        from ..model import ancestors as _anc2
        for fi, c in loads:
            tolerant = False
            for a in _anc2(c):
                if isinstance(a, ast.Try) and any(c is y for b in a.body for y in ast.walk(b)):
                    for h in a.handlers:
                        names = [dotted(x) or "" for x in ([h.type] if h.type is not None and not isinstance(h.type, ast.Tuple) else (h.type.elts if h.type is not None else []))]
                        if h.type is None or any(nm.split(".")[-1] in ("JSONDecodeError", "ValueError", "Exception") for nm in names):
                            tolerant = True
            desc = {"function": fi.qual, "atomic_writer": atomic, "tolerant_reader": tolerant}
            if atomic or tolerant:
                r8.ok(desc)
            else:
                r8.fail_fn(fi, c, "alias table read intolerant of a torn write",
                           "%s decodes service_mapping.json without catching a decoding error, while the writer truncates that file in place: a crash between open('w') and "
                           "the end of json.dump leaves an empty / partial file, after which every command that names a service by alias - including the retried "
                           "create-service - fails with JSONDecodeError" % fi.qual, witness=desc)
    return rules


def _consistency(side_name, reported, disk):
    if side_name == "server":
        if reported >= 1 and disk.st.get("config.json") != "complete":
            return "config.json is %s" % disk.st.get("config.json", "absent")
        if reported >= 2 and disk.st.get("edb") != "complete":
            return "the index file is %s" % disk.st.get("edb", "absent")
        return None
    if "config_created" in reported and disk.st.get("config.json") != "complete":
        return "config.json is %s" % disk.st.get("config.json", "absent")
    if "key_created" in reported and disk.st.get("key") != "complete":
        return "the key file is %s" % disk.st.get("key", "absent")
    if "db_encrypted" in reported and "db_uploaded" not in reported and disk.st.get("edb") != "complete":
        return "the local index is %s" % disk.st.get("edb", "absent")
    return None


def _fmt(v):
    if isinstance(v, frozenset):
        return "{" + ",".join(sorted(v)) + "}"
    return str(v)


# ----------------------------------------------------------------------------- self-test variants
from ..selftest import V  # noqa: E402

VARIANTS = [
    V("server-meta-in-place", "fire", "R13.", [(F.SRV_FM, "write_service_meta",
      """    tmp_path = service_dir_path.joinpath("service_meta.tmp")
    with open(tmp_path, "wb") as f:
        pickle.dump(meta, f)
    tmp_path.replace(service_dir_path.joinpath("service_meta"))
""", """    with open(service_dir_path.joinpath("service_meta"), "wb") as f:
        pickle.dump(meta, f)
""")]),
    V("client-predicate-drops-meta", "fire", "R13.", [(F.CLI_FM, "check_sid_local_file_valid",
      """ \\
           and _PROGRAM_PATH.joinpath(sid).joinpath("service_meta").exists()""", "")]),
    V("server-predicate-dir-only", "fire", "R13.1", [(F.SRV_FM, "check_sid_folder_exist",
      """ \\
           and _PROGRAM_PATH.joinpath(sid).joinpath("config.json").exists() \\
           and _PROGRAM_PATH.joinpath(sid).joinpath("service_meta").exists()""", "")]),
    V("client-flag-persisted-before-key", "fire", "R13.", [(F.CLI, "Service.handle_create_key",
      """        FileManager.write_key(self.sid, sse_key.serialize())
        self.set_current_service_state(ClientServiceState.set_key_created(self.get_current_service_state(), True))
        self._store_service_meta()""",
      """        self.set_current_service_state(ClientServiceState.set_key_created(self.get_current_service_state(), True))
        self._store_service_meta()
        FileManager.write_key(self.sid, sse_key.serialize())""")]),
    V("server-meta-before-edb", "fire", "R13.", [(F.SRV, "Service.handle_upload_encrypted_database",
      """        FileManager.write_encrypted_database(self.sid, edb_bytes)
        self.service_meta["state"] = SERVICE_STATE.ALL_READY
        FileManager.write_service_meta(self.sid, self.service_meta)""",
      """        self.service_meta["state"] = SERVICE_STATE.ALL_READY
        FileManager.write_service_meta(self.sid, self.service_meta)
        FileManager.write_encrypted_database(self.sid, edb_bytes)""")]),
    V("server-bare-mkdir", "fire", "R13.", [(F.SRV_FM, "create_sid_folder", "mkdir(exist_ok=True)", "mkdir()")]),
    V("client-meta-in-place", "fire", "R13.3", [(F.CLI_FM, "write_service_meta",
      """    tmp_path = _PROGRAM_PATH.joinpath(sid).joinpath("service_meta.tmp")
    with open(tmp_path, "wb") as f:
        pickle.dump(meta, f)
    tmp_path.replace(_PROGRAM_PATH.joinpath(sid).joinpath("service_meta"))
""", """    with open(_PROGRAM_PATH.joinpath(sid).joinpath("service_meta"), "wb") as f:
        pickle.dump(meta, f)
""")]),
    V("benign-write-bytes-then-os-replace", "silent", None, [(F.SRV_FM, "write_service_meta",
      """    with open(tmp_path, "wb") as f:
        pickle.dump(meta, f)
    tmp_path.replace(service_dir_path.joinpath("service_meta"))
""", """    tmp_path.write_bytes(pickle.dumps(meta))
    import os
    os.replace(tmp_path, service_dir_path.joinpath("service_meta"))
""")]),
    V("benign-mkdir-exists-caught", "silent", None, [(F.SRV_FM, "create_sid_folder",
      "    _PROGRAM_PATH.joinpath(sid).mkdir(exist_ok=True)", "    try:\n        _PROGRAM_PATH.joinpath(sid).mkdir()\n    except FileExistsError:\n        pass")]),
    V("benign-mkdir-guarded-by-exists", "silent", None, [(F.SRV_FM, "create_sid_folder",
      "    _PROGRAM_PATH.joinpath(sid).mkdir(exist_ok=True)", "    if not _PROGRAM_PATH.joinpath(sid).exists():\n        _PROGRAM_PATH.joinpath(sid).mkdir()")]),
]
