"""C03 - objects survive their wire format; the server needs only config + EDB + token.

Decides that writer and reader of every wire format agree symbolically in the configuration
parameters, that constructor / serialize / __eq__ use one field order, that _Search depends only on
the transmitted objects, and that every scheme's loader names classes that exist.  See DESIGN.md
section 3, C03.
"""
import ast

from ..core import Rule
from ..model import AnalysisError, dotted, unparse, short
from ..cfg import cfg_of
from ..terms import fn_terms, walk, show
from ..schemes import discover, SUFFIXES
from ..symlen import Lengths, Poly
from ..contracts import enforced

EXPLANATION = ("For the 36 structure classes (9 schemes x key / encrypted database / token / result): the field sequence "
               "emitted by serialize (concatenation or pickled tuple) is compared with the slices / pieces / unpacking of "
               "deserialize and with the constructor's parameter->attribute map; each fixed-offset field length is compared, as "
               "a polynomial in the configuration parameters, with the symbolic length the field has where the object is "
               "constructed (_Gen / _Trap), modulo the equalities that the primitives' run-time length guards enforce; the "
               "checked total length must equal the sum; __eq__ must compare every slot.  _Search may read only the index, "
               "the token and self.config; _parse_config may depend only on the configuration dict and module constants; each "
               "package's loader must name existing classes and DEFAULT_CONFIG['scheme'] must be the package path.")
ASSUMPTIONS = ["pickle round-trips built-in containers of bytes faithfully",
               "equality of concrete objects is not computed"]


def _add_chain(t):
    if t[0] == "binop" and t[1] == "Add":
        return _add_chain(t[2]) + _add_chain(t[3])
    return [t]


def ser_fields(ft, fi):
    """-> (format, [attr names], header term) from the return of serialize"""
    rets = [n for n in ft.cfg.nodes if n.kind == "return" and n.stmt.value is not None]
    if len(rets) != 1:
        return None
    t = ft.term(rets[0].stmt.value, rets[0].id)
    header = None
    parts = _add_chain(t)
    if len(parts) >= 2 and parts[0][0] == "const" and isinstance(parts[0][1], bytes) and len(parts[0][1]) > 4:
        header = parts[0]
        parts = parts[1:]
    if len(parts) == 1 and parts[0][0] == "call" and parts[0][1] == "pickle.dumps" and parts[0][2]:
        x = parts[0][2][0]
        elts = list(x[1]) if x[0] == "tuple" else [x]
        names = [_self_attr(e) for e in elts]
        return ("pickle", names, header, x[0] == "tuple")
    if len(parts) == 1 and parts[0][0] == "mcall" and parts[0][2] == "join" and parts[0][3] and parts[0][3][0][0] in ("list", "tuple"):
        parts = list(parts[0][3][0][1])
    names = [_self_attr(e) for e in parts]
    return ("concat", names, header, False)


def _self_attr(t):
    if t[0] == "attr" and t[1] == ("param", "self"):
        return t[2]
    return None


def deser_args(ft, fi):
    """The cls(...) call of deserialize: (list of arg terms, call node, cfg node)"""
    out = []
    for n in ft.cfg.nodes:
        if n.kind == "return" and n.stmt.value is not None and isinstance(n.stmt.value, ast.Call) and dotted(n.stmt.value.func) == "cls":
            c = n.stmt.value
            out.append(([ft.term(a, n.id) for a in c.args], c, n))
    return out


def field_source(t, xparam):
    """How a constructor argument is cut out of the input: ('slice', lo, hi) | ('piece', i, lens) | ('whole',) |
    ('loads', i|None, header_skipped) | ('chunks', size) | ('config',) | None"""
    xb = ("param", xparam)
    if t == xb:
        return ("whole",)
    if t[0] == "slice":
        ab = _abs_slice(t, xb)
        if ab is not None:
            return ("slice", ab[0], ab[1])
    if t[0] == "piece" and t[1] == xb:
        return ("piece", t[2], t[3])
    if t[0] == "star":
        inner = t[1]
        if inner[0] == "comp" and inner[2][0] == "slice" and inner[2][1] == xb:
            return ("chunks", inner)
        if inner[0] == "cont" and len(inner[3]) == 1:
            # the same chunks collected by an explicit loop:  for i in range(..): lst.append(x[i:i + k])
            kind, subs, a, _b, _mn = next(iter(inner[3]))
            init = inner[2]
            empty = init[0] in ("list", "tuple") and not init[1] or (init[0] == "call" and init[1] == "list" and not init[2])
            if kind == "append" and not subs and a and a[0][0] == "slice" and a[0][1] == xb and empty and a[0][2] is not None and a[0][2][0] == "rangevar":
                return ("chunks", ("comp", "ListComp", a[0], (("i", ("call", "range", a[0][2][1], ())),)))
        if inner[0] == "call" and inner[1].endswith("::split_bytes_given_slice_len") and inner[2] and inner[2][0] == xb:
            return ("pieces", inner[2][1])
        ch = inner
        if ch[0] == "call" and ch[1] in ("list", "tuple") and len(ch[2]) == 1:
            ch = ch[2][0]
        if ch[0] == "call" and isinstance(ch[1], str) and ch[1].endswith("list_utils.py::chunks") and len(ch[2]) == 2 and ch[2][0] == xb and not ch[3]:
            # list_utils.chunks(x, k) yields x[i : i + k] for i in range(0, len(x), k)   (R17.4 establishes that)
            rv = ("rangevar", (("const", 0), ("call", "len", (xb,), ()), ch[2][1]))
            return ("chunks", ("comp", "ListComp", ("slice", xb, rv, ("binop", "Add", rv, ch[2][1])),
                               (("i", ("call", "range", (("const", 0), ("call", "len", (xb,), ()), ch[2][1]), ())),)))
    if t == ("param", "config"):
        return ("config",)
    # pickle.loads(...) possibly projected (tuple unpacking) or indexed with a constant
    base, idx = t, None
    if t[0] == "proj":
        base, idx = t[1], t[2]
    elif t[0] == "sub" and len(t) == 3 and t[2][0] == "const" and isinstance(t[2][1], int) and t[1][0] == "call" and t[1][1] == "pickle.loads":
        base, idx = t[1], t[2][1]
    if base[0] == "call" and base[1] == "pickle.loads" and base[2]:
        src = base[2][0]
        return ("loads", idx, src)
    return None


def _abs_slice(t, xb, depth=0):
    """slice of (slice of ...) the input -> (absolute lo term | None, absolute hi term | None)"""
    if depth > 8 or t[0] != "slice":
        return None
    base, lo, hi = t[1], t[2], t[3]
    if base == xb:
        return (lo, hi)
    inner = _abs_slice(base, xb, depth + 1)
    if inner is None:
        return None
    ilo, ihi = inner
    if ihi is not None:
        return None  # slice of a bounded slice: not needed by the repository's idioms
    def add(a, b):
        if a is None:
            return b
        if b is None:
            return a
        return ("binop", "Add", a, b)
    for x in (lo, hi):
        if x is not None and x[0] == "unop":
            return None
    return (add(ilo, lo), add(ilo, hi) if hi is not None else None)


def check(repo):
    r1 = Rule("R3.1", "serialize and deserialize agree on fields, order and lengths")
    r2 = Rule("R3.2", "constructor, serialize and __eq__ use one field order; __eq__ compares every slot")
    r3 = Rule("R3.3", "_Search depends only on index, token and configuration; the config is a function of the dict")
    r4 = Rule("R3.4", "every scheme loader names existing classes and the advertised scheme path")
    rules = [r1, r2, r3, r4]
    schemes = discover(repo)
    n_cls = 0
    for s in schemes:
        L = Lengths(repo, s)
        eq, contracts = enforced(repo, s, L)
        for suffix, ci in (("Key", s.key_cls), ("EncryptedDatabase", s.edb_cls), ("Token", s.token_cls), ("Result", s.result_cls)):
            if ci is None:
                r4.fail(s.structures.rel, s.sse_name + suffix, 0, "class missing", "%s%s does not exist in %s" % (s.sse_name, suffix, s.structures.rel))
                continue
            n_cls += 1
            ser, de = ci.methods.get("serialize"), ci.methods.get("deserialize")
            if ser is None or de is None:
                r1.fail(s.structures.rel, ci.name, ci.node.lineno, "serialize/deserialize missing", "%s lacks serialize or deserialize" % ci.name)
                continue
            fts, ftd = fn_terms(repo, ser), fn_terms(repo, de)
            if suffix == "Result":
                _check_result_refusals(r1, ci, de)
                _check_result_container(repo, r1, s, ci, de)
            sf = ser_fields(fts, ser)
            attrs = s.ctor_positional(ci)
            slots = None
            if "__slots__" in ci.attrs:
                try:
                    slots = list(repo.const_value(ci.module, ci.attrs["__slots__"]))
                except Exception:
                    slots = None
            data_attrs = [a for a in attrs if a]
            if sf is None or any(x is None for x in sf[1]):
                r1.fail_fn(ser, ser.node, "serialize form", "%s.serialize is not a concatenation / pickling of its attributes" % ci.name)
                continue
            fmt, names, header, is_tuple = sf
            # ---------------------------------------------------------------- R3.2
            ok_order = names == data_attrs[:len(names)] and len(names) == len(data_attrs)
            r2.require(ok_order, ser, "field order",
                       "%s: serialize emits %s but the constructor takes %s: a deserialized object gets its fields swapped or dropped" % (ci.name, names, data_attrs))
            _check_eq(r2, ci, slots or data_attrs)
            # ---------------------------------------------------------------- R3.1
            calls = deser_args(ftd, de)
            if not calls:
                r1.fail_fn(de, de.node, "deserialize builds no object", "%s.deserialize never returns cls(...)" % ci.name)
                continue
            xparam = de.params[1]
            for args, call, node in calls:
                # cls(seq[0], seq[1], .., seq[n-1], ...) with every element of one sequence in order is cls(*seq, ...)
                subs_ = [a for a in args if a[0] == "sub" and len(a) == 3 and a[2][0] == "const" and isinstance(a[2][1], int) and a[1][0] in ("comp", "cont", "call")
                         and not (a[1][0] == "call" and a[1][1] == "pickle.loads")]
                if len(subs_) >= 2 and len({repr(a[1]) for a in subs_}) == 1 and [a[2][1] for a in subs_] == list(range(len(subs_))) and \
                        list(args[:len(subs_)]) == subs_:
                    args = [("star", subs_[0][1])] + list(args[len(subs_):])
                srcs = [field_source(a, xparam) for a in args]
                data_srcs = [x for x in srcs if x is not None and x[0] != "config"]
                desc = {"class": ci.key, "format": fmt, "fields": names}
                if fmt == "pickle":
                    _check_pickle(r1, ci, de, ftd, call, node, names, is_tuple, header, srcs, desc, xparam)
                else:
                    _check_concat(repo, r1, s, ci, de, ftd, call, node, names, srcs, L, eq, desc, xparam, suffix)
    r1.require(n_cls >= 36, schemes[0].method("_Enc"), "classes floor", "only %d structure classes analysed (expected 36)" % n_cls)
    for s in schemes:
        _check_search_independence(repo, r3, s)
        _check_loader(repo, r4, s)
    _check_registry(repo, r4)
    return rules


def _check_eq(r2, ci, slots):
    eqm = ci.methods.get("__eq__")
    if eqm is None:
        r2.fail(ci.module.rel, ci.name, ci.node.lineno, "__eq__ missing", "%s has no __eq__" % ci.name)
        return
    compared = set()
    for c in ast.walk(eqm.node):
        if isinstance(c, ast.Compare) and len(c.ops) == 1 and isinstance(c.ops[0], ast.Eq):
            l, r = c.left, c.comparators[0]
            if isinstance(l, ast.Attribute) and isinstance(r, ast.Attribute) and l.attr == r.attr and \
                    {dotted(l.value), dotted(r.value)} == {"self", eqm.params[1]}:
                compared.add(l.attr)
    missing = [a for a in slots if a not in compared]
    r2.require(not missing, eqm, "__eq__ compares every slot", "%s.__eq__ does not compare %s" % (ci.name, missing))
    ic = any(isinstance(c, ast.Call) and dotted(c.func) == "isinstance" for c in ast.walk(eqm.node))
    r2.require(ic, eqm, "__eq__ type check", "%s.__eq__ has no isinstance check" % ci.name)
    # polarity, path by path: a foreign object must yield False without its fields being read; an object of the same
    # class must be able to compare equal, and only after every slot was compared
    from ..pathsum import summarize
    other = eqm.params[1]

    def peval(t, isinst):
        if not isinstance(t, tuple) or not t:
            return t
        if t[0] == "call" and t[1] == ("fn", "isinstance"):
            return ("const", isinst)
        if t[0] == "un" and t[1] == "Not":
            v = peval(t[2], isinst)
            return ("const", not v[1]) if v[0] == "const" else ("un", "Not", v)
        if t[0] == "bool":
            conj = t[1] == "And"
            vals = []
            for x in t[2]:
                v = peval(x, isinst)
                if v[0] == "const" and isinstance(v[1], bool):
                    if v[1] != conj:
                        return ("const", v[1])   # short circuit: later operands are not evaluated
                    continue
                vals.append(v)
            if not vals:
                return ("const", conj)
            return vals[0] if len(vals) == 1 else ("bool", t[1], tuple(vals))
        return t

    def field_cmps(t):
        out = set()
        if t[0] == "bool" and t[1] == "And":
            for x in t[2]:
                out |= field_cmps(x)
        if t[0] == "cmp" and t[1] == ("Eq",):
            l, r = t[2]
            if l[0] == "attr" and r[0] == "attr" and l[2] == r[2] and {l[1], r[1]} == {("var", "self"), ("var", other)}:
                out.add(l[2])
        return out

    def reads_other(t):
        from ..straight import mentions as smentions
        return smentions(t, other)
    if ic:
        can_equal = False
        for p in summarize(eqm):
            if p.exc is not None:
                continue
            known = [t for (k, t) in p.facts if k[0] == "truth" and k[1].startswith("isinstance(")]
            for isinst in ([known[0]] if known else [True, False]):
                v = peval(p.ret if p.ret is not None else ("const", None), isinst)
                if not isinst:
                    if not (v == ("const", False) or v == ("var", "NotImplemented")):
                        r2.fail_fn(eqm, cfg_of(eqm.node).nodes[p.nodes[-1]].stmt, "__eq__ rejects foreign objects",
                                   "%s.__eq__ compares the fields of an object of another class (for a foreign object it yields %s instead of False)" % (ci.name, S_show(v)[:80]))
                        break
                    continue
                eq_facts = {k[1].split(".", 1)[1] for (k, t) in p.facts if k[0] == "==" and t and k[1].split(".")[0] in ("self", other) and
                            k[2].split(".")[0] in ("self", other) and k[1].split(".", 1)[-1] == k[2].split(".", 1)[-1] and "." in k[1]}
                if v == ("const", False):
                    continue
                covered = eq_facts | field_cmps(v)
                if v == ("const", True) or field_cmps(v) or v[0] in ("cmp", "bool"):
                    can_equal = True
                    miss = [a for a in slots if a not in covered]
                    if miss:
                        r2.fail_fn(eqm, cfg_of(eqm.node).nodes[p.nodes[-1]].stmt, "__eq__ compares every slot on every accepting path",
                                   "%s.__eq__ can answer True without comparing %s" % (ci.name, miss))
                        break
        r2.require(can_equal, eqm, "__eq__ compares objects of its own class",
                   "%s.__eq__ never reaches the field comparison for an object of the same class (inverted type test): equal objects compare unequal" % ci.name)


def _check_result_refusals(r1, ci, de):
    """A result travels from the server's search to the client: deserialize may refuse a payload of the wrong container
    type, but not by a condition on the configuration - the schemes do not restrict stored identifiers to the configured
    size (it only sizes the dummy entries), so such a condition rejects results that search legitimately produced."""
    from ..facts import facts_of, mentions
    F = facts_of(de)
    cfgp = de.params[2] if len(de.params) > 2 else "config"
    bad = None
    for n, name, f in F.raises():
        for alt in F.alts(n.id) or []:
            for (k, t) in alt:
                if mentions(k, cfgp) or mentions(k, cfgp + "__entry"):
                    if k[0] == "is" and "None" in k[1:]:
                        continue
                    if any(("len(" in part or "size" in part) for part in k[1:]):
                        bad = (n, k, t)
    if bad is not None:
        n, k, t = bad
        r1.fail_fn(de, n.stmt, "result refused by configuration",
                   "%s.deserialize refuses a result by a configuration-dependent length condition (%s): search results whose identifiers do not have the "
                   "configured size - which EDBSetup and Search accept - can no longer be read back on the client" % (ci.name, " ".join(map(str, k))))
    else:
        r1.ok({"class": ci.name, "check": "deserialize refuses only by payload type"})


def _container_kind(t, depth=0):
    """'set' / 'list' for a term that is recognisably one of the two, else None."""
    if depth > 8 or not isinstance(t, tuple) or not t:
        return None
    if t[0] in ("list",):
        return "list"
    if t[0] == "set":
        return "set"
    if t[0] == "comp":
        return {"ListComp": "list", "SetComp": "set"}.get(t[1])
    if t[0] == "call" and t[1] in ("list", "sorted"):
        return "list"
    if t[0] == "call" and t[1] in ("set", "frozenset"):
        return "set"
    if t[0] == "cont":
        return _container_kind(t[2], depth + 1)
    if t[0] == "phi":
        kinds = {_container_kind(x, depth + 1) for x in t[1]}
        return kinds.pop() if len(kinds) == 1 else None
    return None


def _check_result_container(repo, r1, s, ci, de):
    """deserialize accepts one container type (isinstance(<unpickled>, T)); every result object the search builds has to hold that
    type - a result built around the other one cannot be read back by the client."""
    from ..facts import facts_of
    want = None
    for c in ast.walk(de.node):
        if isinstance(c, ast.Call) and dotted(c.func) == "isinstance" and len(c.args) == 2:
            tn = (dotted(c.args[1]) or "").split(".")[-1].lower()
            if tn in ("set", "list"):
                want = tn
    if want is None:
        return
    search = s.method("_Search")
    fts = fn_terms(repo, search)
    for n in fts.cfg.nodes:
        if n.kind != "return" or n.stmt.value is None:
            continue
        t = fts.term(n.stmt.value, n.id)
        for alt in (t[1] if t[0] == "phi" else [t]):
            if alt[0] == "call" and isinstance(alt[1], str) and alt[1].endswith("%s.__init__" % ci.name) and alt[2]:
                kind = _container_kind(alt[2][0])
                desc = {"scheme": s.name, "result_arg": show(alt[2][0], maxdepth=3)[:80], "deserialize_accepts": want, "line": n.line}
                if kind is not None and kind != want:
                    r1.fail_fn(search, n.stmt, "result container is a %s" % kind,
                               "%s._Search returns a %s holding a %s, but %s.deserialize only accepts a pickled %s: that result (e.g. the one for a keyword that is not in the "
                               "database) does not survive its own wire format" % (s.name, ci.name, kind, ci.name, want), witness=desc)
                else:
                    r1.ok(desc)


def S_show(t):
    from ..straight import show as _s
    return _s(t)


def _check_pickle(r1, ci, de, ftd, call, node, names, is_tuple, header, srcs, desc, xparam):
    data = [(i, x) for i, x in enumerate(srcs) if x is not None and x[0] == "loads"]
    if len(data) != len(names):
        r1.fail_fn(de, call, "pickle arity", "%s: serialize pickles %d field(s) %s but deserialize passes %d unpickled value(s) to the constructor" % (
            ci.name, len(names), names, len(data)))
        return
    for pos, (i, x) in enumerate(data):
        idx = x[1]
        want = pos if is_tuple else None
        if i != pos or idx != want:
            r1.fail_fn(de, call, "pickle order", "%s: constructor argument %d is taken from unpickled component %s, expected %s" % (ci.name, i, idx, want))
            return
        # header handling symmetric
        src = x[2]
        skipped = src[0] == "slice" and src[1] == ("param", xparam) and src[2] is not None
        if header is not None:
            hlen = ("call", "len", (header,), ())
            ok = skipped and (src[2] == hlen or src[2] == ("const", len(header[1])))
            if not ok:
                r1.fail_fn(de, call, "header not skipped", "%s: serialize prepends a %d-byte header but deserialize unpickles %s" % (ci.name, len(header[1]), show(src, maxdepth=3)))
                return
        elif skipped:
            r1.fail_fn(de, call, "header skipped but not written", "%s: deserialize skips a prefix that serialize does not write" % ci.name)
            return
    if header is not None:
        # header is checked and refused
        chk = False
        for t in ast.walk(de.node):
            if isinstance(t, ast.If) and any(isinstance(x, ast.Raise) for b in t.body for x in ast.walk(b)):
                tt = ftd.term(t.test, ftd.cfg.nodes_of(t)[0])
                if any(isinstance(x, tuple) and x == header for x in walk(tt)) and tt[0] == "cmp" and tt[1] == ("NotEq",):
                    chk = True
        r1.require(chk, de, "header verified", "%s.deserialize no longer refuses input with a wrong header" % ci.name)
    r1.ok(desc)


def _check_concat(repo, r1, s, ci, de, ftd, call, node, names, srcs, L, eq, desc, xparam, suffix):
    # declared lengths of the fields
    declared = []
    data = [x for x in srcs if x is not None and x[0] != "config"]
    if len(data) == 1 and data[0][0] == "chunks":
        comp = data[0][1]
        sl = comp[2]
        # xbytes[i : i + k] for i in range(0, len(xbytes), k)
        size = None
        if sl[3] is not None and sl[3][0] == "binop" and sl[3][1] == "Add":
            size = L.value(sl[3][3])
        rng = comp[3][0][1]
        step = L.value(rng[2][2]) if rng[0] == "call" and rng[1] == "range" and len(rng[2]) == 3 else None
        if size is None or step is None or not eq.equal(size, step):
            r1.fail_fn(de, call, "chunking stride", "%s.deserialize cuts the input in chunks of %s stepping by %s" % (ci.name, size, step))
            return
        declared = [size] * len(names)
    elif len(data) == 1 and data[0][0] == "pieces":
        lens = data[0][1]
        declared = _lens_list(L, lens)
        if declared is None:
            r1.fail_fn(de, call, "piece lengths", "%s.deserialize: slice length list not understood" % ci.name)
            return
    elif len(data) == 1 and data[0][0] == "whole":
        declared = [None]
    else:
        offset = Poly.const(0)
        for j, x in enumerate(data):
            if x[0] == "piece":
                lens = _lens_list(L, x[2])
                if lens is None or x[1] != j or len(lens) != len(names):
                    r1.fail_fn(de, call, "piece order", "%s: constructor argument %d is piece %s of the split input" % (ci.name, j, x[1]))
                    return
                declared.append(lens[j])
            elif x[0] == "slice":
                lo = L.value(x[1]) if x[1] is not None else Poly.const(0)
                if not eq.equal(lo, offset):
                    r1.fail_fn(de, call, "field %d offset" % j, "%s: field %d (%s) is cut at offset %s, but the preceding fields occupy %s bytes" % (
                        ci.name, j, names[j] if j < len(names) else "?", lo.canon(), offset.canon()))
                    return
                if x[2] is None:
                    declared.append(None)
                else:
                    hi = L.value(x[2])
                    declared.append(hi - lo)
                    offset = hi
                    continue
            else:
                r1.fail_fn(de, call, "field source", "%s: constructor argument %d is not cut from the input" % (ci.name, j))
                return
            if declared[-1] is not None:
                offset = offset + declared[-1]
    if len(declared) != len(names):
        r1.fail_fn(de, call, "field count", "%s: serialize emits %d fields %s, deserialize reconstructs %d" % (ci.name, len(names), names, len(declared)))
        return
    # constructed lengths (where the object is made)
    users = {"Key": s.method("_Enc").params[1], "Token": s.method("_Search").params[2]}
    built = [L.obj_attr.get((users.get(suffix), a)) for a in names]
    total_decl = _total_check(de, ftd, L, xparam)
    for j, (d, b) in enumerate(zip(declared, built)):
        if d is None or b is None:
            continue
        if eq.equal(d, b):
            r1.ok({"class": ci.key, "field": names[j], "declared": d.canon(), "constructed": b.canon()})
        else:
            r1.fail_fn(de, call, "field %s length" % names[j],
                       "%s: deserialize takes %s bytes for %s, but %s constructs it with %s bytes and no length contract forces the two to be equal: "
                       "with a configuration where they differ the object cannot be reloaded (or is mis-parsed silently)" % (
                           ci.name, d.canon(), names[j], "_Gen" if suffix == "Key" else "_Trap", b.canon()))
    if all(b is not None for b in built):
        s_built = Poly.const(0)
        for b in built:
            s_built = s_built + b
        if total_decl is None:
            r1.fail_fn(de, de.node, "total length check", "%s.deserialize no longer refuses input of the wrong total length" % ci.name)
        elif not eq.equal(total_decl, s_built):
            r1.fail_fn(de, de.node, "total length",
                       "%s.deserialize requires %s bytes in total, but the object serializes to %s bytes" % (ci.name, total_decl.canon(), s_built.canon()))
        else:
            r1.ok({"class": ci.key, "total": total_decl.canon()})
    last_none = [d for d in declared if d is None]
    if last_none and len(declared) > 1 and declared[-1] is not None:
        r1.fail_fn(de, call, "open-ended field in the middle", "%s: an open-ended slice is not the last field" % ci.name)


def _lens_list(L, lens):
    if lens[0] in ("list", "tuple"):
        return [L.value(x) for x in lens[1]]
    if lens[0] == "binop" and lens[1] == "Mult":
        for a, b in ((lens[2], lens[3]), (lens[3], lens[2])):
            if a[0] in ("list", "tuple") and len(a[1]) == 1 and b[0] == "const" and isinstance(b[1], int):
                return [L.value(a[1][0])] * b[1]
    return None


def _total_check(de, ftd, L, xparam):
    """`if len(xbytes) != TOTAL: raise` -> TOTAL"""
    for st in ast.walk(de.node):
        if isinstance(st, ast.If) and any(isinstance(x, ast.Raise) for b in st.body for x in ast.walk(b)):
            ids = ftd.cfg.nodes_of(st)
            if not ids:
                continue
            t = ftd.term(st.test, ids[0])
            if t[0] == "cmp" and t[1] == ("NotEq",):
                a, b = t[2]
                ln = ("call", "len", (("param", xparam),), ())
                if a == ln:
                    return L.value(b)
                if b == ln:
                    return L.value(a)
    return None


def _check_search_independence(repo, r3, s):
    fi = s.method("_Search")
    allowed = set(fi.params)
    # reads of self.<x>: only self.config
    for fn in _closure(repo, s, fi):
        for n in ast.walk(fn.node):
            if isinstance(n, ast.Attribute) and isinstance(n.value, ast.Name) and n.value.id == "self" and isinstance(n.ctx, ast.Load):
                if n.attr == "config" or n.attr in s.cls.methods:
                    continue
                r3.fail_fn(fn, n, "search reads self.%s" % n.attr,
                           "%s (reached from _Search) reads self.%s: the server holds only the configuration, the index and the token" % (fn.qual, n.attr))
    r3.ok({"scheme": s.name, "search_closure": [f.qual for f in _closure(repo, s, fi)]})
    # parameters: (self, edb, token) only
    r3.require(len(fi.params) == 3, fi, "_Search signature", "%s._Search takes %s, expected (self, index, token)" % (s.name, fi.params))
    pub = s.cls.methods.get("Search")
    if pub is not None:
        r3.require(len(pub.params) == 3, pub, "Search signature", "%s.Search takes %s" % (s.name, pub.params))
    # _parse_config: only config_dict, self slots and module constants
    pc = s.config_cls.methods.get("_parse_config") if s.config_cls else None
    if pc is None:
        raise AnalysisError("%s: _parse_config vanished" % s.name)
    for c in ast.walk(pc.node):
        if isinstance(c, ast.Call):
            d = dotted(c.func) or ""
            if d.split(".")[0] in ("os", "time", "random", "secrets", "socket", "uuid", "datetime") or d in ("open", "input"):
                r3.fail_fn(pc, c, "config depends on %s" % d, "%s._parse_config calls %s: the configuration object is no longer a function of the dict" % (s.name, d))
    r3.ok()
    # no module-level mutable state feeds the configuration (memo tables, registries)
    mod = pc.module
    for nm, v in mod.globals.items():
        mutable = isinstance(v, (ast.Dict, ast.List, ast.Set)) or (isinstance(v, ast.Call) and dotted(v.func) in ("dict", "list", "set", "collections.defaultdict", "defaultdict"))
        if not mutable or nm == "DEFAULT_CONFIG":
            continue
        from ..normalize import _mutated, _escapes
        if not _mutated(mod.tree, nm) and not _escapes(mod.tree, nm, repo=repo, module=mod):
            continue   # a read-only table (e.g. the list of required fields) is a constant, not state
        for fn in [pc] + [f for f in mod.functions.values()]:
            for n in ast.walk(fn.node):
                if isinstance(n, ast.Name) and n.id == nm:
                    r3.fail_fn(fn, n, "config uses module-level table %s" % nm,
                               "%s: %s uses the module-level mutable table %s: a configuration object now depends on which configurations were built "
                               "before it in the same process, not only on its dict" % (s.name, fn.qual, nm))
                    break
    # every slot value is JSON-representable input or derived: the dict itself is never stored
    for st in ast.walk(pc.node):
        if isinstance(st, ast.Assign) and isinstance(st.value, ast.Name) and st.value.id == pc.params[1]:
            r3.fail_fn(pc, st, "config keeps the dict", "%s._parse_config stores the caller's dict" % s.name)
    # ... and is filled only while it is built: nothing re-derives slots later (a client that did so would disagree with a server,
    # or with its own next session, built from the same JSON)
    from .c07 import config_mutators
    for (m, st, f, c) in config_mutators(repo, s):
        r3.fail_fn(f, c, "configuration changed after construction by %s" % m.name,
                   "%s calls %s, which stores into the configuration object (%s): the configuration is then no longer a function of its dict, "
                   "and whoever rebuilds the scheme from the stored JSON (the server, a later session) works with other parameters" % (f.qual, m.qual, short(st)))
    r3.ok()
    # the scheme constructor builds its config from the dict it is given
    init = s.cls.methods.get("__init__")
    built = [c for c in ast.walk(init.node) if isinstance(c, ast.Call) and (dotted(c.func) or "").endswith("Config") and c.args
             and isinstance(c.args[0], ast.Name) and c.args[0].id == init.params[1]]
    r3.require(bool(built), init, "scheme builds config from its argument", "%s.__init__ no longer builds its configuration from the dict it is given" % s.name)


def _closure(repo, s, fi, seen=None):
    seen = seen if seen is not None else {}
    if fi.key in seen:
        return list(seen.values())
    seen[fi.key] = fi
    for c in ast.walk(fi.node):
        if isinstance(c, ast.Call):
            tgt = repo.resolve_call(fi, c)
            if hasattr(tgt, "key") and tgt.cls is s.cls:
                _closure(repo, s, tgt, seen)
    return list(seen.values())


def _check_loader(repo, r4, s):
    init_mod = repo.module(s.pkg + "/__init__.py")
    pkg_path = s.pkg.replace("schemes/", "").replace("/", ".")
    r4.require(s.module_name == pkg_path, s.pkg + "/__init__.py", "loader module name",
               "%s: loader _module_name is %r but the package is %r" % (s.pkg, s.module_name, pkg_path), function="ModuleClassLoader")
    bound = "sse_module_class_loader" in init_mod.globals and isinstance(init_mod.globals["sse_module_class_loader"], ast.Call)
    r4.require(bound, s.pkg + "/__init__.py", "loader instance bound", "%s: sse_module_class_loader is not bound to a loader instance" % s.pkg, function="<module>")
    for suffix, mod in (("", s.construction), ("Config", s.config), ("Key", s.structures), ("EncryptedDatabase", s.structures),
                        ("Token", s.structures), ("Result", s.structures)):
        name = s.sse_name + suffix
        r4.require(name in mod.classes, mod.rel, "class %s" % name, "%s does not define %s, which the loader resolves by name" % (mod.rel, name), function=name)
    dc = s.config.globals.get("DEFAULT_CONFIG")
    try:
        val = repo.const_value(s.config, dc) if dc is not None else None
    except Exception:
        val = None
    ok = isinstance(val, dict) and val.get("scheme") == s.module_name
    r4.require(ok, s.config.rel, "DEFAULT_CONFIG scheme", "%s: DEFAULT_CONFIG['scheme'] is %r, the server locates the scheme by %r" % (
        s.config.rel, val.get("scheme") if isinstance(val, dict) else None, s.module_name), function="DEFAULT_CONFIG")
    if isinstance(val, dict):
        # the default configuration is JSON-representable
        import json
        try:
            json.dumps(val)
            r4.ok()
        except Exception:
            r4.fail(s.config.rel, "DEFAULT_CONFIG", 0, "DEFAULT_CONFIG not JSON", "%s: DEFAULT_CONFIG contains values JSON cannot represent" % s.config.rel)
    if s.config_cls is not None:
        r4.require("DEFAULT_CONFIG" in s.config_cls.attrs, s.config.rel, "config class default", "%sConfig.DEFAULT_CONFIG missing" % s.sse_name, function=s.config_cls.name)


def _check_registry(repo, r4):
    ml = repo.module("schemes/interface/module_loader.py")
    want = {"_CONFIG_CLASS_SUFFIX": "Config", "_KEY_CLASS_SUFFIX": "Key", "_ENCRYPTED_DATABASE_CLASS_SUFFIX": "EncryptedDatabase",
            "_TOKEN_CLASS_SUFFIX": "Token", "_RESULT_CLASS_SUFFIX": "Result", "_CONSTRUCTION_MODULE_NAME": ".construction",
            "_STRUCTURE_MODULE_NAME": ".structures", "_CONFIG_MODULE_NAME": ".config"}
    for k, v in want.items():
        try:
            got = repo.const_value(ml, ml.globals[k])
        except Exception:
            got = None
        r4.require(got == v, ml.rel, "loader constant %s" % k, "module_loader.%s is %r, expected %r" % (k, got, v), function="<module>")
    ci = ml.classes.get("SSEModuleClassLoader")
    if ci is None:
        raise AnalysisError("SSEModuleClassLoader vanished")
    # each property loads the module it needs and uses the matching suffix
    table = {"SSEScheme": ("_load_construction_module", "_construction_module", None),
             "SSEConfig": ("_load_config_module", "_config_module_module", "_CONFIG_CLASS_SUFFIX"),
             "SSEKey": ("_load_structure_module", "_structure_module", "_KEY_CLASS_SUFFIX"),
             "SSEEncryptedDatabase": ("_load_structure_module", "_structure_module", "_ENCRYPTED_DATABASE_CLASS_SUFFIX"),
             "SSEToken": ("_load_structure_module", "_structure_module", "_TOKEN_CLASS_SUFFIX"),
             "SSEResult": ("_load_structure_module", "_structure_module", "_RESULT_CLASS_SUFFIX")}
    for prop, (loader, modattr, suf) in table.items():
        fi = ci.methods.get(prop)
        if fi is None:
            r4.fail(ml.rel, "SSEModuleClassLoader", 0, "loader property %s" % prop, "SSEModuleClassLoader.%s vanished" % prop)
            continue
        # every normal path: the loader ran, and the class looked up in that module is <sse_name><suffix>
        from ..pathsum import summarize as _sum
        from .. import straight as _S
        NAME = ("attr", ("var", "self"), "_sse_name")
        sval = None
        if suf is not None:
            try:
                sval = repo.const_value(ml, ml.globals[suf])
            except Exception:
                sval = None
        cnames = [NAME] if suf is None else [("cat", (NAME, ("const", sval))), ("cat", (NAME, ("var", suf)))]
        MOD = ("attr", ("var", "self"), modattr)
        ok, seen = True, False
        for ps in _sum(fi):
            if ps.exc is not None:
                continue
            seen = True
            loaded = any(e[0] == "call" and e[1] == ("call", ("fn", "self." + loader), (), ()) for e in ps.events)
            rt = ps.ret
            good = rt is not None and rt[0] == "call" and rt[1] == ("fn", "getattr") and len(rt[2]) >= 2 and rt[2][0] == MOD and rt[2][1] in cnames
            if not (loaded and good):
                ok = False
        r4.require(ok and seen, fi, "loader property %s" % prop, "SSEModuleClassLoader.%s no longer loads %s and resolves sse_name + %s" % (prop, modattr, suf))
    lm = repo.func("schemes/__init__.py", "load_sse_module")
    imports = any(isinstance(c, ast.Call) and (dotted(c.func) or "").endswith("import_module") for c in ast.walk(lm.node))
    from ..facts import facts_of as _fo
    refuses = any(name and name.split(".")[-1] == "ValueError" for _n, name, _f in _fo(lm).raises())
    r4.require(imports and refuses, lm, "load_sse_module", "load_sse_module no longer imports by name / refuses unknown schemes")


# ----------------------------------------------------------------------------- self-test variants
from ..selftest import V  # noqa: E402

_PBS = "schemes/CJJ14/PiBas/structures.py"
VARIANTS = [
    V("pibas-token-fields-swapped", "fire", "R3.1", [(_PBS, "PiBasToken.deserialize", "return cls(K1, K2, config)", "return cls(K2, K1, config)")]),
    V("ct14-token-sliced-at-k-prime", "fire", "R3.1", [("schemes/CT14/Pi/structures.py", "PiToken.deserialize",
      "K1, K2 = xbytes[:config.param_k], xbytes[config.param_k:]", "K1, K2 = xbytes[:config.param_k_prime], xbytes[config.param_k_prime:]")]),
    V("pi2lev-edb-drops-field", "fire", "R3.", [("schemes/CJJ14/Pi2Lev/structures.py", "Pi2LevEncryptedDatabase.serialize",
      "pickle.dumps((self.D, self.A))", "pickle.dumps((self.D,))")]),
    V("anss16-edb-unpack-swapped", "fire", "R3.1", [("schemes/ANSS16/Scheme3/structures.py", "PiEncryptedDatabase.deserialize",
      "return cls(HT_S, HT_list, config)", "return cls(HT_list, HT_S, config)")]),
    V("anss16-key-length-param-k", "fire", "R3.1", [("schemes/ANSS16/Scheme3/structures.py", "PiKey.deserialize",
      "if len(xbytes) != config.param_lambda:", "if len(xbytes) != config.param_k:")]),
    V("dp17-key-total-length", "fire", "R3.1", [("schemes/DP17/Pi/structures.py", "PiKey.deserialize",
      "if len(xbytes) != 3 * config.param_lambda:", "if len(xbytes) != 2 * config.param_lambda:")]),
    V("sse1-token-offset-wrong", "fire", "R3.1", [("schemes/CGKO06/SSE1/structures.py", "SSE1Token.deserialize",
      "gamma, eta = xbytes[:config.param_l], xbytes[config.param_l:]", "gamma, eta = xbytes[:config.param_k], xbytes[config.param_k:]")]),
    V("result-class-renamed", "fire", "R3.4", [("schemes/CT14/Pi/structures.py", None, "class PiResult(SSEResult):", "class PiResults(SSEResult):")]),
    V("search-reads-instance-state", "fire", "R3.3", [("schemes/CJJ14/PiBas/construction.py", "PiBas._Search", "        D = edb.D", "        D = edb.D if edb is not None else self._last_edb.D")]),
    V("default-config-scheme-wrong", "fire", "R3.4", [("schemes/CJJ14/PiPack/config.py", None, "\"scheme\": \"CJJ14.PiPack\"", "\"scheme\": \"CJJ14.PiBas\"")]),
    V("eq-ignores-a-slot", "fire", "R3.2", [("schemes/DP17/Pi/structures.py", "PiToken.__eq__",
      "return self.tag == other.tag and self.vtag == other.vtag and self.etag == other.etag", "return self.tag == other.tag and self.vtag == other.vtag")]),
    V("sse1-edb-header-not-checked", "fire", "R3.1", [("schemes/CGKO06/SSE1/structures.py", "SSE1EncryptedDatabase.deserialize",
      "        if xbytes[:len(SSE1_HEADER)] != SSE1_HEADER:\n            raise ValueError(\"Parse header error.\")\n", "")]),
    V("benign-split-helper", "silent", None, [(_PBS, "PiBasToken.deserialize",
      "K1, K2 = xbytes[:config.param_lambda], xbytes[config.param_lambda:]", "from toolkit.bytes_utils import split_bytes_given_slice_len\n        K1, K2 = split_bytes_given_slice_len(xbytes, [config.param_lambda, config.param_lambda])")]),
    V("benign-chained-slices", "silent", None, [(_PBS, "PiBasToken.deserialize",
      "K1, K2 = xbytes[:config.param_lambda], xbytes[config.param_lambda:]", "K1, rest = xbytes[:config.param_lambda], xbytes[config.param_lambda:]\n        K2 = rest")]),
]
