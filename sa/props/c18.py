"""C18 - bit strings behave like fixed-width big-endian bit vectors.

Decides that width bookkeeping is integer-exact and that each operator sets the result width the
model prescribes.  See DESIGN.md section 3, C18.
"""
import ast

from ..core import Rule
from ..model import AnalysisError, dotted, unparse, short
from ..cfg import cfg_of
from .. import straight as S
from ..facts import facts_of
from ..contract import entry, describe_alt, isinstance_of, refusals, unpermitted, exit_nodes
from ..pathsum import summarize

EXPLANATION = ("Use-def reconstruction of every operator of toolkit.bits.Bitset: the value and the length assigned to the result "
               "are compared, as canonical arithmetic terms, with the fixed-width model (and/or/xor -> max of both lengths; "
               "invert/shifts -> own length with the mask (1 << length) - 1 where bits could escape; concat -> left shifted by the "
               "right operand's length, lengths added; higher/lower k bits -> shift by length - k, width k; bytes -> (length + 7) "
               "// 8 big-endian); no floating-point value may flow into a length, shift or mask (minimal width from int.bit_length); "
               "the guards (value fits length, 0 <= k <= length, concat only with Bitset) must raise; the halving helpers split at "
               "(n + 1) // 2.")
ASSUMPTIONS = ["agreement with the list-of-bits model on all values is not proved; only the width/shape bookkeeping is decided"]

BITS = "toolkit/bits.py"
BU = "toolkit/bits_utils.py"


def _float_taint(fi):
    """Names / expressions in fi that may hold floats: math.log*, true division, float()."""
    bad = []
    for n in ast.walk(fi.node):
        if isinstance(n, ast.Call):
            d = dotted(n.func) or ""
            if d in ("math.log", "math.log2", "math.log10", "float", "math.sqrt", "math.pow") or d.startswith("numpy."):
                bad.append(n)
        if isinstance(n, ast.BinOp) and isinstance(n.op, ast.Div):
            bad.append(n)
    return bad


SV = ("attr", ("var", "self"), "value")
SL = ("attr", ("var", "self"), "length")
LEN_SELF = [("call", ("fn", "len"), (("var", "self"),), ()), SL]


def _int(x):
    return ("call", ("fn", "int"), (x,), ())


def _attr(x, a):
    return ("attr", x, a)


def _either(op, a, b):
    return [("op", op, a, b), ("op", op, b, a)]


def _mask(L):
    return ("op", "Sub", ("op", "LShift", ("const", 1), L), ("const", 1))


def _maxlen(a, b):
    return [("call", ("fn", "max"), (a, b), ()), ("call", ("fn", "max"), (b, a), ()), ("call", ("fn", "max"), (("tuple", (a, b)),), ()),
            ("call", ("fn", "max"), (("tuple", (b, a)),), ())]


def results(fi):
    """[(path, value term, length term or None)] of the Bitset every normal path of `fi` returns:
    Bitset(v, l) directly, or a local b = Bitset(v) whose b.length was set before it is returned."""
    out = []
    for ps in summarize(fi):
        if ps.exc is not None or not ps.returned:
            continue
        rt = ps.ret
        name = None
        # `return b`: pathsum substituted b's value; recover which local it was to find its .length store
        for k, v in ps.env.items():
            if "." not in k and v == rt and (k + ".length") in ps.env:
                name = k
        if rt is not None and rt[0] == "call" and rt[1] == ("fn", "Bitset"):
            kw = dict(rt[3])
            v = rt[2][0] if rt[2] else kw.get("value")
            ln = rt[2][1] if len(rt[2]) > 1 else kw.get("length")
            if name is not None:
                ln = ps.env[name + ".length"]
            out.append((ps, v, ln))
        else:
            out.append((ps, None, None))
    return out


def _op_table(other):
    o = ("var", other)
    ol = _attr(o, "length")
    return {
        "__and__": (_either("BitAnd", SV, _int(o)), _maxlen(SL, ol), "value & int(other), width max(self.length, other.length)"),
        "__or__": (_either("BitOr", SV, _int(o)), _maxlen(SL, ol), "value | int(other), width max(self.length, other.length)"),
        "__xor__": ([S.xor(SV, _int(o))], _maxlen(SL, ol), "value ^ int(other), width max(self.length, other.length)"),
        "__invert__": (_either("BitAnd", ("un", "Invert", SV), _mask(SL)), [SL], "~value & ((1 << length) - 1), width self.length"),
        "__lshift__": (_either("BitAnd", ("op", "LShift", SV, _int(o)), _mask(SL)), [SL], "(value << n) & ((1 << length) - 1), width self.length"),
        "__rshift__": ([("op", "RShift", SV, _int(o))], [SL], "value >> n, width self.length"),
    }


def check(repo):
    r1 = Rule("R18.1", "no floating point in width / value computations")
    r2 = Rule("R18.2", "operator width table")
    r3 = Rule("R18.3", "masks and guards")
    r4 = Rule("R18.4", "halving helpers")
    rules = [r1, r2, r3, r4]
    ci = repo.cls(BITS, "Bitset")
    # ---------------------------------------------------------------- R18.1
    n_fn = 0
    for mod_rel in (BITS, BU):
        m = repo.module(mod_rel)
        for fi in m.all_functions():
            n_fn += 1
            bad = _float_taint(fi)
            if bad:
                r1.fail_fn(fi, bad[0], "floating point in %s" % fi.name,
                           "%s computes %s: a float can round across a power of two (first failure at 2^48 - 1), so a width or mask derived from it is wrong for large values; "
                           "use int.bit_length()" % (fi.qual, short(bad[0])))
            else:
                r1.ok({"function": fi.key})
    init = ci.methods.get("__init__")
    if init is None:
        raise AnalysisError("Bitset.__init__ vanished")
    _check_init(repo, r1, r3, init)
    # ---------------------------------------------------------------- R18.2 / R18.3 operators
    for name in ("__and__", "__or__", "__xor__", "__invert__", "__lshift__", "__rshift__"):
        f = ci.methods.get(name)
        if f is None:
            r2.fail(BITS, "Bitset", 0, "%s missing" % name, "Bitset.%s vanished" % name)
            continue
        other = f.params[1] if len(f.params) > 1 else "other"
        vals, lens, text = _op_table(other)[name]
        res = results(f)
        okv = bool(res) and all(v in vals for _p, v, _l in res)
        okl = bool(res) and all(ln in lens for _p, _v, ln in res)
        masked = name in ("__invert__", "__lshift__")
        (r3 if masked else r2).require(okv, f, ("%s is masked to the width" if masked else "%s value") % name,
                                       "Bitset.%s computes %s; the fixed-width model is %s" % (name, [S.show(v)[:80] if v else None for _p, v, _l in res], text))
        r2.require(okl, f, "%s result width" % name, "Bitset.%s sets the result width to %s; the model is %s" % (name, [S.show(ln)[:60] if ln else None for _p, _v, ln in res], text))
    cc = ci.methods.get("concat")
    if cc is not None:
        o = ("var", cc.params[1])
        res = results(cc)
        shifted = ("op", "LShift", SV, _attr(o, "length"))
        vals = [("cat", (shifted, _attr(o, "value"))), ("cat", (_attr(o, "value"), shifted))] + _either("BitOr", shifted, _attr(o, "value"))
        lens = [("cat", (SL, _attr(o, "length"))), ("cat", (_attr(o, "length"), SL))]
        ok = bool(res) and all(v in vals and ln in lens for _p, v, ln in res)
        r2.require(ok, cc, "concat: left shifted by the right operand's length, lengths added",
                   "Bitset.concat returns %s; expected Bitset((self.value << other.length) + other.value, self.length + other.length)" % [
                       (S.show(v)[:80] if v else None, S.show(ln)[:50] if ln else None) for _p, v, ln in res])
        Fc = facts_of(cc)
        ref = refusals(Fc, isinstance_of(entry(cc.params[1]), False))
        bad = unpermitted(Fc, exit_nodes(Fc), [isinstance_of(entry(cc.params[1]), True)])
        r3.require(bool(ref) and not bad, cc, "concat refuses non-Bitset", "Bitset.concat no longer refuses a non-Bitset operand")
    ad = ci.methods.get("__add__")
    rets = [ps.ret for ps in summarize(ad) if ps.exc is None] if ad is not None else []
    r2.require(bool(rets) and all(rt == ("call", ("fn", "self.concat"), (("var", ad.params[1]),), ()) for rt in rets), ad or cc, "+ is concat", "Bitset.__add__ is no longer concat")
    for name in ("get_higher_bits", "get_lower_bits"):
        f = ci.methods.get(name)
        if f is None:
            r2.fail(BITS, "Bitset", 0, "%s missing" % name, "Bitset.%s vanished" % name)
            continue
        k = ("var", f.params[1])
        drops = [("call", ("fn", "max"), (("op", "Sub", SL, k), ("const", 0)), ()), ("call", ("fn", "max"), (("const", 0), ("op", "Sub", SL, k)), ()), ("op", "Sub", SL, k)]
        slf = ("var", "self")
        if name == "get_higher_bits":
            vals = [("op", "RShift", slf, d) for d in drops]
            text = "Bitset(self >> (length - k), k)"
        else:
            vals = [("op", "RShift", ("op", "LShift", slf, d), d) for d in drops]
            text = "Bitset((self << (length - k)) >> (length - k), k)"
        res = results(f)
        ok = bool(res) and all(v in vals and ln == k for _p, v, ln in res)
        r2.require(ok, f, "%s shape" % name, "Bitset.%s returns %s; expected %s" % (name, [(S.show(v)[:80] if v else None, S.show(ln) if ln else None) for _p, v, ln in res], text))
        Fg = facts_of(f)
        kk = entry(f.params[1])
        inrange = unpermitted(Fg, exit_nodes(Fg), [lambda key, t: key == ("<", kk, "0") and not t])
        inrange2 = unpermitted(Fg, exit_nodes(Fg), [lambda key, t: key == ("<", "self.length", kk) and not t, lambda key, t: key == ("<", "len(self)", kk) and not t])
        refs = refusals(Fg, lambda key, t: (key == ("<", kk, "0") and t) or (key in (("<", "self.length", kk), ("<", "len(self)", kk)) and t))
        r3.require(not inrange and not inrange2 and bool(refs), f, "%s refuses k < 0 and k > length" % name,
                   "Bitset.%s can return without having established 0 <= k <= length%s" % (name, " [%s]" % describe_alt((inrange or inrange2)[0][1]) if (inrange or inrange2) else ""))
    fb = ci.methods.get("__bytes__")
    if fb is not None:
        widths = [("op", "FloorDiv", ("cat", (SL, ("const", 7))), ("const", 8)), ("op", "FloorDiv", ("cat", (("const", 7), SL)), ("const", 8))]
        ok = True
        rets = [ps.ret for ps in summarize(fb) if ps.exc is None]
        for rt in rets:
            if not (rt is not None and rt[0] == "call" and rt[1] in (("method", SV, "to_bytes"), ("fn", "self.value.to_bytes"))):
                ok = False
                continue
            kw = dict(rt[3])
            w = rt[2][0] if rt[2] else kw.get("length")
            o = rt[2][1] if len(rt[2]) > 1 else kw.get("byteorder", ("const", "big"))
            from ..intexpr import same_integer
            if not (w in widths or (w is not None and same_integer(w, widths[0]))) or o != ("const", "big"):
                ok = False
        r2.require(ok and bool(rets), fb, "bytes: ceil(length / 8) big-endian", "Bitset.__bytes__ no longer encodes the value in (length + 7) // 8 big-endian bytes")
    for nm, want, what in (("__len__", SL, "len is the width"), ("__int__", SV, "int is the value")):
        f = ci.methods.get(nm)
        rets = [ps.ret for ps in summarize(f) if ps.exc is None] if f is not None else []
        r2.require(bool(rets) and all(rt == want for rt in rets), f or init, what, "Bitset.%s no longer returns %s" % (nm, S.show(want)))
    fe = ci.methods.get("__eq__")
    if fe is not None:
        o = ("var", fe.params[1])
        c1 = [("cmp", ("Eq",), (SV, _attr(o, "value"))), ("cmp", ("Eq",), (_attr(o, "value"), SV))]
        c2 = [("cmp", ("Eq",), (SL, _attr(o, "length"))), ("cmp", ("Eq",), (_attr(o, "length"), SL))]
        rets = [ps.ret for ps in summarize(fe) if ps.exc is None]
        ok = any(rt is not None and rt[0] == "bool" and rt[1] == "And" and any(x in c1 for x in rt[2]) and any(x in c2 for x in rt[2]) for rt in rets)
    r2.require(fe is not None and ok, fe or init, "equality compares value and width", "Bitset.__eq__ no longer compares value and length")
    # ---------------------------------------------------------------- R18.5 indexing / slicing / iteration / str
    r5 = Rule("R18.5", "indexing, slicing, iteration and str test bit (length - position - 1) of the value; no string round trip")
    rules.append(r5)
    _check_indexing(repo, r5, ci, init)
    for m_rel in (BITS, BU):
        for fi in repo.module(m_rel).all_functions():
            if fi.name in ("__repr__", "__str__"):
                continue
            for c in ast.walk(fi.node):
                bad = None
                if isinstance(c, ast.Call) and dotted(c.func) in ("format", "bin", "str", "oct", "hex") and c.args:
                    bad = c
                if isinstance(c, ast.Call) and isinstance(c.func, ast.Attribute) and c.func.attr in ("format", "zfill", "rjust", "ljust") and not isinstance(c.func.value, ast.Constant):
                    bad = c
                if isinstance(c, ast.Call) and isinstance(c.func, ast.Attribute) and c.func.attr == "format" and isinstance(c.func.value, ast.Constant) and "b" in str(c.func.value.value):
                    bad = c
                if isinstance(c, ast.JoinedStr) and any(isinstance(v, ast.FormattedValue) and v.format_spec is not None for v in c.values):
                    bad = c
                if bad is not None and fi.name not in ("from_sequence",):
                    r5.fail_fn(fi, bad, "string round trip in %s" % fi.name,
                               "%s derives bits through a string (%s): formatting loses the width for length 0 and for values wider than the length" % (fi.qual, short(bad)))
    r5.ok()
    # ---------------------------------------------------------------- R18.4 halving
    _check_halving(repo, r4)
    r1.require(n_fn >= 20, init, "functions floor", "only %d functions of bits.py / bits_utils.py analysed" % n_fn)
    return rules


def _check_init(repo, r1, r3, init):
    vp, lp = init.params[1], init.params[2]
    v0 = ("var", vp)
    bl = lambda x: ("call", ("method", x, "bit_length"), (), ())  # noqa: E731
    seen_bytes = seen_bits = False
    ok_store = ok_len = True
    paths = [ps for ps in summarize(init) if ps.exc is None]
    shown = None
    for ps in paths:
        val = ps.env.get(vp, v0)
        if ps.has(isinstance_ghost(vp, "Bitset")):
            seen_bits = True
            if val != _int(v0):
                ok_store = False
        elif ps.has(isinstance_ghost(vp, "bytes")):
            seen_bytes = True
            if val not in (("call", ("fn", "int_from_bytes"), (v0,), ()), ("call", ("fn", "int.from_bytes"), (v0, ("const", "big")), ())):
                ok_store = False
        if ps.store("value") != val:
            ok_store = False
        ln = ps.store("length")
        shown = ln
        L0 = ps.env.get(lp, ("var", lp))
        minimal = [bl(val), ("ifexp", ("cmp", ("Gt",), (val, ("const", 0))), bl(val), ("const", 0)), ("ifexp", ("cmp", ("Lt",), (("const", 0), val)), bl(val), ("const", 0))]
        forms = [("bool", "Or", (L0, m)) for m in minimal] + [("ifexp", L0, L0, m) for m in minimal]
        explicit = ps.has(lambda k, t: (k == ("truth", entry(lp)) and t) or (k[0] == "==" and "0" in k[1:] and entry(lp) in k[1:] and not t))
        absent = ps.has(lambda k, t: (k == ("truth", entry(lp)) and not t) or (k[0] == "==" and "0" in k[1:] and entry(lp) in k[1:] and t))
        # the conditional "bit_length if value > 0 else 0" may also have been taken apart into branches
        positive = ps.has(lambda k, t: k[0] == "<" and k[1] == "0" and k[2] in (vp, entry(vp)) and t)
        nonpositive = ps.has(lambda k, t: k[0] == "<" and k[1] == "0" and k[2] in (vp, entry(vp)) and not t)
        split_ok = absent and ((positive and ln == bl(val)) or (nonpositive and ln == ("const", 0)))
        if not (ln in forms or (explicit and ln == L0) or (absent and ln in minimal) or split_ok):
            ok_len = False
    r1.require(bool(paths) and ok_len, init, "minimal width from bit_length; explicit length wins",
               "Bitset.__init__ derives the width as %s; it must be the explicit length, else value.bit_length()" % (S.show(shown)[:120] if shown else None))
    r3.require(bool(paths) and ok_store and seen_bits and seen_bytes, init, "bytes / Bitset inputs converted", "Bitset.__init__ no longer converts bytes / Bitset inputs into the stored integer")
    from .c08 import bitset_width_checked
    ok, why = bitset_width_checked(init)
    r3.require(ok, init, "value fits the explicit length" if why != "dominates" else "width check precedes the stores",
               "Bitset.__init__ no longer refuses a value wider than the explicit length" if why != "dominates" else "Bitset stores value/length before checking the width")


def isinstance_ghost(param, tname):
    pe = isinstance_of(entry(param), True)

    def pred(k, t):
        if not pe(k, t):
            return False
        return k[1].endswith(", %s)" % tname) or ("(%s," % tname in k[1]) or (" %s," % tname in k[1]) or (", %s)" % tname in k[1])
    return pred


def _pos_forms(x):
    out = []
    for ln in LEN_SELF:
        out.append(("op", "Sub", ("op", "Sub", ln, x), ("const", 1)))
        out.append(("op", "Sub", ("op", "Sub", ln, ("const", 1)), x))
        out.append(("op", "Sub", ln, ("cat", (x, ("const", 1)))))
    return out


def _bit_forms(p):
    sh = ("op", "LShift", ("const", 1), p)
    ands = _either("BitAnd", SV, sh)
    out = [("call", ("fn", "bool"), (a,), ()) for a in ands]
    out += [("cmp", ("NotEq",), (a, ("const", 0))) for a in ands]
    out += [("call", ("fn", "bool"), (x,), ()) for x in _either("BitAnd", ("op", "RShift", SV, p), ("const", 1))]
    return out


def _check_indexing(repo, r5, ci, init):
    gi = ci.methods.get("__getitem__")
    if gi is None:
        r5.fail(BITS, "Bitset", 0, "__getitem__ missing", "Bitset.__getitem__ vanished")
    else:
        sp = ("var", gi.params[1])
        ind = ("call", ("method", sp, "indices"), (LEN_SELF[0],), ())
        ind2 = ("call", ("method", sp, "indices"), (LEN_SELF[1],), ())
        loopvars = [("elem", ("call", ("fn", "range"), tuple(("proj", i_, j) for j in range(3)), ())) for i_ in (ind, ind2)] + \
                   [("elem", ("call", ("fn", "range"), (("star", i_),), ())) for i_ in (ind, ind2)]
        slice_ok = int_ok = False
        bad = None
        for ps in summarize(gi, unroll=1, follow_exc=True):
            if ps.exc is not None:
                continue
            for _n, c, _f in ps.calls:
                if c[0] == "call" and c[1][0] == "method" and c[1][2] == "append" and len(c[2]) == 1:
                    if any(c[2][0] in _bit_forms(p) for lv in loopvars for p in _pos_forms(lv)):
                        slice_ok = True
                    else:
                        bad = c[2][0]
            if ps.ret is not None and any(ps.ret in _bit_forms(p) for p in _pos_forms(sp)):
                int_ok = True
            if ps.ret is not None and ps.ret[0] == "mapc":
                # the same bits collected by a comprehension over the positions
                lv = ("elem", ps.ret[2])
                if lv in loopvars and any(ps.ret[1] in _bit_forms(p) for p in _pos_forms(lv)):
                    slice_ok = True
                else:
                    bad = ps.ret[1]
        r5.require(slice_ok and bad is None, gi, "__getitem__ slice reads bit (len - position - 1)",
                   "Bitset.__getitem__ no longer collects bool(value & (1 << (len - position - 1))) for every position of range(*slice.indices(len))%s" % (
                       " (collects %s)" % S.show(bad)[:100] if bad else ""))
        r5.require(int_ok, gi, "__getitem__ reads bits of the value", "Bitset.__getitem__ no longer returns bool(value & (1 << (len - index - 1))) for an integer index")
    si = ci.methods.get("__setitem__")
    if si is None:
        r5.fail(BITS, "Bitset", 0, "__setitem__ missing", "Bitset.__setitem__ vanished")
    else:
        sp, vp = ("var", si.params[1]), si.params[2]
        ind = [("call", ("method", sp, "indices"), (ln,), ()) for ln in LEN_SELF]
        loopvars = [("elem", ("call", ("fn", "range"), tuple(("proj", i_, j) for j in range(3)), ())) for i_ in ind] + [("elem", ("call", ("fn", "range"), (("star", i_),), ())) for i_ in ind]
        positions = [p for lv in loopvars + [sp] for p in _pos_forms(lv)]
        sets = [x for p in positions for x in _either("BitOr", SV, ("op", "LShift", ("const", 1), p))]
        clears = [x for p in positions for x in _either("BitAnd", SV, ("un", "Invert", ("op", "LShift", ("const", 1), p)))]
        seen_set = seen_clear = False
        okw = True

        def peel(t, kinds):
            """value term built by repeatedly applying set / clear steps to self.value"""
            nonlocal seen_set, seen_clear
            depth = 0
            while t != SV and depth < 4:
                depth += 1
                nxt = None
                if t[0] == "op" and t[1] in ("BitOr", "BitAnd"):
                    for inner in (t[2], t[3]):
                        rest = t[3] if inner is t[2] else t[2]
                        probe = ("op", t[1], SV, rest)
                        if (t[1] == "BitOr" and probe in sets) or (t[1] == "BitAnd" and probe in clears):
                            kinds.add(t[1])
                            nxt = inner
                            break
                if nxt is None:
                    return False
                t = nxt
            return t == SV
        for ps in summarize(si, unroll=1, follow_exc=True):
            if ps.exc is not None:
                continue
            v = ps.store("value")
            if v is None:
                continue
            kinds = set()
            if not peel(v, kinds):
                okw = False
                continue
            truthy = ps.has(lambda k, t: k == ("truth", entry(vp)) and t)
            falsy = ps.has(lambda k, t: k == ("truth", entry(vp)) and not t)
            if truthy and kinds - {"BitOr"}:
                okw = False
            if falsy and kinds - {"BitAnd"}:
                okw = False
            seen_set = seen_set or (truthy and "BitOr" in kinds)
            seen_clear = seen_clear or (falsy and "BitAnd" in kinds)
        r5.require(okw and seen_set and seen_clear, si, "__setitem__ bit positions",
                   "Bitset.__setitem__ no longer sets / clears bit (len - position - 1) of the value for every addressed position (set when the new value is true, clear otherwise)")
    it = ci.methods.get("__iter__")
    ok = False
    if it is not None:
        whole = [("slice", ("var", "self"), None, None)]
        for ps in summarize(it, unroll=1):
            ys = [c for _n, c, _f in ps.calls if c[0] == "yield"]
            if ys and all(y[1] in [("elem", w) for w in whole] for y in ys):
                ok = True
            if ps.ret is not None and ps.ret in [("call", ("fn", "iter"), (w,), ()) for w in whole]:
                ok = True
        if any(isinstance(x, ast.YieldFrom) and unparse(x.value) == "self[:]" for x in ast.walk(it.node)):
            ok = True
    r5.require(ok, it or init, "__iter__ walks self[:]", "Bitset.__iter__ no longer walks the bits of self[:]")
    st = ci.methods.get("__str__")
    ok = False
    if st is not None:
        for x in ast.walk(st.node):
            src_ok = lambda e: unparse(e) in ("self[:]", "self", "iter(self)", "list(self)")  # noqa: E731
            tgt = None
            if isinstance(x, ast.For) and src_ok(x.iter) and isinstance(x.target, ast.Name):
                tgt, scope = x.target.id, x
            elif isinstance(x, (ast.GeneratorExp, ast.ListComp)) and len(x.generators) == 1 and src_ok(x.generators[0].iter) and isinstance(x.generators[0].target, ast.Name):
                tgt, scope = x.generators[0].target.id, x
            if tgt is None:
                continue
            for y in ast.walk(scope):
                if isinstance(y, ast.IfExp) and isinstance(y.test, ast.Name) and y.test.id == tgt and isinstance(y.body, ast.Constant) and y.body.value == "1" and \
                        isinstance(y.orelse, ast.Constant) and y.orelse.value == "0":
                    ok = True
                if isinstance(y, ast.Subscript) and isinstance(y.value, ast.Constant) and y.value.value == "01" and tgt in unparse(y.slice):
                    ok = True
    r5.require(ok, st or init, "__str__ walks self[:]", "Bitset.__str__ no longer renders '1' / '0' for each bit of self[:]")


def _check_halving(repo, r4):
    for name in ("half_bits", "half_bits_not_padding"):
        f = repo.func(BU, name)
        x0 = ("var", f.params[0])
        seen = False
        okh = True
        pad_seen = False
        shown = None
        for ps in summarize(f):
            if ps.exc is not None:
                continue
            rt = ps.ret
            shown = rt
            H = None
            for X in (x0, ("call", ("fn", "Bitset"), (x0,), ())):
                lx = ("call", ("fn", "len"), (X,), ())
                Hc = [("op", "FloorDiv", ("cat", (lx, ("const", 1))), ("const", 2)), ("op", "FloorDiv", ("cat", (("const", 1), lx)), ("const", 2))]
                rights = [("call", ("method", X, "get_lower_bits"), (h,), ()) for h in Hc]
                lefts = [("call", ("method", X, "get_higher_bits"), (("op", "Sub", lx, h),), ()) for h in Hc] + [("call", ("method", X, "get_higher_bits"), (("op", "FloorDiv", lx, ("const", 2)),), ())]
                if rt is not None and rt[0] == "tuple" and len(rt[1]) == 2 and rt[1][0] in lefts and rt[1][1] in rights:
                    H = Hc
                elif rt is not None and rt[0] == "tuple" and len(rt[1]) == 2:
                    # the same split with the two lengths spelled differently (n - n // 2 for the low half, n // 2 for the high half ...)
                    from ..intexpr import same_integer
                    lo_, hi_ = rt[1][1], rt[1][0]
                    if lo_[0] == "call" and lo_[1] == ("method", X, "get_lower_bits") and len(lo_[2]) == 1 and hi_[0] == "call" and hi_[1] == ("method", X, "get_higher_bits") and \
                            len(hi_[2]) == 1 and same_integer(lo_[2][0], Hc[0]) and same_integer(hi_[2][0], ("op", "Sub", lx, Hc[0])):
                        H = Hc + [lo_[2][0]]
            if H is None and name == "half_bits" and rt is not None and rt[0] == "tuple" and len(rt[1]) == 2:
                # the padding variant may delegate the split to the non-padding one (whose split is judged on its own) and only equalise
                Ds = [("call", ("fn", "half_bits_not_padding"), (X_,), ()) for X_ in (x0, ("call", ("fn", "Bitset"), (x0,), ()))]
                D = next((D_ for D_ in Ds if rt[1] == (("proj", D_, 0), ("proj", D_, 1))), None)
                if D is not None:
                    H = [("call", ("fn", "len"), (("proj", D, 1),), ())]
                    # (the right half the non-padding variant hands back is (n + 1) // 2 bits long - its own split is judged above -, so that
                    # length may also be spelled out)
                    for X in (x0, ("call", ("fn", "Bitset"), (x0,), ())):
                        lx = ("call", ("fn", "len"), (X,), ())
                        H += [("op", "FloorDiv", ("cat", (lx, ("const", 1))), ("const", 2)), ("op", "FloorDiv", ("cat", (("const", 1), lx)), ("const", 2))]
            if H is None:
                okh = False
                continue
            seen = True
            pads = {k: v for k, v in ps.env.items() if k.endswith(".length") and not k.startswith("self.")}
            if name == "half_bits_not_padding":
                if pads:
                    r4.fail_fn(f, f.node, "non-padding variant leaves lengths alone", "half_bits_not_padding changes a half's length")
            else:
                short_left = ps.has(lambda k, t: k[0] == "<" and k[1].startswith("len(") and t)
                if short_left:
                    pad_seen = True
                    from ..intexpr import same_integer as _same
                    if not (len(pads) == 1 and (list(pads.values())[0] in H or _same(list(pads.values())[0], H[0]))):
                        r4.fail_fn(f, f.node, "padding variant equalises the halves", "half_bits no longer pads the left half to the right half's length")
                elif pads and not all(v in H or __import__("sa.intexpr", fromlist=["same_integer"]).same_integer(v, H[0]) for v in pads.values()):
                    okh = False
        r4.require(okh and seen, f, "%s splits at (n + 1) // 2" % name,
                   "%s no longer splits into the low (n + 1) // 2 bits and the remaining high bits (returns %s)" % (name, S.show(shown)[:140] if shown else None))
        if name == "half_bits":
            r4.require(pad_seen, f, "padding variant equalises the halves", "half_bits no longer pads the left half to the right half's length")


# ----------------------------------------------------------------------------- self-test variants
from ..selftest import V  # noqa: E402

VARIANTS = [
    V("float-log-width", "fire", "R18.1", [(BITS, "Bitset.__init__", "self.length = length or (value.bit_length() if value > 0 else 0)",
      "self.length = length or (math.floor(math.log(value, 2)) + 1 if value > 0 else 0)")]),
    V("xor-width-min", "fire", "R18.2", [(BITS, "Bitset.__xor__", "b.length = max((self.length, value.length))", "b.length = min((self.length, value.length))")]),
    V("and-width-self", "fire", "R18.2", [(BITS, "Bitset.__and__", "b.length = max((self.length, other.length))", "b.length = self.length")]),
    V("invert-unmasked", "fire", "R18.3", [(BITS, "Bitset.__invert__", "b = Bitset((~self.value) & ((1 << self.length) - 1))", "b = Bitset(abs(~self.value))")]),
    V("concat-shift-own-length", "fire", "R18.2", [(BITS, "Bitset.concat", "return Bitset((self.value << b.length) + b.value, self.length + b.length)", "return Bitset((self.value << self.length) + b.value, self.length + b.length)")]),
    V("higher-bits-guard-removed", "fire", "R18.3", [(BITS, "Bitset.get_higher_bits",
      "        if bit_len > self.length:\n            raise ValueError(\"The parameter bit_len is greater than the actual length of the bits\")\n", "")]),
    V("bytes-floor-length", "fire", "R18.2", [(BITS, "Bitset.__bytes__", "output_length = (self.length + 7) // 8", "output_length = self.length // 8")]),
    V("half-split-floor", "fire", "R18.4", [(BU, "half_bits_not_padding", "half_len = (len(xbits) + 1) // 2", "half_len = len(xbits) // 2")]),
    V("true-division-in-helper", "fire", "R18.1", [(BU, "half_bits", "half_len = (len(xbits) + 1) // 2", "half_len = int((len(xbits) + 1) / 2)")]),
]
