"""C18 - bit strings behave like fixed-width big-endian bit vectors.

Decides that width bookkeeping is integer-exact and that each operator sets the result width the
model prescribes.  See DESIGN.md section 3, C18.
"""
import ast

from ..core import Rule
from ..model import AnalysisError, dotted, unparse, short
from ..cfg import cfg_of
from .. import straight as S
from .c08 import raising_ifs

EXPLANATION = ("Use-def reconstruction of every operator of toolkit.bits.Bitset: the value and the length assigned to the result "
               "are compared, as canonical arithmetic terms, with the fixed-width model (and/or/xor -> max of both lengths; "
               "invert/shifts -> own length with the mask (1 << length) - 1 where bits could escape; concat -> left shifted by the "
               "right operand's length, lengths added; higher/lower k bits -> shift by length - k, width k; bytes -> (length + 7) "
               "// 8 big-endian); no floating-point value may flow into a length, shift or mask (minimal width from int.bit_length); "
               "the guards (value fits length, 0 <= k <= length, concat only with Bitset) must raise; the halving helpers split at "
               "(n + 1) // 2.")
ASSUMPTIONS = ["agreement with the list-of-bits model on all values is not proved; only the width/shape bookkeeping is decided"]

BITS = "toolkit/bits.py"
BU = "toolkit/bits_utils.py"


def _float_taint(fi):
    """Names / expressions in fi that may hold floats: math.log*, true division, float()."""
    bad = []
    for n in ast.walk(fi.node):
        if isinstance(n, ast.Call):
            d = dotted(n.func) or ""
            if d in ("math.log", "math.log2", "math.log10", "float", "math.sqrt", "math.pow") or d.startswith("numpy."):
                bad.append(n)
        if isinstance(n, ast.BinOp) and isinstance(n.op, ast.Div):
            bad.append(n)
    return bad


def _binop_model(repo, rule, ci, name, op):
    fi = ci.methods.get(name)
    if fi is None:
        rule.fail(BITS, "Bitset", 0, "operator %s missing" % name, "Bitset.%s vanished" % name)
        return
    other = fi.params[1]
    try:
        env = S.run([st for st in fi.node.body if isinstance(st, ast.Assign) and all(isinstance(t, ast.Name) for t in st.targets)])
    except S.NotStraight as e:
        rule.fail_fn(fi, fi.node, "%s not straight-line" % name, str(e))
        return
    b = env.get("b")
    want_val = ("call", ("fn", "Bitset"), (("op", op, ("attr", ("var", "self"), "value"), ("call", ("fn", "int"), (("var", other),), ())),), ())
    rule.require(b == want_val, fi, "%s value" % name, "Bitset.%s computes %s" % (name, S.show(b) if b else None))
    # b.length = max((self.length, other.length))
    st = [s for s in fi.node.body if isinstance(s, ast.Assign) and unparse(s.targets[0]) == "b.length"]
    ok = False
    if st:
        v = st[0].value
        if isinstance(v, ast.Call) and dotted(v.func) == "max":
            names = {unparse(x) for x in ast.walk(v) if isinstance(x, ast.Attribute)}
            ok = names == {"self.length", "%s.length" % other}
    rule.require(ok, fi, "%s width = max of both" % name, "Bitset.%s sets the result width to %s; the model takes the longer operand's width" % (name, unparse(st[0].value) if st else None))
    rets = [x for x in ast.walk(fi.node) if isinstance(x, ast.Return)]
    rule.require(len(rets) == 1 and unparse(rets[0].value) == "b", fi, "%s returns the new bitset" % name, "Bitset.%s returns %s" % (name, unparse(rets[0].value) if rets else None))


def check(repo):
    r1 = Rule("R18.1", "no floating point in width / value computations")
    r2 = Rule("R18.2", "operator width table")
    r3 = Rule("R18.3", "masks and guards")
    r4 = Rule("R18.4", "halving helpers")
    rules = [r1, r2, r3, r4]
    ci = repo.cls(BITS, "Bitset")
    # ---------------------------------------------------------------- R18.1
    n_fn = 0
    for mod_rel in (BITS, BU):
        m = repo.module(mod_rel)
        for fi in m.all_functions():
            n_fn += 1
            bad = _float_taint(fi)
            if bad:
                r1.fail_fn(fi, bad[0], "floating point in %s" % fi.name,
                           "%s computes %s: a float can round across a power of two (first failure at 2^48 - 1), so a width or mask derived from it is wrong for large values; "
                           "use int.bit_length()" % (fi.qual, short(bad[0])))
            else:
                r1.ok({"function": fi.key})
    init = ci.methods.get("__init__")
    if init is None:
        raise AnalysisError("Bitset.__init__ vanished")
    ln = [st for st in ast.walk(init.node) if isinstance(st, ast.Assign) and unparse(st.targets[0]) == "self.length"]
    ok = len(ln) >= 1 and all("bit_length()" in unparse(s.value) or unparse(s.value) in ("0", "length") for s in ln) and any("bit_length()" in unparse(s.value) for s in ln)
    r1.require(ok, init, "minimal width from bit_length", "Bitset.__init__ derives the default width from %s; it must be value.bit_length()" % [unparse(s.value) for s in ln])
    main = [s for s in ln if "bit_length()" in unparse(s.value)]
    if main:
        r1.require(unparse(main[0].value).startswith("length or"), init, "explicit length wins", "Bitset.__init__ no longer prefers the explicit length")
    # ---------------------------------------------------------------- R18.2
    _binop_model(repo, r2, ci, "__and__", "BitAnd")
    _binop_model(repo, r2, ci, "__or__", "BitOr")
    fx = ci.methods.get("__xor__")
    if fx is not None:
        other = fx.params[1]
        src = unparse(fx.node)
        r2.require("Bitset(self.value ^ int(%s))" % other in src and "b.length = max((self.length, %s.length))" % other in src, fx, "__xor__ value and width",
                   "Bitset.__xor__ no longer computes value ^ int(other) with width max(self.length, other.length)")
    for name, val in (("__invert__", "Bitset(~self.value & (1 << self.length) - 1)"), ("__lshift__", None), ("__rshift__", None)):
        f = ci.methods.get(name)
        if f is None:
            r2.fail(BITS, "Bitset", 0, "%s missing" % name, "Bitset.%s vanished" % name)
            continue
        src = unparse(f.node)
        r2.require("b.length = self.length" in src, f, "%s keeps its own width" % name, "Bitset.%s no longer keeps self.length as the result width" % name)
        if name == "__invert__":
            r3.require("(1 << self.length) - 1" in src and "~self.value &" in src, f, "invert is masked to the width", "Bitset.__invert__ no longer masks ~value with (1 << length) - 1")
        if name == "__lshift__":
            arg = f.params[1]
            r3.require("self.value << int(%s) & (1 << self.length) - 1" % arg in src, f, "left shift is masked to the width", "Bitset.__lshift__ no longer drops the bits shifted out of the width")
        if name == "__rshift__":
            arg = f.params[1]
            r2.require("Bitset(self.value >> int(%s))" % arg in src, f, "right shift value", "Bitset.__rshift__ no longer computes value >> n")
    cc = ci.methods.get("concat")
    if cc is not None:
        o = cc.params[1]
        rets = [x for x in ast.walk(cc.node) if isinstance(x, ast.Return)]
        ok = len(rets) == 1 and unparse(rets[0].value) == "Bitset((self.value << %s.length) + %s.value, self.length + %s.length)" % (o, o, o)
        r2.require(ok, cc, "concat: left shifted by the right operand's length, lengths added",
                   "Bitset.concat returns %s; expected Bitset((self.value << other.length) + other.value, self.length + other.length)" % (unparse(rets[0].value) if rets else None))
        r3.require(any(exc == "ValueError" and "isinstance" in unparse(st.test) for st, exc in raising_ifs(cc)), cc, "concat refuses non-Bitset", "Bitset.concat no longer refuses a non-Bitset operand")
    ad = ci.methods.get("__add__")
    r2.require(ad is not None and unparse(ad.node.body[-1]) == "return self.concat(%s)" % ad.params[1], ad or cc, "+ is concat", "Bitset.__add__ is no longer concat")
    for name, expr in (("get_higher_bits", "Bitset(self >> max(self.length - bit_len, 0), bit_len)"),
                       ("get_lower_bits", "Bitset(self << max(self.length - bit_len, 0) >> max(self.length - bit_len, 0), bit_len)")):
        f = ci.methods.get(name)
        if f is None:
            r2.fail(BITS, "Bitset", 0, "%s missing" % name, "Bitset.%s vanished" % name)
            continue
        k = f.params[1]
        rets = [x for x in ast.walk(f.node) if isinstance(x, ast.Return)]
        want = expr.replace("bit_len", k)
        r2.require(len(rets) == 1 and unparse(rets[0].value) == want, f, "%s shape" % name, "Bitset.%s returns %s; expected %s" % (name, unparse(rets[0].value) if rets else None, want))
        gs = [unparse(st.test) for st, exc in raising_ifs(f) if exc == "ValueError"]
        r3.require("%s < 0" % k in gs and "%s > self.length" % k in gs, f, "%s refuses k < 0 and k > length" % name, "Bitset.%s guards are %s" % (name, gs))
    fb = ci.methods.get("__bytes__")
    if fb is not None:
        src = unparse(fb.node)
        r2.require("output_length = (self.length + 7) // 8" in src and "self.value.to_bytes(output_length, byteorder='big')" in src, fb, "bytes: ceil(length / 8) big-endian",
                   "Bitset.__bytes__ no longer encodes the value in (length + 7) // 8 big-endian bytes")
    fl, fi_ = ci.methods.get("__len__"), ci.methods.get("__int__")
    r2.require(fl is not None and unparse(fl.node.body[-1]) == "return self.length", fl or init, "len is the width", "Bitset.__len__ no longer returns self.length")
    r2.require(fi_ is not None and unparse(fi_.node.body[-1]) == "return self.value", fi_ or init, "int is the value", "Bitset.__int__ no longer returns self.value")
    fe = ci.methods.get("__eq__")
    r2.require(fe is not None and "self.value == other.value and self.length == other.length" in unparse(fe.node), fe or init, "equality compares value and width", "Bitset.__eq__ no longer compares value and length")
    # ---------------------------------------------------------------- R18.5 indexing / slicing / iteration / str
    r5 = Rule("R18.5", "indexing, slicing, iteration and str test bit (length - position - 1) of the value; no string round trip")
    rules.append(r5)
    gi = ci.methods.get("__getitem__")
    si = ci.methods.get("__setitem__")
    for f, nm in ((gi, "__getitem__"), (si, "__setitem__")):
        if f is None:
            r5.fail(BITS, "Bitset", 0, "%s missing" % nm, "Bitset.%s vanished" % nm)
            continue
        src = unparse(f.node)
        idx = f.params[1]
        ok = "%s.indices(len(self))" % idx in src and "for position in range(start, stop, step)" in src and "pos = len(self) - position - 1" in src and \
            "pos = len(self) - %s - 1" % idx in src and "1 << pos" in src
        r5.require(ok, f, "%s bit positions" % nm, "Bitset.%s no longer addresses bit (len - position - 1) for every position of range(*slice.indices(len))" % nm)
    if gi is not None:
        src = unparse(gi.node)
        r5.require("results.append(bool(self.value & 1 << pos))" in src and "return bool(self.value & 1 << pos)" in src, gi, "__getitem__ reads bits of the value",
                   "Bitset.__getitem__ no longer returns bool(value & (1 << pos))")
    for nm, body in (("__iter__", ["for i in self[:]:", "yield i"]), ("__str__", ["for i in self[:]:", "'1' if i else '0'"])):
        f = ci.methods.get(nm)
        r5.require(f is not None and all(b in unparse(f.node) for b in body), f or init, "%s walks self[:]" % nm, "Bitset.%s no longer walks the bits of self[:]" % nm)
    for m_rel in (BITS, BU):
        for fi in repo.module(m_rel).all_functions():
            if fi.name in ("__repr__", "__str__"):
                continue
            for c in ast.walk(fi.node):
                bad = None
                if isinstance(c, ast.Call) and dotted(c.func) in ("format", "bin", "str", "oct", "hex") and c.args:
                    bad = c
                if isinstance(c, ast.Call) and isinstance(c.func, ast.Attribute) and c.func.attr in ("format", "zfill", "rjust", "ljust") and not isinstance(c.func.value, ast.Constant):
                    bad = c
                if isinstance(c, ast.Call) and isinstance(c.func, ast.Attribute) and c.func.attr == "format" and isinstance(c.func.value, ast.Constant) and "b" in str(c.func.value.value):
                    bad = c
                if isinstance(c, ast.JoinedStr) and any(isinstance(v, ast.FormattedValue) and v.format_spec is not None for v in c.values):
                    bad = c
                if bad is not None and fi.name not in ("from_sequence",):
                    r5.fail_fn(fi, bad, "string round trip in %s" % fi.name,
                               "%s derives bits through a string (%s): formatting loses the width for length 0 and for values wider than the length" % (fi.qual, short(bad)))
    r5.ok()

    # ---------------------------------------------------------------- R18.3 constructor guard
    gs = [st for st, exc in raising_ifs(init) if exc == "ValueError" and "bit_length()" in unparse(st.test) and "> length" in unparse(st.test)]
    if r3.require(bool(gs), init, "value fits the explicit length", "Bitset.__init__ no longer refuses a value wider than the explicit length"):
        cfg = cfg_of(init.node)
        stores = [n.id for n in cfg.nodes if n.kind == "stmt" and isinstance(n.stmt, ast.Assign) and unparse(n.stmt.targets[0]) in ("self.value", "self.length")]
        r3.require(all(cfg.dominates(cfg.nodes_of(gs[0])[0], s) for s in stores), init, "width check precedes the stores", "Bitset stores value/length before checking the width")
    src = unparse(init.node)
    r3.require("isinstance(value, bytes)" in src and "int_from_bytes(value)" in src and "isinstance(value, Bitset)" in src, init, "bytes / Bitset inputs converted", "Bitset.__init__ no longer converts bytes / Bitset inputs")
    # ---------------------------------------------------------------- R18.4 halving
    for name in ("half_bits", "half_bits_not_padding"):
        f = repo.func(BU, name)
        src = unparse(f.node)
        x = f.params[0]
        ok = "half_len = (len(%s) + 1) // 2" % x in src and "right_half = %s.get_lower_bits(half_len)" % x in src and \
            "left_half = %s.get_higher_bits(len(%s) - half_len)" % (x, x) in src and "return left_half, right_half" in src.replace("(left_half, right_half)", "left_half, right_half")
        r4.require(ok, f, "%s splits at (n + 1) // 2" % name, "%s no longer splits into the low (n + 1) // 2 bits and the remaining high bits" % name)
        if name == "half_bits":
            r4.require("left_half.length = half_len" in src, f, "padding variant equalises the halves", "half_bits no longer pads the left half to the right half's length")
        else:
            r4.require(".length =" not in src, f, "non-padding variant leaves lengths alone", "half_bits_not_padding changes a half's length")
    r1.require(n_fn >= 20, init, "functions floor", "only %d functions of bits.py / bits_utils.py analysed" % n_fn)
    return rules


# ----------------------------------------------------------------------------- self-test variants
from ..selftest import V  # noqa: E402

VARIANTS = [
    V("float-log-width", "fire", "R18.1", [(BITS, "Bitset.__init__", "self.length = length or (value.bit_length() if value > 0 else 0)",
      "self.length = length or (math.floor(math.log(value, 2)) + 1 if value > 0 else 0)")]),
    V("xor-width-min", "fire", "R18.2", [(BITS, "Bitset.__xor__", "b.length = max((self.length, value.length))", "b.length = min((self.length, value.length))")]),
    V("and-width-self", "fire", "R18.2", [(BITS, "Bitset.__and__", "b.length = max((self.length, other.length))", "b.length = self.length")]),
    V("invert-unmasked", "fire", "R18.3", [(BITS, "Bitset.__invert__", "b = Bitset((~self.value) & ((1 << self.length) - 1))", "b = Bitset(abs(~self.value))")]),
    V("concat-shift-own-length", "fire", "R18.2", [(BITS, "Bitset.concat", "return Bitset((self.value << b.length) + b.value, self.length + b.length)", "return Bitset((self.value << self.length) + b.value, self.length + b.length)")]),
    V("higher-bits-guard-removed", "fire", "R18.3", [(BITS, "Bitset.get_higher_bits",
      "        if bit_len > self.length:\n            raise ValueError(\"The parameter bit_len is greater than the actual length of the bits\")\n", "")]),
    V("bytes-floor-length", "fire", "R18.2", [(BITS, "Bitset.__bytes__", "output_length = (self.length + 7) // 8", "output_length = self.length // 8")]),
    V("half-split-floor", "fire", "R18.4", [(BU, "half_bits_not_padding", "half_len = (len(xbits) + 1) // 2", "half_len = len(xbits) // 2")]),
    V("true-division-in-helper", "fire", "R18.1", [(BU, "half_bits", "half_len = (len(xbits) + 1) // 2", "half_len = int((len(xbits) + 1) / 2)")]),
]
