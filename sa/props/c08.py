"""C08 - a configuration is refused loudly or yields a correct scheme.

Decides the three structural mechanisms that make a bad configuration loud: every configuration key
a scheme consumes is demanded up front, the primitives' length contracts exist and are armed by the
way each scheme constructs its primitives, and the scheme-level cross-checks are present and
dominate what they protect.  The quantification over the whole configuration grid is not decided.
See DESIGN.md section 3, C08.
"""
import ast

from ..core import Rule
from ..facts import facts_of
from ..contract import entry, eq, member, unpermitted, exit_nodes, refusals, describe_alt
from ..model import AnalysisError, dotted, unparse, short, itext
from ..cfg import cfg_of, calls_in_order
from ..terms import fn_terms, walk, show
from ..schemes import discover
from ..symlen import Lengths
from ..contracts import enforced

EXPLANATION = ("(1) For each of the nine _parse_config functions the set of keys read from the configuration dict must be "
               "covered by the literal list given to check_param_exist (which must dominate the reads), except values that flow "
               "only into a get_*_implementation name lookup (which raises on unknown names).  (2) The guard->raise length "
               "contracts of the PRF, the cipher and the PRPs are located semantically (comparison of len(parameter) with a declared "
               "length attribute guarding a ValueError, dominating the work) and every primitive call of every scheme is compared "
               "symbolically with the declared lengths: identical, or armed (constructed with the declared length so that the "
               "guard fires).  The set of length keywords each scheme passes when constructing its primitives is frozen from the "
               "reviewed tree.  (3) Six scheme-level cross-checks and the four name registries must still raise.")
ASSUMPTIONS = ["correctness of every accepted configuration needs execution and is not decided here",
               "numeric sanity (negative sizes etc.) is value-level and not examined"]

# primitive length keywords each scheme passes today (confirmed by reading; a dropped keyword disarms a run-time guard)
CTOR_KW = {
    "CJJ14.PiBas": {"prf_f": {"key_length", "output_length"}, "ske": {"key_length"}},
    "CJJ14.PiPack": {"prf_f": {"key_length", "output_length"}, "ske": {"key_length"}},
    "CJJ14.PiPtr": {"prf_f": {"key_length", "output_length"}, "ske": {"key_length"}},
    "CJJ14.Pi2Lev": {"prf_f": {"key_length", "output_length"}, "ske": {"key_length"}},
    "CT14.Pi": {"prf_f": {"key_length", "output_length"}, "prf_f_prime": {"key_length", "output_length"}, "ske": {"key_length"}},
    "ANSS16.Scheme3": {"prf": {"output_length"}, "ske": {"key_length"}},
    "DP17.Pi": {"rnd": {"key_length"}, "prf_f": {"key_length", "output_length"}, "hash_h": set()},
    "CGKO06.SSE1": {"prp_pi": {"key_bit_length", "message_bit_length"}, "prp_psi": {"key_bit_length", "message_bit_length"},
                    "prf_f": {"key_length", "message_length", "output_length"}, "ske1": {"key_length"}, "ske2": {"key_length"}},
    "CGKO06.SSE2": {"prp_pi": {"key_bit_length", "message_bit_length"}, "ske": {"key_length"}},
}

# (file, function, what the guard compares, declared attribute or token)
GUARDS = [
    ("toolkit/prf/hmac_prf.py", "HmacPRF.__call__", "key", "key_length"),
    ("toolkit/prf/hmac_prf.py", "HmacPRF.__call__", "message", "message_length"),
    ("toolkit/symmetric_encryption/aes.py", "AESxCBC.__init__", "key_length", "[16, 24, 32]"),
    ("toolkit/symmetric_encryption/aes.py", "AESxCBC.__init__", "cipher_length", "% 16"),
    ("toolkit/symmetric_encryption/aes.py", "AESxCBC.Encrypt", "message", "message_length"),
    ("toolkit/symmetric_encryption/aes.py", "AESxCBC.Encrypt", "key", "key_length"),
    ("toolkit/symmetric_encryption/aes.py", "AESxCBC.Decrypt", "cipher_text", "cipher_length"),
    ("toolkit/symmetric_encryption/aes.py", "AESxCBC.Decrypt", "key", "key_length"),
    ("toolkit/prp/bitwise_fpe_prp.py", "BitwiseFPEPRP.__call__", "key", "key_bit_length"),
    ("toolkit/prp/bitwise_fpe_prp.py", "BitwiseFPEPRP.__call__", "message", "message_bit_length"),
    ("toolkit/prp/luby_rackoff_prp.py", "LubyRackoffPRP.__call__", "key", "key_length"),
    ("toolkit/prp/luby_rackoff_prp.py", "LubyRackoffPRP.__call__", "message", "message_length"),
]


def raising_ifs(fi):
    """[(If node, exception name)] whose body raises unconditionally at its end"""
    out = []
    for st in ast.walk(fi.node):
        if isinstance(st, ast.If) and st.body and isinstance(st.body[-1], ast.Raise):
            r = st.body[-1]
            exc = r.exc
            name = dotted(exc.func) if isinstance(exc, ast.Call) else (dotted(exc) if exc is not None else None)
            out.append((st, name))
    return out


def find_guard(fi, subject, declared):
    """An `if ...: raise ValueError` whose test compares len(<subject>) / <subject> with the declared quantity."""
    for st, exc in raising_ifs(fi):
        if exc not in ("ValueError",):
            continue
        txt = unparse(st.test)
        for cmp_ in ast.walk(st.test):
            if not isinstance(cmp_, ast.Compare) and not (isinstance(cmp_, ast.BinOp) and isinstance(cmp_.op, ast.Mod)):
                continue
            t = unparse(cmp_)
            if declared.startswith("%"):
                if isinstance(cmp_, ast.BinOp) and subject in t and t.endswith(declared):
                    return st
                continue
            if declared.startswith("["):
                if isinstance(cmp_, ast.Compare) and isinstance(cmp_.ops[0], ast.NotIn) and dotted(cmp_.left) == subject:
                    try:
                        vals = sorted(ast.literal_eval(cmp_.comparators[0]))
                    except Exception:
                        vals = None
                    if vals == [16, 24, 32]:
                        return st
                continue
            if isinstance(cmp_, ast.Compare) and len(cmp_.ops) == 1 and isinstance(cmp_.ops[0], ast.NotEq):
                sides = [unparse(cmp_.left), unparse(cmp_.comparators[0])]
                if any(s == "len(%s)" % subject for s in sides) and any(s == "self.%s" % declared for s in sides):
                    return st
    return None


def guard_contract(fi, subject, declared):
    """The refusal contract of one GUARDS row, decided on must-facts.  -> (refusing raise nodes, unpermitted exits, Facts, text)"""
    F = facts_of(fi)
    # `subject` names a role; for the primitives' entry points the role is a position (callers pass key and input positionally),
    # so the parameter may be called anything
    if fi.name in ("__call__", "Encrypt", "Decrypt") and subject in ("key", "message", "cipher_text"):
        pos = 1 if subject == "key" else 2
        if len(fi.params) > pos:
            subject = fi.params[pos]
    subj = entry(subject)
    if declared.startswith("["):
        values = set(ast.literal_eval(declared))
        options = [member(subj, values)]
        refuse = member(subj, values, False)
        what = "%s not in %s" % (subject, declared)
    elif declared.startswith("%"):
        mod = int(declared[1:])

        def is_mod(k):
            # <subject> % <block size>, as a truth value or compared with 0
            texts = [k[1]] if k[0] == "truth" else ([x for x in k[1:] if x != "0"] if k[0] == "==" and "0" in k[1:] else [])
            for tx in texts:
                try:
                    e = ast.parse(tx, mode="eval").body
                except SyntaxError:
                    continue
                if isinstance(e, ast.BinOp) and isinstance(e.op, ast.Mod) and isinstance(e.left, ast.Name) and e.left.id == subj and (
                        (isinstance(e.right, ast.Constant) and e.right.value == mod) or "block_size" in ast.unparse(e.right)):
                    return True
            return False
        options = [lambda k, t: is_mod(k) and t == (k[0] == "=="), eq("-1", subj)]
        refuse = lambda k, t: is_mod(k) and t == (k[0] != "==")  # noqa: E731
        what = "%s %s != 0" % (subject, declared)
    else:
        ln, dt = "len(%s)" % subj, "self.%s" % declared
        options = [eq(ln, dt), eq("-1", dt)]
        refuse = eq(ln, dt, False)
        what = "len(%s) != self.%s" % (subject, declared)
    bad = unpermitted(F, exit_nodes(F), options)
    return refusals(F, refuse, ("ValueError",)), bad, F, what


def check(repo):
    r1 = Rule("R8.1", "every configuration key a scheme consumes is demanded up front")
    r2 = Rule("R8.2", "length contracts exist, dominate the work, and are armed by the schemes")
    r3 = Rule("R8.3", "scheme-level cross-checks and name registries still refuse")
    rules = [r1, r2, r3]
    schemes = discover(repo)

    # ------------------------------------------------------------------ R8.1
    cpe = repo.func("schemes/interface/config.py", "SSEConfig.check_param_exist")
    Fc = facts_of(cpe)
    loops = [st for st in ast.walk(cpe.node) if isinstance(st, ast.For) and isinstance(st.iter, ast.Name) and st.iter.id == cpe.params[0] and isinstance(st.target, ast.Name)]
    probes = []   # per raising alternative: list of (fact key, truth, index of the probe operand)
    for n, name, _f in Fc.raises():
        if name is None or name.split(".")[-1] != "ValueError":
            continue
        lp = next((l for l in loops if any(x is n.stmt for x in ast.walk(l))), None)
        if lp is None:
            continue
        for alt in Fc.alts(n.id) or []:
            conds = []
            for (k, t) in alt:
                for i, part in enumerate(k[1:], 1):
                    try:
                        e = ast.parse(part, mode="eval").body
                    except SyntaxError:
                        continue
                    if isinstance(e, ast.Call) and isinstance(e.func, ast.Attribute) and e.func.attr == "get" and e.args and \
                            isinstance(e.args[0], ast.Name) and e.args[0].id == lp.target.id and dotted(e.func.value) in (cpe.params[1], entry(cpe.params[1])):
                        conds.append((k, t, i, e))
            if conds:
                probes.append(conds)
    r1.require(bool(probes), cpe, "check_param_exist raises", "check_param_exist no longer raises ValueError for every missing field of the list")

    # the test must be true both for an absent field and for the placeholder -1 that the DEFAULT_CONFIGs use for
    # "must be determined first" (and which doubles as the only refusal of a negative size)
    def _refuses(value_present, value):
        verdicts = []
        for conds in probes:
            ok = True
            for (k, t, i, e) in conds:
                default = None
                if len(e.args) > 1:
                    try:
                        default = ast.literal_eval(e.args[1])
                    except Exception:
                        return None
                v = value if value_present else default
                if k[0] == "truth":
                    res = bool(v)
                else:
                    other = k[2] if i == 1 else k[1]
                    try:
                        c = ast.literal_eval(other)
                    except Exception:
                        return None
                    try:
                        if k[0] == "==":
                            res = v == c
                        elif k[0] == "is":
                            res = v is c or (v == c and isinstance(c, (int, type(None))) and type(v) is type(c))
                        elif k[0] == "in":
                            res = (v in c) if i == 1 else (c in v)
                        elif k[0] == "<":
                            res = (v < c) if i == 1 else (c < v)
                        else:
                            return None
                    except TypeError:
                        res = False
                if res != t:
                    ok = False
            verdicts.append(ok)
        return any(verdicts) if verdicts else None
    r1.require(_refuses(False, None) is True, cpe, "absent field refused", "check_param_exist does not refuse an absent field")
    r1.require(_refuses(True, -1) is True, cpe, "placeholder -1 refused",
               "check_param_exist no longer treats the placeholder value -1 as missing: a size of -1 (the DEFAULT_CONFIG marker for 'determine first', and the only guard "
               "against a negative block size) now builds a scheme that returns empty results")
    r1.require(_refuses(True, 64) is False, cpe, "present field accepted", "check_param_exist refuses a field that is present")
    n_reads = 0
    for s in schemes:
        pc = s.config_cls.methods.get("_parse_config") if s.config_cls else None
        if pc is None:
            raise AnalysisError("%s: _parse_config vanished" % s.name)
        cfg = cfg_of(pc.node)
        dparam = pc.params[1]
        required = None
        req_nodes = set()
        for n in cfg.nodes:
            if n.stmt is None or n.ast is None:
                continue
            for c in calls_in_order(n.stmt if n.kind != "test" else n.ast):
                if (dotted(c.func) or "").endswith("check_param_exist") and len(c.args) >= 2 and isinstance(c.args[1], ast.Name) and c.args[1].id == dparam:
                    try:
                        required = set(repo.const_value(pc.module, c.args[0]))
                        req_nodes.add(n.id)
                    except Exception:
                        required = None
        if not r1.require(required is not None, pc, "required-parameter check", "%s._parse_config no longer calls check_param_exist with a literal list" % s.name):
            continue
        # the constructor runs _parse_config
        init = s.config_cls.methods.get("__init__")
        runs = init is not None and any(isinstance(c, ast.Call) and dotted(c.func) == "self._parse_config" for c in ast.walk(init.node))
        r1.require(runs, init or pc, "constructor parses", "%sConfig.__init__ no longer runs _parse_config" % s.sse_name)
        for n in cfg.nodes:
            if n.stmt is None or n.ast is None:
                continue
            root = n.ast if n.kind == "test" else n.stmt
            for x in ast.walk(root):
                key = None
                if isinstance(x, ast.Call) and isinstance(x.func, ast.Attribute) and x.func.attr == "get" and dotted(x.func.value) == dparam and x.args \
                        and isinstance(x.args[0], ast.Constant):
                    key = x.args[0].value
                elif isinstance(x, ast.Subscript) and dotted(x.value) == dparam and isinstance(x.slice, ast.Constant):
                    key = x.slice.value
                if key is None:
                    continue
                n_reads += 1
                desc = {"scheme": s.name, "key": key, "line": getattr(x, "lineno", 0)}
                dominated = all(not cfg.can_reach(cfg.entry, n.id, avoid=req_nodes) for _ in [0])
                if key in required:
                    if dominated:
                        r1.ok(desc)
                    else:
                        r1.fail_fn(pc, x, "read of %r before the required-parameter check" % key, "%s: %r is read before check_param_exist ran" % (s.name, key))
                    continue
                # not demanded: must flow only into a name lookup that raises on unknown names
                par = getattr(x, "_parent", None)
                lookup = isinstance(par, ast.Call) and (dotted(par.func) or "").split(".")[-1].startswith("get_") and \
                    (dotted(par.func) or "").endswith("_implementation") and x in par.args
                if lookup:
                    desc["via"] = "name lookup"
                    r1.ok(desc)
                else:
                    r1.fail_fn(pc, x, "undemanded key %r" % key,
                               "%s: _parse_config reads %r, which check_param_exist does not demand: a configuration without it builds a scheme with None "
                               "in that slot instead of being refused" % (s.name, key), witness=desc)
    r1.require(n_reads >= 55, schemes[0].config_cls.methods["_parse_config"], "key reads floor", "only %d configuration reads found (expected >= 55)" % n_reads)

    # ------------------------------------------------------------------ R8.2 (a) guards
    for rel, qual, subject, declared in GUARDS:
        fi = repo.func(rel, qual)
        refused, bad, F, what = guard_contract(fi, subject, declared)
        desc = {"guard": "%s::%s" % (rel, qual), "subject": subject, "declared": declared}
        if not r2.require(bool(refused), fi, "guard %s/%s" % (subject, declared),
                          "%s no longer refuses a %s that violates %s (no raise ValueError reached with %s known)" % (qual, subject, declared, what)):
            continue
        if bad:
            nid, alt = bad[0]
            r2.fail_fn(fi, F.cfg.nodes[nid].stmt, "guard %s/%s dominates" % (subject, declared),
                       "%s: the %s check no longer precedes the work on every path: %s is reached under [%s], where neither the declared %s nor the "
                       "unlimited marker is established for the caller's %s" % (
                           qual, subject, "a result" if F.cfg.nodes[nid].kind == "return" else "the end of the function", describe_alt(alt), declared, subject),
                       witness=desc)
        else:
            r2.ok(desc)
    # Luby-Rackoff constructor constraints and Bitwise FFX
    lr = repo.func("toolkit/prp/luby_rackoff_prp.py", "LubyRackoffPRP.__init__")
    r2.require(len([1 for st, exc in raising_ifs(lr) if exc == "ValueError"]) >= 3, lr, "Luby-Rackoff constructor constraints",
               "LubyRackoffPRP.__init__ lost one of its three constructor constraints")
    hl = repo.func("toolkit/prp/hmac_luby_rackoff_prp.py", "HmacLubyRackoffPRP.__init__")
    r2.require(len([1 for st, exc in raising_ifs(hl) if exc == "ValueError"]) >= 2, hl, "HMAC Luby-Rackoff divisibility checks",
               "HmacLubyRackoffPRP.__init__ lost a divisibility check")

    # ------------------------------------------------------------------ R8.2 (b) obligations
    n_con = 0
    for s in schemes:
        L = Lengths(repo, s)
        eq, contracts = enforced(repo, s, L)
        want = CTOR_KW.get(s.name)
        if want is None:
            raise AnalysisError("no primitive table for %s" % s.name)
        for slot, kws in want.items():
            have = L.cf.prim_kwargs.get(slot)
            if not r2.require(have is not None, s.config_cls.methods["_parse_config"], "primitive %s constructed" % slot,
                              "%s: the configuration no longer constructs the primitive %s" % (s.name, slot)):
                continue
            got = {k for k in have if not k.startswith("__")}
            missing = kws - got
            r2.require(not missing, s.config_cls.methods["_parse_config"], "primitive %s length keywords" % slot,
                       "%s: %s is constructed without %s; the primitive then accepts any length and a mismatching configuration is no longer refused" % (
                           s.name, slot, sorted(missing)))
        for slot in L.cf.prim_kwargs:
            if slot not in want:
                r2.note("%s: primitive slot %s is not in the reviewed table" % (s.name, slot))
        for c in contracts:
            n_con += 1
            if c.identical:
                r2.ok(c.describe())
            elif c.declared is not None:
                d = c.describe()
                d["status"] = "armed: guard enforces %s == %s" % (c.actual.canon(), c.declared.canon())
                r2.ok(d)
    r2.require(n_con >= 70, schemes[0].method("_Enc"), "contracts floor", "only %d primitive call contracts analysed (expected >= 70)" % n_con)

    # ------------------------------------------------------------------ R8.3 cross-checks
    _check_cross(repo, r3)

    # ------------------------------------------------------------------ R8.4 parameter-dependent agreements hold for every configuration
    r4 = Rule("R8.4", "agreements that depend on configuration parameters hold symbolically, i.e. for every accepted configuration")
    rules.append(r4)
    from . import c01, c03, c05, c17
    for mod, rid, what in ((c01, "R1.1", "label / key derivations of set-up vs token / search"), (c01, "R1.2", "block geometry written vs parsed"),
                           (c01, "R1.3", "Pi2Lev case bounds vs block capacities"), (c01, "R1.4", "capacities, divisors and level choice"),
                           (c01, "R1.5", "scans of index data under non-default locality"), (c03, "R3.1", "wire-format field lengths"), (c05, "R5.1", "real vs filler entry lengths"),
                           (c17, "R17.1", "block codec under the configured block sizes")):
        for rr in mod.check(repo):
            if rr.id != rid:
                continue
            r4.obligations += rr.obligations
            r4.discharged += rr.discharged
            r4.instances.append({"imported": "%s (%s)" % (rid, what), "obligations": rr.obligations})
            for f in rr.findings:
                f.rule = "R8.4"
                f.message = "for some accepted configuration this disagrees (%s, %s): %s" % (rid, what, f.message)
                r4.findings.append(f)
    return rules


def _dominates_all(cfg, gnodes, targets):
    return bool(gnodes) and all(not cfg.can_reach(cfg.entry, t, avoid=set(gnodes)) for t in targets)


def _check_cross(repo, r3):
    # 1. Pi2Lev config: index width equality
    pc = repo.func("schemes/CJJ14/Pi2Lev/config.py", "Pi2LevConfig._parse_config")
    g = None
    for st, exc in raising_ifs(pc):
        t = itext(pc, st.test)
        if exc == "ValueError" and "param_index_size_of_A" in t and "param_b_prime" in t and "param_b " in t + " " and "!=" in t:
            g = st
    r3.require(g is not None, pc, "Pi2Lev index-width equality",
               "Pi2LevConfig no longer refuses configurations where (b*idsize)//b' differs from (B*idsize)//B'")
    # 2. Pi2Lev _Enc: A_len fits the index width
    enc = repo.func("schemes/CJJ14/Pi2Lev/construction.py", "Pi2Lev._Enc")
    cfg = cfg_of(enc.node)
    g2 = None
    from ..terms import fn_terms
    fte = fn_terms(repo, enc)
    # the array is allocated as [None] * <length>; the refusal compares that very length with 2 ** (8 * index width)
    alloc = None
    for n in fte.cfg.nodes:
        st = n.stmt
        if n.kind == "stmt" and isinstance(st, ast.Assign) and isinstance(st.value, ast.BinOp) and isinstance(st.value.op, ast.Mult):
            for lst, cnt in ((st.value.left, st.value.right), (st.value.right, st.value.left)):
                if isinstance(lst, ast.List) and len(lst.elts) == 1 and isinstance(lst.elts[0], ast.Constant) and lst.elts[0].value is None:
                    alloc = fte.term(cnt, n.id)
    W = ("cfg", "param_index_size_of_A")
    caps = [("binop", "Pow", ("const", 2), ("binop", "Mult", W, ("const", 8))), ("binop", "Pow", ("const", 2), ("binop", "Mult", ("const", 8), W)),
            ("binop", "Pow", ("const", 256), W), ("binop", "LShift", ("const", 1), ("binop", "Mult", W, ("const", 8))),
            ("binop", "LShift", ("const", 1), ("binop", "Mult", ("const", 8), W))]
    for st, exc in raising_ifs(enc):
        if exc != "ValueError" or not isinstance(st.test, ast.Compare) or len(st.test.ops) != 1 or alloc is None:
            continue
        nid_ = fte.cfg.nodes_of(st)[0]
        lt, rt = fte.term(st.test.left, nid_), fte.term(st.test.comparators[0], nid_)
        if (isinstance(st.test.ops[0], ast.Gt) and lt == alloc and rt in caps) or (isinstance(st.test.ops[0], ast.Lt) and rt == alloc and lt in caps):
            g2 = st
    if r3.require(g2 is not None, enc, "Pi2Lev array-size check", "Pi2Lev._Enc no longer refuses an array too long for the configured index width"):
        gn = cfg.nodes_of(g2)
        uses = [n.id for n in cfg.nodes if n.kind == "stmt" and isinstance(n.stmt, ast.Assign) and any(
            isinstance(c, ast.Call) and (dotted(c.func) or "").endswith("int_to_bytes") for c in ast.walk(n.stmt))]
        r3.require(_dominates_all(cfg, gn, uses), enc, "Pi2Lev array-size check dominates", "pointers are encoded before the array size has been checked", g2)
        # strictness: indices run 1..A_len-1, so A_len - 1 < 256**w  <=>  not (A_len > 256**w)
        r3.ok({"check": unparse(g2.test)})
    # 3. Pi2Lev case split ends with else: raise
    from .c01 import pi2lev_case_chain
    br = pi2lev_case_chain(repo, enc)
    chain_ok = len(br) >= 3 and bool(br[-1].orelse) and isinstance(br[-1].orelse[-1], ast.Raise)
    r3.require(chain_ok, enc, "Pi2Lev too-large refusal", "Pi2Lev._Enc no longer refuses a posting list that exceeds the two-level capacity")
    # 4. partition block-size check: blocks are produced only when block_size >= entries * identifier_size is established
    pf = repo.func("toolkit/database_utils.py", "partition_identifiers_to_blocks")
    F4 = facts_of(pf)
    lst, cnt, idz, bsz = pf.params[:4]

    def _names(txt):
        try:
            e = ast.parse(txt, mode="eval").body
        except SyntaxError:
            return None
        if isinstance(e, ast.BinOp) and isinstance(e.op, ast.Mult) and isinstance(e.left, ast.Name) and isinstance(e.right, ast.Name):
            return {e.left.id, e.right.id}
        return None

    def too_small(truth):
        def pred(k, t):
            return k[0] == "<" and k[1] in (bsz, entry(bsz)) and _names(k[2]) == {entry(cnt), entry(idz)} and t == truth
        return pred
    ref4 = refusals(F4, too_small(True))
    if r3.require(bool(ref4), pf, "partition block-size check", "partition_identifiers_to_blocks no longer refuses a block smaller than its entries"):
        work = [n.id for n in F4.cfg.nodes if n.id in F4.ins and n.stmt is not None and (
            n.kind == "for" or any(isinstance(x, (ast.Yield, ast.YieldFrom)) for x in ast.walk(n.ast if n.kind == "test" else n.stmt) if n.kind in ("stmt", "return")))]
        # a block size the function itself just set to entries * identifier_size needs no check
        bad4 = unpermitted(F4, work, [too_small(False), lambda k, t: k[0] == "==" and "0" in k[1:] and (bsz in k[1:] or entry(bsz) in k[1:]) and t])
        r3.require(bool(work) and not bad4, pf, "partition block-size check dominates", "blocks are produced before the block size has been checked" + (
            " (under [%s])" % describe_alt(bad4[0][1]) if bad4 else ""), F4.cfg.nodes[bad4[0][0]].stmt if bad4 else None)
    # 5. split sum check: pieces are cut only when len(xbytes) == sum(slice lengths) is established
    sf = repo.func("toolkit/bytes_utils.py", "split_bytes_given_slice_len")
    F5 = facts_of(sf)
    xb, sl = sf.params[:2]

    def total(truth):
        def pred(k, t):
            if k[0] != "==" or t != truth:
                return False
            sides = list(k[1:])
            ln = "len(%s)" % entry(xb)
            if ln not in sides:
                return False
            other = sides[1 - sides.index(ln)]
            return other.startswith("sum(") and entry(sl) in other
        return pred
    ref5 = refusals(F5, total(False))
    if r3.require(bool(ref5), sf, "split total-length check", "split_bytes_given_slice_len no longer refuses a length mismatch"):
        work = [n.id for n in F5.cfg.nodes if n.id in F5.ins and ((n.kind in ("for", "test") and isinstance(n.stmt, (ast.While, ast.For))) or (
            n.kind == "return" and n.stmt.value is not None))]
        bad5 = unpermitted(F5, work, [total(True)])
        r3.require(bool(work) and not bad5, sf, "split total-length check dominates", "pieces are cut before the total length has been checked", F5.cfg.nodes[bad5[0][0]].stmt if bad5 else None)
    # 6. Bitset value-fits-length: value/length are stored only when no explicit length is given or the value fits it
    bi = repo.func("toolkit/bits.py", "Bitset.__init__")
    ok6, why6 = bitset_width_checked(bi)
    if r3.require(ok6 or why6 == "dominates", bi, "Bitset value-fits-length check", "Bitset.__init__ no longer refuses a value wider than the explicit length (over-long keywords/counters would be truncated silently)"):
        r3.require(ok6, bi, "Bitset check dominates", "Bitset stores value/length before checking the width")
    cut = bitset_input_cut(bi)
    r3.require(cut is None, bi, "Bitset width check sees the whole input",
               "Bitset.__init__ cuts its input down (%s) before the value-fits-length check: an over-long keyword or counter is then "
               "accepted as its low-order part instead of being refused, so two different inputs get one label" % (short(cut) if cut is not None else ""), cut)
    # registries
    for rel, fn in (("toolkit/prf/__init__.py", "get_prf_implementation"), ("toolkit/prp/__init__.py", "get_prp_implementation"),
                    ("toolkit/symmetric_encryption/__init__.py", "get_symmetric_encryption_implementation"), ("toolkit/hash.py", "get_hash_implementation")):
        fi = repo.func(rel, fn)
        why = registry_refuses(fi)
        r3.require(why is None, fi, "registry refuses unknown names", "%s can return without an implementation or no longer raises ValueError for unknown names (%s)" % (fn, why))


def bitset_width_checked(bi):
    """-> (ok, reason): a ValueError is reached when value.bit_length() > length, and value/length are stored only when no
    explicit length was given or the value fits it."""
    F6 = facts_of(bi)
    lenp = bi.params[2]

    def too_wide(truth):
        def pred(k, t):
            return k[0] == "<" and k[1] in (lenp, entry(lenp)) and k[2].endswith(".bit_length()") and t == truth
        return pred
    if not refusals(F6, too_wide(True)):
        return False, "missing"
    stores = [n.id for n in F6.cfg.nodes if n.id in F6.ins and n.kind == "stmt" and isinstance(n.stmt, ast.Assign) and any(
        isinstance(t, ast.Attribute) and t.attr in ("value", "length") for t in n.stmt.targets)]
    no_len = [lambda k, t: k == ("truth", lenp) and not t, lambda k, t: k == ("truth", entry(lenp)) and not t,
              lambda k, t: k[0] == "==" and "0" in k[1:] and (lenp in k[1:] or entry(lenp) in k[1:]) and t]
    if not stores or unpermitted(F6, stores, [too_wide(False)] + no_len):
        return False, "dominates"
    return True, None


def bitset_input_cut(bi):
    """-> the first place where Bitset.__init__ takes a slice of (something computed from) its input value, else None: the width
    check means something only when it is applied to the whole input - a value that was cut down to the requested width first
    always fits."""
    vp = bi.params[1]
    tainted = {vp}
    changed = True
    while changed:
        changed = False
        for st in ast.walk(bi.node):
            if isinstance(st, ast.Assign) and any(isinstance(n, ast.Name) and n.id in tainted for n in ast.walk(st.value)):
                for t in st.targets:
                    for n in ast.walk(t):
                        if isinstance(n, ast.Name) and n.id not in tainted:
                            tainted.add(n.id)
                            changed = True
    in_raise = {id(n) for r in ast.walk(bi.node) if isinstance(r, ast.Raise) for n in ast.walk(r)}
    for n in ast.walk(bi.node):
        if isinstance(n, ast.Subscript) and isinstance(n.slice, ast.Slice) and id(n) not in in_raise and \
                any(isinstance(x, ast.Name) and x.id in tainted for x in ast.walk(n.value)):
            return n
    for n in ast.walk(bi.node):
        # value & mask / value % 2**length before the check has the same effect
        if isinstance(n, ast.Assign) and isinstance(n.value, ast.BinOp) and isinstance(n.value.op, (ast.BitAnd, ast.Mod)) and \
                any(isinstance(t, ast.Name) and t.id in tainted for t in n.targets) and \
                any(isinstance(x, ast.Name) and x.id in tainted for x in ast.walk(n.value.left)) and \
                any(isinstance(x, ast.Name) and x.id == bi.params[2] for x in ast.walk(n.value.right)):
            return n
    return None


def _partition_too_small(pf):
    """partition refuses block_size < entries * identifier_size (a ValueError is reached with that fact known)."""
    F4 = facts_of(pf)
    lst, cnt, idz, bsz = pf.params[:4]

    def pred(k, t):
        if not (k[0] == "<" and k[1] in (bsz, entry(bsz)) and t):
            return False
        try:
            e = ast.parse(k[2], mode="eval").body
        except SyntaxError:
            return False
        return isinstance(e, ast.BinOp) and isinstance(e.op, ast.Mult) and isinstance(e.left, ast.Name) and isinstance(e.right, ast.Name) and \
            {e.left.id, e.right.id} == {entry(cnt), entry(idz)}
    return bool(refusals(F4, pred))


def _split_total_checked(sf):
    """-> (ok, reason)"""
    F5 = facts_of(sf)
    xb, sl = sf.params[:2]

    def total(truth):
        def pred(k, t):
            if k[0] != "==" or t != truth:
                return False
            sides = list(k[1:])
            ln = "len(%s)" % entry(xb)
            if ln not in sides:
                return False
            other = sides[1 - sides.index(ln)]
            return other.startswith("sum(") and entry(sl) in other
        return pred
    if not refusals(F5, total(False)):
        return False, "missing"
    work = [n.id for n in F5.cfg.nodes if n.id in F5.ins and ((n.kind in ("for", "test") and isinstance(n.stmt, (ast.While, ast.For))) or (
        n.kind == "return" and n.stmt.value is not None))]
    if not work or unpermitted(F5, work, [total(True)]):
        return False, "dominates"
    return True, None


def registry_refuses(fi):
    """A name registry: some path raises ValueError, and no path hands back None / an unchecked lookup result.
    -> None when fine, else the reason."""
    from ..pathsum import summarize, raising, normal
    from .. import straight as S
    paths = summarize(fi, unroll=1, follow_exc=True)
    if not raising(paths, "ValueError"):
        return "no path raises ValueError"
    # `name in ('abc')` is a substring test on a string (the parentheses do not make a tuple): '' and every fragment pass it
    for x in ast.walk(fi.node):
        if isinstance(x, ast.Compare) and len(x.ops) == 1 and isinstance(x.ops[0], (ast.In, ast.NotIn)) and \
                isinstance(x.comparators[0], ast.Constant) and isinstance(x.comparators[0].value, (str, bytes)):
            return "the name is tested with `%s`, a substring test against one string: the empty name and every fragment of a known name are accepted" % unparse(x)
    for p in normal(paths):
        if not p.returned or p.ret == ("const", None):
            return "a path ends without returning an implementation [%s]" % describe_alt(p.facts)
        checked = any((k[0] == "is" and "None" in k[1:] and not t) or (k[0] == "in" and t) or (k[0] == "truth" and t) for (k, t) in p.facts)
        constructed = p.ret[0] == "var" and p.ret[1][:1].isupper() or (p.ret[0] == "call" and p.ret[1] in (("fn", "functools.partial"),)) or \
            p.ret[0] == "sub"   # table[name]: a missing name raises KeyError instead of handing back None
        if not (checked or constructed):
            return "a path returns %s without having established that the name is known [%s]" % (S.show(p.ret)[:60], describe_alt(p.facts))
    return None


# ----------------------------------------------------------------------------- self-test variants
from ..selftest import V  # noqa: E402

VARIANTS = [
    V("pipack-required-key-dropped", "fire", "R8.1", [("schemes/CJJ14/PiPack/config.py", "PiPackConfig._parse_config", "\"param_B\",\n", "")]),
    V("ct14-required-key-dropped", "fire", "R8.1", [("schemes/CT14/Pi/config.py", "PiConfig._parse_config", "                                     \"param_k_prime\",\n", "")]),
    V("pibas-reads-undemanded-key", "fire", "R8.1", [("schemes/CJJ14/PiBas/config.py", "PiBasConfig._parse_config",
      "        self.param_lambda = config_dict.get(\"param_lambda\")", "        self.param_lambda = config_dict.get(\"param_lambda\")\n        self.param_extra = config_dict.get(\"param_extra\")")]),
    V("pibas-prf-without-key-length", "fire", "R8.2", [("schemes/CJJ14/PiBas/config.py", "PiBasConfig._parse_config",
      "            key_length=self.param_lambda,\n            output_length=self.prf_f_output_length)", "            output_length=self.prf_f_output_length)")]),
    V("dp17-rnd-default-key-length", "fire", "R8.2", [("schemes/DP17/Pi/config.py", "PiConfig._parse_config",
      "config_dict.get(\"rnd\", \"\"))(key_length=self.param_lambda)", "config_dict.get(\"rnd\", \"\"))()")]),
    V("hmacprf-key-guard-removed", "fire", "R8.2", [("toolkit/prf/hmac_prf.py", "HmacPRF.__call__",
      "        if self.key_length != LENGTH_UNLIMITED and len(key) != self.key_length:\n            raise ValueError(\n                \"The key length of the PRF does not meet the definition.\")\n", "")]),
    V("aes-key-length-membership-removed", "fire", "R8.2", [("toolkit/symmetric_encryption/aes.py", "AESxCBC.__init__",
      "        if key_length not in [16, 24, 32]:\n            raise ValueError(\n                \"The AES key length needs to be 16, 24 or 32 bytes.\")\n", "")]),
    V("aes-decrypt-key-guard-weakened", "fire", "R8.2", [("toolkit/symmetric_encryption/aes.py", "AESxCBC.Decrypt",
      "        if len(key) != self.key_length:", "        if len(key) > self.key_length:")]),
    V("fpe-prp-message-guard-removed", "fire", "R8.2", [("toolkit/prp/bitwise_fpe_prp.py", "BitwiseFPEPRP.__call__",
      "        if len(message) != self.message_bit_length:\n            raise ValueError(\"Message(Input) bit length mismatch for PRP.\")\n", "")]),
    V("pi2lev-equality-check-removed", "fire", "R8.3", [("schemes/CJJ14/Pi2Lev/config.py", "Pi2LevConfig._parse_config",
      "        if (self.param_b * self.param_identifier_size) // self.param_b_prime != self.param_index_size_of_A:\n            raise ValueError(\"guarantee (param_B * param_identifier_size) // param_B_prime == \"\n                             \"(param_b * param_identifier_size) // param_b_prime\")\n", "")]),
    V("pi2lev-too-large-falls-through", "fire", "R8.3", [("schemes/CJJ14/Pi2Lev/construction.py", "Pi2Lev._Enc",
      "            else:\n                raise ValueError(\"DB(w) is too large!\")", "            else:\n                pass")]),
    V("partition-size-check-removed", "fire", "R8.3", [("toolkit/database_utils.py", "partition_identifiers_to_blocks",
      "    if block_size_bytes < entry_count_in_one_block * identifier_size:\n        raise ValueError(\n            \"parameter block_size_bytes should be greater than or equal to \"\n            \"entry_count_in_one_block * identifier_size\")\n", "")]),
    V("bitset-width-check-removed", "fire", "R8.3", [("toolkit/bits.py", "Bitset.__init__",
      "        if length and value.bit_length() > length:\n            raise ValueError(\"The bit length of value if larger than given length.\")\n", "")]),
    V("prf-registry-returns-none", "fire", "R8.3", [("toolkit/prf/__init__.py", "get_prf_implementation",
      "    raise ValueError('unsupported PRF type ' + prf_name)", "    return None")]),
    V("benign-required-list-reordered", "silent", None, [("schemes/CJJ14/PiBas/config.py", "PiBasConfig._parse_config",
      "        SSEConfig.check_param_exist([\"param_lambda\",\n                                     \"prf_f_output_length\",", "        SSEConfig.check_param_exist([\"prf_f_output_length\",\n                                     \"param_lambda\",")]),
    V("benign-read-into-local", "silent", None, [("schemes/CJJ14/PiBas/config.py", "PiBasConfig._parse_config",
      "        self.param_lambda = config_dict.get(\"param_lambda\")", "        lam = config_dict.get(\"param_lambda\")\n        self.param_lambda = lam")]),
]
