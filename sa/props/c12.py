"""C12 - overlapping connections are serialised and cannot roll state back.

asyncio is single-threaded: control changes hands only at await / async with / async for, so a
coroutine is a sequence of atomic regions and an interleaving-independent claim must hold for
every ordering of regions.  The rules locate the awaits between a check and the act it licenses,
between a snapshot read and its later write-back, and between a wait and the use of a registry
entry.  See DESIGN.md section 3, C12.
"""
import ast

from ..core import Rule
from ..model import AnalysisError, dotted, unparse, short, ancestors
from ..cfg import cfg_of, calls_in_order, header_exprs
from ..effects import EffectScanner
from .. import frontend as F

EXPLANATION = ("Atomic-region analysis of the server's connection manager under asyncio's scheduling model (control "
               "changes hands only at await / async with / async for): check-then-act across an await on the registry, "
               "stale snapshot (read before an await, written back by close_service), registry entry used after an await "
               "without an identity test, lock discipline of registry mutations, and presence/dominance of the "
               "serialisation mechanism (CONTROL notice, await of the previous connection's closure before start, "
               "registration before start, request loop reachable only through start).")
ASSUMPTIONS = ["asyncio runs one coroutine at a time and switches only at await points",
               "liveness and the adequacy of the one-second clean-up delay are not examined"]

REG = "self._service_dict"


def _await_nodes(cfg, exclude_lock=False):
    out = set()
    for n in cfg.nodes:
        if not n.has_await:
            continue
        if exclude_lock and isinstance(n.stmt, ast.AsyncWith) and n.kind == "with":
            if all("lock" in (dotted(i.context_expr) or "").lower() for i in n.stmt.items):
                continue
        out.add(n.id)
    return out


def _await_between(cfg, a, b, awaits):
    """Some path a ->* w ->* b with w an await node, w != a (w may be b)."""
    for w in awaits:
        if w == a:
            continue
        if (w == b or cfg.can_reach(w, b)) and cfg.can_reach(a, w):
            return w
    return None


def _registry_ops(fi):
    """(kind, node, stmt) for loads/stores/deletes/membership tests on self._service_dict."""
    ops = []
    for n in ast.walk(fi.node):
        if isinstance(n, ast.Subscript) and dotted(n.value) == REG:
            kind = {ast.Store: "store", ast.Del: "delete", ast.Load: "load"}[type(n.ctx)]
            ops.append((kind, n))
        if isinstance(n, ast.Compare) and len(n.ops) == 1 and isinstance(n.ops[0], (ast.In, ast.NotIn)) and dotted(n.comparators[0]) == REG:
            ops.append(("member", n))
        if isinstance(n, ast.Call) and isinstance(n.func, ast.Attribute) and dotted(n.func.value) == REG:
            if n.func.attr in ("pop", "popitem", "clear", "update", "setdefault", "__setitem__", "__delitem__"):
                ops.append(("store" if n.func.attr in ("update", "setdefault", "__setitem__") else "delete", n))
            elif n.func.attr in ("get",):
                ops.append(("load", n))
    return ops


def _is_reg_get(v):
    """REG.get(key) / REG.get(key, None): None exactly when the key is not registered (given that None is never stored)."""
    return isinstance(v, ast.Call) and isinstance(v.func, ast.Attribute) and v.func.attr == "get" and dotted(v.func.value) == REG and not v.keywords \
        and (len(v.args) == 1 or (len(v.args) == 2 and isinstance(v.args[1], ast.Constant) and v.args[1].value is None))


def _stored_values_are_objects(repo, mgr):
    """Every value stored in the registry is a freshly constructed instance of a repository class that defines neither __bool__ nor
    __len__ (so it is never None and always truthy): the premise under which `REG.get(k) is not None` / `if REG.get(k)` mean `k in REG`."""
    n = 0
    for fi in mgr.methods.values():
        for kind, node in _registry_ops(fi):
            if kind != "store":
                continue
            n += 1
            if not isinstance(node, ast.Subscript):
                return False
            from ..model import enclosing_stmt
            st = enclosing_stmt(node)
            if not (isinstance(st, ast.Assign) and isinstance(st.value, ast.Name)):
                return False
            defs = [a for a in ast.walk(fi.node) if isinstance(a, ast.Assign) and any(isinstance(t, ast.Name) and t.id == st.value.id for t in a.targets)]
            if not defs or st.value.id in fi.params:
                return False
            for a in defs:
                if not isinstance(a.value, ast.Call):
                    return False
                tgt = repo.resolve_call(fi, a.value)
                cls = getattr(tgt, "cls", None) if getattr(tgt, "name", None) == "__init__" else (tgt if hasattr(tgt, "methods") else None)
                if cls is None or "__bool__" in cls.methods or "__len__" in cls.methods:
                    return False
    return n >= 1


def _member_tests(repo, mgr, fi, cfg):
    """[(test node, positive, origin id)]: branch nodes that decide whether the key is registered.  `positive` tells which edge means
    "registered"; `origin` is the node at which the registry was consulted (the test itself, or the REG.get(...) binding it tests)."""
    out = []
    objects = None
    gets = {}
    other = set()
    for n in cfg.nodes:
        if n.kind == "stmt" and isinstance(n.stmt, (ast.Assign, ast.AnnAssign, ast.AugAssign)):
            tg = n.stmt.targets if isinstance(n.stmt, ast.Assign) else [n.stmt.target]
            for t in tg:
                for x in ast.walk(t):
                    if isinstance(x, ast.Name):
                        if isinstance(n.stmt, ast.Assign) and len(tg) == 1 and t is x and _is_reg_get(n.stmt.value):
                            gets.setdefault(x.id, []).append(n.id)
                        else:
                            other.add(x.id)
    for n in cfg.nodes:
        if n.kind != "test":
            continue
        found = False
        for c in ast.walk(n.ast):
            if isinstance(c, ast.Compare) and len(c.ops) == 1 and isinstance(c.ops[0], (ast.In, ast.NotIn)) and dotted(c.comparators[0]) == REG:
                out.append((n, isinstance(c.ops[0], ast.In), n.id))
                found = True
                break
        if found:
            continue
        e, pol = n.ast, True
        while isinstance(e, ast.UnaryOp) and isinstance(e.op, ast.Not):
            e, pol = e.operand, not pol
        if isinstance(e, ast.Compare) and len(e.ops) == 1 and isinstance(e.ops[0], (ast.Is, ast.IsNot, ast.Eq, ast.NotEq)):
            a, b = e.left, e.comparators[0]
            if isinstance(a, ast.Constant) and a.value is None:
                a, b = b, a
            if not (isinstance(b, ast.Constant) and b.value is None):
                continue
            if isinstance(e.ops[0], (ast.Is, ast.Eq)):
                pol = not pol
            e = a
        origin = None
        if _is_reg_get(e):
            origin = n.id
        elif isinstance(e, ast.Name) and e.id in gets and e.id not in other and e.id not in fi.params:
            doms = [d for d in gets[e.id] if cfg.dominates(d, n.id)]
            if len(gets[e.id]) == 1 and doms:
                origin = doms[0]
        if origin is None:
            continue
        if objects is None:
            objects = _stored_values_are_objects(repo, mgr)
        if objects:
            out.append((n, pol, origin))
    return out


def _node_of(cfg, expr):
    from ..model import enclosing_stmt
    st = enclosing_stmt(expr)
    ids = cfg.nodes_of(st)
    # compound statement: header node only if expr inside header
    return ids


def check_writeback_freshness(repo, rule):
    """A connection's state snapshot may be written back (close_service) after the coroutine gave up control only if it is
    known to be the *registered* one in the same atomic region: looked up from the registry there, or identity-tested there.
    Otherwise a successor that registered and advanced the state in between is rolled back."""
    mgr = repo.cls(F.SRV_MGR, "ServicesManager")
    n = 0
    for fi in mgr.methods.values():
        if not fi.is_async:
            continue
        c = cfg_of(fi.node)
        aw = _await_nodes(c)
        for node in c.nodes:
            if node.ast is None or node.stmt is None:
                continue
            for call in calls_in_order(node.stmt if node.kind != "test" else node.ast):
                if not (isinstance(call.func, ast.Attribute) and call.func.attr == "close_service"):
                    continue
                n += 1
                recv = call.func.value
                prior = [w for w in aw if w != node.id and c.can_reach(w, node.id)]
                desc = {"function": fi.qual, "line": node.line, "receiver": unparse(recv)}
                if not prior:
                    rule.ok(desc)
                    continue
                fresh_lookup = isinstance(recv, ast.Subscript) and dotted(recv.value) == REG or \
                    (isinstance(recv, ast.Call) and isinstance(recv.func, ast.Attribute) and dotted(recv.func.value) == REG)
                guarded = False
                if isinstance(recv, ast.Name):
                    # local bound from the registry in the same atomic region
                    for m in c.nodes:
                        if m.kind == "stmt" and isinstance(m.stmt, ast.Assign) and any(isinstance(t, ast.Name) and t.id == recv.id for t in m.stmt.targets):
                            v = m.stmt.value
                            from_reg = (isinstance(v, ast.Subscript) and dotted(v.value) == REG) or \
                                (isinstance(v, ast.Call) and isinstance(v.func, ast.Attribute) and dotted(v.func.value) == REG)
                            if from_reg and c.dominates(m.id, node.id) and not _await_between(c, m.id, node.id, aw):
                                guarded = True
                    # identity test against the registry entry dominating the call, no await in between
                    for t in c.nodes:
                        if t.kind != "test":
                            continue
                        for cmp_ in ast.walk(t.ast):
                            if isinstance(cmp_, ast.Compare) and len(cmp_.ops) == 1 and isinstance(cmp_.ops[0], (ast.Is, ast.Eq)):
                                sides = [cmp_.left, cmp_.comparators[0]]
                                has_reg = any(any((isinstance(y, ast.Subscript) and dotted(y.value) == REG) or
                                                  (isinstance(y, ast.Call) and isinstance(y.func, ast.Attribute) and dotted(y.func.value) == REG)
                                                  for y in ast.walk(x)) for x in sides)
                                has_me = any(isinstance(x, ast.Name) and x.id == recv.id for x in sides)
                                if has_reg and has_me:
                                    tb = [b for (b, lab) in c.succ[t.id] if lab is True]
                                    on_true = any(b == node.id or c.can_reach(b, node.id) for b in tb) and not any(
                                        (b == node.id or c.can_reach(b, node.id, avoid={t.id})) for (b, lab) in c.succ[t.id] if lab is False)
                                    if on_true and not _await_between(c, t.id, node.id, aw):
                                        guarded = True
                if fresh_lookup or guarded:
                    rule.ok(desc)
                else:
                    rule.fail_fn(fi, call, "stale snapshot written back after giving up control",
                                 "%s writes back the snapshot of %s (close_service) after awaiting (line %d) without knowing that it is still the registered "
                                 "connection: a successor that connected in the meantime and advanced the service is rolled back to the closed connection's state" % (
                                     fi.name, unparse(recv), c.nodes[prior[0]].line), witness=desc)
    rule.require(n >= 1, mgr.methods.get("create_service"), "write-back site", "no close_service() call found in the connection manager")


def check(repo):
    rules = []
    mgr = repo.cls(F.SRV_MGR, "ServicesManager")
    create = mgr.methods.get("create_service")
    clean = mgr.methods.get("clean_service_when_close_connection")
    if create is None:
        raise AnalysisError("ServicesManager.create_service vanished")
    mt = F.msg_types(repo)
    scanner = EffectScanner(repo)

    r4 = Rule("R12.4", "every registry mutation happens under the registry lock")
    r1 = Rule("R12.1", "no check-then-act on the registry across an await")
    r2 = Rule("R12.2", "no durable-state snapshot taken before a wait is written back later")
    r3 = Rule("R12.3", "a registry entry used after an await is identified as this connection's")
    r5 = Rule("R12.5", "the serialisation mechanism exists and dominates request processing")
    rules += [r5, r4, r1, r2, r3]

    coros = [fi for fi in mgr.methods.values() if fi.is_async]
    # ---------------------------------------------------------------- R12.4
    n_mut = 0
    for fi in mgr.methods.values():
        for kind, node in _registry_ops(fi):
            if kind not in ("store", "delete"):
                continue
            if fi.name == "__init__":
                continue
            n_mut += 1
            locked = any(isinstance(a, ast.AsyncWith) and any(dotted(i.context_expr) == "self._access_dict_lock" for i in a.items)
                         for a in ancestors(node))
            desc = {"function": fi.qual, "op": kind, "line": node.lineno}
            if locked:
                r4.ok(desc)
            else:
                r4.fail_fn(fi, node, "registry %s outside lock" % kind,
                           "self._service_dict is modified outside `async with self._access_dict_lock`: %s" % short(ancestors(node).__next__()), witness=desc)
    # the registry is private to the manager
    for rel, m in repo.modules.items():
        if not rel.startswith("frontend/server/"):
            continue
        for fi in m.all_functions():
            if fi.cls is mgr:
                continue
            for n in ast.walk(fi.node):
                if isinstance(n, ast.Attribute) and n.attr == "_service_dict":
                    r4.fail_fn(fi, n, "registry accessed outside ServicesManager", "the connection registry is touched from %s" % fi.qual)
    r4.require(n_mut >= 2, create, "registry mutations floor", "expected the registration and the clean-up deletion, found %d mutations" % n_mut)
    init = mgr.methods.get("__init__")
    lock_ok = init is not None and any(isinstance(s, ast.Assign) and dotted(s.targets[0]) == "self._access_dict_lock" and isinstance(s.value, ast.Call)
                                       and (dotted(s.value.func) or "").endswith("asyncio.Lock") for s in ast.walk(init.node))
    r4.require(lock_ok, init or create, "lock is an asyncio.Lock", "the registry lock is no longer an asyncio.Lock created in __init__")

    # ---------------------------------------------------------------- R12.5 mechanism in create_service
    cfg = cfg_of(create.node)
    awaits_all = _await_nodes(cfg)
    member_tests = _member_tests(repo, mgr, create, cfg)
    start_nodes = [n for n in cfg.nodes if n.ast is not None and n.stmt is not None and any(
        isinstance(c.func, ast.Attribute) and c.func.attr == "start" for c in calls_in_order(n.stmt if n.kind != "test" else n.ast))]
    sid_param = create.params[1] if len(create.params) > 1 else "sid"
    r5.require(len(start_nodes) == 1, create, "single start of request processing", "create_service must start the service exactly once (found %d)" % len(start_nodes))
    if r5.require(len(member_tests) >= 1, create, "membership test present",
                  "create_service no longer tests whether the sid is already being served (no `sid in self._service_dict`)") and start_nodes:
        tnode, positive, _origin = member_tests[0]
        # names bound to the registered previous service
        prev_names = set()
        for s in ast.walk(create.node):
            if isinstance(s, ast.Assign) and len(s.targets) == 1 and isinstance(s.targets[0], ast.Name):
                v = s.value
                if isinstance(v, ast.Subscript) and dotted(v.value) == REG:
                    prev_names.add(s.targets[0].id)
                if isinstance(v, ast.Call) and isinstance(v.func, ast.Attribute) and v.func.attr == "get" and dotted(v.func.value) == REG:
                    prev_names.add(s.targets[0].id)
        wait_nodes = set()
        for n in cfg.nodes:
            if n.ast is None or n.stmt is None or not n.has_await:
                continue
            for aw in ast.walk(n.stmt if n.kind != "test" else n.ast):
                if isinstance(aw, ast.Await) and isinstance(aw.value, ast.Call) and isinstance(aw.value.func, ast.Attribute) \
                        and aw.value.func.attr == "wait_closed":
                    recv = aw.value.func.value
                    if (isinstance(recv, ast.Name) and recv.id in prev_names) or (isinstance(recv, ast.Subscript) and dotted(recv.value) == REG):
                        wait_nodes.add(n.id)
        r5.require(bool(wait_nodes), create, "await previous connection closed",
                   "create_service no longer awaits wait_closed() of the connection registered for the sid")
        # from the 'already served' edge, start is unreachable without passing the wait
        s_id = start_nodes[0].id
        busy_targets = [b for (b, lab) in cfg.succ[tnode.id] if lab is positive]
        for b in busy_targets:
            leak = (b == s_id) or (b not in wait_nodes and cfg.can_reach(b, s_id, avoid=wait_nodes))
            r5.require(not leak, create, "start without waiting",
                       "when the sid is already being served, request processing can start without awaiting the previous connection's closure",
                       start_nodes[0].stmt)
        # CONTROL notice on the busy branch
        ctrl = False
        for n in cfg.nodes:
            if n.ast is None or n.stmt is None:
                continue
            for e in scanner.node_effects(create, n):
                if e.kind == "send" and e.name == mt.get("CONTROL"):
                    if any(b == n.id or cfg.can_reach(b, n.id) for b in busy_targets) and \
                            not any(cfg.can_reach(b2, n.id) for (b2, lab) in cfg.succ[tnode.id] if lab is (not positive) and not cfg.can_reach(b2, tnode.id)):
                        ctrl = True
                    elif any(b == n.id or cfg.can_reach(b, n.id) for b in busy_targets):
                        ctrl = True
        r5.require(ctrl, create, "CONTROL notice", "a connection that has to wait is no longer told so with a CONTROL message")
        # registration dominates start
        regs = {nid for nid in range(len(cfg.nodes)) if cfg.nodes[nid].stmt is not None and isinstance(cfg.nodes[nid].stmt, ast.Assign)
                and cfg.nodes[nid].kind == "stmt" and any(isinstance(t, ast.Subscript) and dotted(t.value) == REG for t in cfg.nodes[nid].stmt.targets)}
        r5.require(bool(regs) and not cfg.can_reach(cfg.entry, s_id, avoid=regs), create, "registration before start",
                   "request processing can start before the connection is registered under its sid", start_nodes[0].stmt)
        # the registered object is the one that is started
        if regs:
            reg_stmt = cfg.nodes[sorted(regs)[0]].stmt
            started = None
            for c in calls_in_order(start_nodes[0].stmt):
                if isinstance(c.func, ast.Attribute) and c.func.attr == "start":
                    started = dotted(c.func.value)
            r5.require(dotted(reg_stmt.value) == started and isinstance(reg_stmt.targets[0].slice, ast.Name) and reg_stmt.targets[0].slice.id == sid_param,
                       create, "registered object is the started one", "the object registered under the sid is not the service that is started", reg_stmt)
        # start is awaited (not spawned as a task)
        awaited = any(isinstance(aw, ast.Await) and isinstance(aw.value, ast.Call) and isinstance(aw.value.func, ast.Attribute) and aw.value.func.attr == "start"
                      for aw in ast.walk(start_nodes[0].stmt))
        r5.require(awaited, create, "start awaited", "service.start() is not awaited inside create_service", start_nodes[0].stmt)
    # Service.wait_closed awaits the websocket's closure
    wc = repo.func(F.SRV, "Service.wait_closed")
    ok = any(isinstance(aw, ast.Await) and isinstance(aw.value, ast.Call) and dotted(aw.value.func) == "self.websocket.wait_closed" for aw in ast.walk(wc.node))
    r5.require(ok, wc, "wait_closed awaits the socket", "Service.wait_closed no longer awaits self.websocket.wait_closed()")
    if ok:
        # ... on every path that returns normally (handlers included): a later connection is released only when the await of the
        # socket's closure itself has completed - a bounded wait (wait_for with a timeout, a probe that gives up) is no such await
        wcfg = cfg_of(wc.node)
        direct = {n.id for n in wcfg.nodes if n.stmt is not None and any(
            isinstance(aw, ast.Await) and isinstance(aw.value, ast.Call) and dotted(aw.value.func) == "self.websocket.wait_closed"
            for aw in ast.walk(n.ast if n.ast is not None else n.stmt))}
        r5.require(bool(direct) and wcfg.must_pass(wcfg.entry, direct, skip_exc=False), wc, "wait_closed returns only after the socket closed",
                   "Service.wait_closed can return without the await of self.websocket.wait_closed() having completed (a path gives up "
                   "waiting): the next connection of the service is then registered and served while this one is still open")
    # _recv_message reachable only through start; start only from create_service
    for rel, m in repo.modules.items():
        if not rel.startswith("frontend/server/"):
            continue
        for fi in m.all_functions():
            for c in ast.walk(fi.node):
                if isinstance(c, ast.Call) and isinstance(c.func, ast.Attribute):
                    if c.func.attr == "_recv_message":
                        r5.require(fi.qual == "Service.start", fi, "caller of _recv_message", "_recv_message is called from %s" % fi.qual, c)
                    if c.func.attr == "start" and rel in (F.SRV_MGR, F.SRV, F.SRV_CONN) and dotted(c.func.value) not in ("asyncio", "loop"):
                        r5.require(fi.key == create.key, fi, "caller of Service.start", "Service.start is called from %s" % fi.qual, c)
                    if c.func.attr in ("handle_upload_config", "handle_upload_encrypted_database", "handle_search_token"):
                        r5.fail_fn(fi, c, "direct handler call", "a request handler is invoked directly from %s, bypassing the serialised receive loop" % fi.qual)
    # connector awaits create_service with (sid, websocket)
    hnd = repo.func(F.SRV_CONN, "handler")
    okc = any(isinstance(aw, ast.Await) and isinstance(aw.value, ast.Call) and isinstance(aw.value.func, ast.Attribute)
              and aw.value.func.attr == "create_service" and len(aw.value.args) + len(aw.value.keywords) == 2 for aw in ast.walk(hnd.node))
    r5.require(okc, hnd, "connector awaits create_service", "connector.handler no longer awaits create_service(sid, websocket)")
    # one manager instance shared by all connections (module level)
    cm = repo.module(F.SRV_CONN)
    shared = any(isinstance(v, ast.Call) and (dotted(v.func) or "").endswith("ServicesManager") for v in cm.globals.values())
    r5.require(shared, hnd, "shared manager", "connector no longer shares one module-level ServicesManager between connections")
    in_handler = any(isinstance(c, ast.Call) and (dotted(c.func) or "").endswith("ServicesManager") for c in ast.walk(hnd.node))
    r5.require(not in_handler, hnd, "manager per connection", "connector.handler creates a ServicesManager per connection")

    # clean-up: unregister only after this socket closed
    if clean is not None:
        ccfg = cfg_of(clean.node)
        ws_param = clean.params[2] if len(clean.params) > 2 else "websocket"
        waits = {n.id for n in ccfg.nodes if n.ast is not None and n.stmt is not None and any(
            isinstance(aw, ast.Await) and isinstance(aw.value, ast.Call) and dotted(aw.value.func) == ws_param + ".wait_closed"
            for aw in ast.walk(n.stmt if n.kind != "test" else n.ast))}
        dels = []
        for kind, node in _registry_ops(clean):
            if kind == "delete":
                dels += _node_of(ccfg, node)
        r5.require(bool(dels), clean, "clean-up unregisters", "the clean-up no longer removes the closed connection from the registry")
        for d in dels:
            r5.require(bool(waits) and not ccfg.can_reach(ccfg.entry, d, avoid=waits), clean, "unregister after close",
                       "the registry entry can be removed before this connection's socket is closed", ccfg.nodes[d].stmt)
        spawned = any(isinstance(c, ast.Call) and isinstance(c.func, ast.Attribute) and c.func.attr == "clean_service_when_close_connection"
                      for c in ast.walk(create.node))
        r5.require(spawned, create, "clean-up scheduled", "create_service no longer schedules the clean-up of its registration")
        # ... as a task of its own, created before the connection is served: run inline after start() returned, the clean-up of a closed
        # connection begins only after a waiting newcomer has registered, and its delayed unregistration then removes the newcomer
        task_nodes = set()
        for n in cfg.nodes:
            if n.stmt is None or n.ast is None:
                continue
            for c in ast.walk(n.stmt if n.kind != "test" else n.ast):
                if isinstance(c, ast.Call) and dotted(c.func) in ("asyncio.create_task", "asyncio.ensure_future") and c.args and isinstance(c.args[0], ast.Call) and \
                        isinstance(c.args[0].func, ast.Attribute) and c.args[0].func.attr == "clean_service_when_close_connection":
                    task_nodes.add(n.id)
        if start_nodes:
            r5.require(bool(task_nodes) and not cfg.can_reach(cfg.entry, start_nodes[0].id, avoid=task_nodes), create, "clean-up runs concurrently with serving",
                       "create_service no longer creates the clean-up task before it serves the connection (the clean-up runs inline after start() returned): a connection "
                       "that was waiting registers first and is then unregistered by its predecessor's delayed clean-up")

    # ---------------------------------------------------------------- R12.1 check-then-act
    for fi in coros:
        c = cfg_of(fi.node)
        aw = _await_nodes(c)
        # the moment the registry was consulted: the test itself, or the REG.get(...) binding it examines
        tests = [c.nodes[o] for (_n, _p, o) in _member_tests(repo, mgr, fi, c)]
        # acquiring the registry lock gives up control only when the lock is held, and it is never held across an await when no critical
        # section contains one: then `async with lock` is not a point at which another connection can run
        lock_bodies_atomic = all(not any(isinstance(y, (ast.Await, ast.AsyncFor, ast.AsyncWith)) for b_ in a_.body for y in ast.walk(b_))
                                 for f2 in mgr.methods.values() for a_ in ast.walk(f2.node)
                                 if isinstance(a_, ast.AsyncWith) and any("lock" in (dotted(i.context_expr) or "").lower() for i in a_.items))
        aw1 = _await_nodes(c, exclude_lock=lock_bodies_atomic)

        def await_label(nid_):
            """what is awaited at this node, by the name of the awaited call / attribute (stable under renamed locals)"""
            nd = c.nodes[nid_]
            root = nd.ast if nd.kind == "test" else nd.stmt
            if isinstance(root, ast.AsyncWith):
                return "async with " + ",".join((dotted(i.context_expr) or "?").split(".")[-1] for i in root.items)
            if isinstance(root, ast.AsyncFor):
                return "async for"
            for y in ast.walk(root):
                if isinstance(y, ast.Await):
                    v = y.value.func if isinstance(y.value, ast.Call) else y.value
                    return (v.attr if isinstance(v, ast.Attribute) else (v.id if isinstance(v, ast.Name) else "expr"))
            return "await"
        for kind, node in _registry_ops(fi):
            if kind != "store":
                continue
            for s in _node_of(c, node):
                for t in tests:
                    if not c.can_reach(t.id, s):
                        continue
                    between = sorted(w for w in aw1 if w != t.id and c.can_reach(t.id, w) and (w == s or c.can_reach(w, s)))
                    desc = {"function": fi.qual, "test_line": t.line, "store_line": c.nodes[s].line, "await_lines": [c.nodes[w].line for w in between]}
                    if not between:
                        r1.ok(desc)
                        continue
                    by_label = {}
                    for w in between:
                        by_label.setdefault(await_label(w), []).append(w)
                    for label, ws in sorted(by_label.items()):
                        w = ws[0]
                        # re-test after the last await?  (a loop back to the test counts)
                        retest = all(c.can_reach(w_, t.id) and not c.can_reach(w_, s, avoid={t.id}) for w_ in ws)
                        if retest:
                            r1.ok(desc)
                        else:
                            r1.fail_fn(fi, c.nodes[s].stmt, "registry store after await since membership test [%s]" % label,
                                       "the membership test at line %d licenses the registry store at line %d, but control is given up in between "
                                       "(await of %s at line %d): two connections that both passed the test before either registered proceed and are served at the same time" % (
                                           t.line, c.nodes[s].line, label, c.nodes[w].line), witness=desc)
    r1.require(r1.obligations >= 1, create, "check-then-act instances", "no membership-test/registration pair found to analyse")

    # ---------------------------------------------------------------- R12.2 stale snapshot
    svc_init = repo.func(F.SRV, "Service.__init__")
    reads_meta = any(e.kind == "fm" and e.name == "read_service_meta" for e in scanner.summary(svc_init))
    close_fn = repo.func(F.SRV, "Service.close_service")
    writes_snapshot = any(e.kind == "fm" and e.name == "write_service_meta" for e in scanner.summary(close_fn))
    r2.instance({"constructor reads durable state": reads_meta, "close_service writes the snapshot back": writes_snapshot})
    for fi in coros:
        c = cfg_of(fi.node)
        aw = _await_nodes(c, exclude_lock=True)
        ctor = []
        for n in c.nodes:
            if n.ast is None or n.stmt is None:
                continue
            for call in calls_in_order(n.stmt if n.kind != "test" else n.ast):
                tgt = repo.resolve_call(fi, call)
                if hasattr(tgt, "key") and tgt.key == svc_init.key:
                    ctor.append(n)
        starts = [n for n in c.nodes if n.ast is not None and n.stmt is not None and any(
            isinstance(cc.func, ast.Attribute) and cc.func.attr == "start" for cc in calls_in_order(n.stmt if n.kind != "test" else n.ast))]
        for k in ctor:
            if not (reads_meta and writes_snapshot):
                r2.ok({"function": fi.qual, "note": "snapshot is not written back"})
                continue
            for s in starts:
                w = _await_between(c, k.id, s.id, aw - {s.id})
                desc = {"function": fi.qual, "snapshot_line": k.line, "await_line": c.nodes[w].line if w is not None else None, "start_line": s.line}
                if w is None:
                    r2.ok(desc)
                else:
                    r2.fail_fn(fi, k.stmt, "Service snapshot constructed before a wait",
                               "Service(...) reads the durable state at line %d, then waits (line %d) while another connection may advance that state; "
                               "close_service later writes the stale snapshot back, moving the durable state backwards" % (k.line, c.nodes[w].line), witness=desc)
    # snapshot write-back outside handlers/close: _recv_message must not persist after an await
    recv = repo.func(F.SRV, "Service._recv_message")
    for e in scanner.summary(recv):
        if e.kind == "fm" and e.name.startswith("write_") and not any("handle_" in ch for ch in e.chain):
            r2.fail_fn(recv, e.node, "snapshot written from receive loop", "_recv_message writes durable state itself: %s" % e.describe())
    r2.require(r2.obligations >= 1, create, "snapshot instances", "no Service construction found in the connection manager")

    # ---------------------------------------------------------------- R12.6 write-back and unregistration are one atomic step
    r6 = Rule("R12.6", "the closing connection's snapshot is written before (not after a wait following) its unregistration")
    rules.append(r6)
    for fi in coros:
        c = cfg_of(fi.node)
        aw = _await_nodes(c)
        closes = [n for n in c.nodes if n.ast is not None and n.stmt is not None and any(
            isinstance(cc.func, ast.Attribute) and cc.func.attr == "close_service" for cc in calls_in_order(n.stmt if n.kind != "test" else n.ast))]
        dels = []
        for kind, node in _registry_ops(fi):
            if kind == "delete":
                dels += _node_of(c, node)
        for d in dels:
            for cl in closes:
                if not c.can_reach(d, cl.id):
                    r6.ok({"function": fi.qual, "unregister_line": c.nodes[d].line, "write_back_line": cl.line, "order": "write-back first"})
                    continue
                w = _await_between(c, d, cl.id, aw)
                desc = {"function": fi.qual, "unregister_line": c.nodes[d].line, "write_back_line": cl.line,
                        "await_line": c.nodes[w].line if w is not None else None}
                if w is None:
                    r6.ok(desc)
                else:
                    r6.fail_fn(fi, cl.stmt, "write-back after unregistration and await",
                               "the connection is unregistered at line %d, control is given up (line %d) and only then close_service() writes its snapshot "
                               "(line %d): a successor that registered in between and advanced the state is rolled back" % (c.nodes[d].line, c.nodes[w].line, cl.line), witness=desc)
    if clean is not None:
        r6.require(r6.obligations >= 1, clean, "write-back/unregister pair", "the clean-up no longer pairs close_service() with the unregistration")

    r8 = Rule("R12.8", "a snapshot is written back after an await only for the connection that is still registered")
    rules.append(r8)
    check_writeback_freshness(repo, r8)
    r7 = Rule("R12.7", "accepted transitions are persisted by the handler before they are acknowledged")
    rules.append(r7)
    from . import c10
    for rr in c10.check(repo):
        if rr.id == "R10.3":
            r7.obligations += rr.obligations
            r7.discharged += rr.discharged
            r7.instances += rr.instances
            for f in rr.findings:
                f.rule = "R12.7"
                r7.findings.append(f)
        if rr.id == "R10.1":
            # an effect outside the state that licenses it (a state store, a durable write) is how a second connection - a queued client
            # replaying its script, a retry - moves the accepted state backwards or replaces accepted data
            for f in rr.findings:
                f.rule = "R12.7"
                r7.findings.append(f)
                r7.obligations += 1

    # ---------------------------------------------------------------- R12.3 identity after await
    for fi in coros:
        c = cfg_of(fi.node)
        aw = _await_nodes(c)
        params = set(fi.params)
        for kind, node in _registry_ops(fi):
            if kind not in ("load", "delete"):
                continue
            for s in _node_of(c, node):
                w = None
                for x in aw:
                    if x != s and c.can_reach(x, s) or (x == s and isinstance(c.nodes[s].stmt, ast.AsyncWith) and False):
                        w = x
                        break
                if w is None:
                    r3.ok({"function": fi.qual, "op": kind, "line": c.nodes[s].line, "note": "no await before use"})
                    continue
                # accepted: the entry is only awaited upon (prev.wait_closed()) - waiting on whoever is registered is the mechanism itself
                stmt = c.nodes[s].stmt
                if fi.key == create.key and kind == "load":
                    r3.ok({"function": fi.qual, "op": kind, "line": c.nodes[s].line, "note": "previous connection looked up to wait on it"})
                    continue
                # identity test dominating the use: a test comparing the registry entry (or its websocket) with a parameter/self-owned object
                guarded = False
                for t in c.nodes:
                    if t.kind != "test":
                        continue
                    for cmp_ in ast.walk(t.ast):
                        if isinstance(cmp_, ast.Compare) and len(cmp_.ops) == 1 and isinstance(cmp_.ops[0], (ast.Is, ast.Eq, ast.IsNot, ast.NotEq)):
                            sides = [cmp_.left, cmp_.comparators[0]]
                            has_reg = any(any(isinstance(y, ast.Subscript) and dotted(y.value) == REG or
                                              (isinstance(y, ast.Call) and isinstance(y.func, ast.Attribute) and dotted(y.func.value) == REG)
                                              for y in ast.walk(x)) for x in sides)
                            has_own = any(any(isinstance(y, ast.Name) and y.id in params and y.id != "self" and y.id != (fi.params[1] if len(fi.params) > 1 else "") for y in ast.walk(x)) for x in sides)
                            if has_reg and has_own and c.dominates(t.id, s) and not _await_between(c, t.id, s, aw):
                                guarded = True
                desc = {"function": fi.qual, "op": kind, "line": c.nodes[s].line, "await_line": c.nodes[w].line}
                if guarded:
                    r3.ok(desc)
                else:
                    r3.fail_fn(fi, stmt, "registry entry %s after await without identity test" % ("deleted" if kind == "delete" else "used"),
                               "after giving up control (await at line %d) %s acts on whatever is registered under the sid at line %d without checking that it is "
                               "still this connection's entry: the clean-up of one connection closes/unregisters its successor" % (
                                   c.nodes[w].line, fi.name, c.nodes[s].line), witness=desc)
    return rules


# ----------------------------------------------------------------------------- self-test variants
from ..selftest import V  # noqa: E402

_M = F.SRV_MGR
VARIANTS = [
    V("wait-closed-deleted", "fire", "R12.5", [(_M, "ServicesManager.create_service",
      "            await prev_server.wait_closed()  # wait for the previous socket to close\n", "")]),
    V("store-outside-lock", "fire", "R12.4", [(_M, "ServicesManager.create_service",
      "        async with self._access_dict_lock:\n            self._service_dict[sid] = service", "        self._service_dict[sid] = service")]),
    V("start-before-registration", "fire", "R12.5", [(_M, "ServicesManager.create_service",
      """        async with self._access_dict_lock:
            self._service_dict[sid] = service
        clean_task = asyncio.create_task(self.clean_service_when_close_connection(sid, websocket))
        await service.start()  # run forever! do not use asyncio.create_task
""", """        clean_task = asyncio.create_task(self.clean_service_when_close_connection(sid, websocket))
        await service.start()  # run forever! do not use asyncio.create_task
        async with self._access_dict_lock:
            self._service_dict[sid] = service
""")]),
    V("start-spawned-not-awaited", "fire", "R12.5", [(_M, "ServicesManager.create_service",
      "        await service.start()  # run forever! do not use asyncio.create_task", "        asyncio.create_task(service.start())")]),
    V("membership-test-inverted", "fire", "R12.", [(_M, "ServicesManager.create_service",
      "        if sid in self._service_dict:", "        if sid not in self._service_dict and False:")]),
    V("control-notice-dropped", "fire", "R12.5", [(_M, "ServicesManager.create_service",
      "            service.send_message(MsgType.CONTROL, reason.encode('utf8'))\n", "")]),
    V("unregister-before-close", "fire", "R12.5", [(_M, "ServicesManager.clean_service_when_close_connection",
      "        await websocket.wait_closed()\n", "")]),
    V("recv-loop-persists-snapshot", "fire", "R12.2", [(F.SRV, "Service._recv_message",
      "            self.recv_msg_handler[msg_type](content_byte, message_dict)", "            self.recv_msg_handler[msg_type](content_byte, message_dict)\n            self._store_service_meta()")]),
    V("second-unlocked-store", "fire", "R12.4", [(_M, "ServicesManager.create_service",
      "        short_sid = shorten_sid(sid)  # shorten sid for display and log", "        short_sid = shorten_sid(sid)\n        self._service_dict.setdefault(sid, None)")]),
    V("manager-per-connection", "fire", "R12.5", [(F.SRV_CONN, "handler",
      "    await _sse_service_manager.create_service(sid, websocket)", "    await ServicesManager().create_service(sid, websocket)")]),
    V("benign-rename-local", "silent", None, [(_M, "ServicesManager.create_service",
      "            prev_server = self._service_dict[sid]", "            prev_server = self._service_dict.get(sid)")]),
    V("benign-hoist", "silent", None, [(_M, "ServicesManager.clean_service_when_close_connection",
      "        logger.info(f\"Clean service {shorten_sid(sid)} successfully.\")", "        short = shorten_sid(sid)\n        logger.info(f\"Clean service {short} successfully.\")")]),
]
