"""C20 - persistent byte dictionaries behave like a dict and survive close/reopen.

Decides the structural conditions for dict-equivalence and for "closed means closed": every
operation goes through the guarded object, refusals precede effects, from_dict does not alias its
source, the life cycle (sync / close / open / create / release) is ordered and complete, and the
write-back shelf keeps cache and backend coherent.  See DESIGN.md section 3, C20.
"""
import ast

from ..core import Rule
from ..model import AnalysisError, dotted, unparse, short, ancestors
from ..cfg import cfg_of, calls_in_order
from .. import straight as S
from ..facts import facts_of
from ..contract import entry, refusals, unpermitted, isinstance_of, describe_alt
from ..pathsum import summarize

EXPLANATION = ("For PickledDict and DBMDict each content-reading or content-changing public method must *use* the guarded "
               "attribute (call / subscript / iterate / len / in) so that the closed marker can raise - a method that only rebinds "
               "the attribute bypasses the marker; the marker must bind the operations those uses reach; the bytes-only type check "
               "must dominate the store; from_dict must bind a fresh container or copy entries; sync must truncate, rewind, dump "
               "*the data attribute* and flush, and every content-changing method must leave sync able to see the change (no "
               "dirty-flag shortcut that misses a mutator); close = sync, file close, marker in a finally; create refuses an "
               "existing path, open a missing one, with the right exception classes; release closes before unlinking; the shelf "
               "updates / removes cache and backend together and flushes the cache with write-back disabled.")
ASSUMPTIONS = ["equivalence with the dict model over operation histories is not decided; the dbm backend is trusted"]

PD = "data_persistence/persistent_dict.py"
BS = "data_persistence/bytes_shelf.py"
OPS = ["__iter__", "__len__", "get", "__contains__", "__getitem__", "__setitem__", "__delitem__", "clear"]
MUTATORS = ["__setitem__", "__delitem__", "clear"]


def _uses_of(fi, attr):
    """How the method touches self.<attr>: list of kinds ('call:<m>', 'sub', 'iter', 'len', 'in', 'rebind', 'del')"""
    kinds = []
    for n in ast.walk(fi.node):
        if isinstance(n, ast.Attribute) and unparse(n) == "self." + attr:
            p = getattr(n, "_parent", None)
            if isinstance(p, ast.Attribute) and isinstance(getattr(p, "_parent", None), ast.Call) and getattr(p, "_parent").func is p:
                kinds.append("call:" + p.attr)
            elif isinstance(p, ast.Subscript) and p.value is n:
                kinds.append({ast.Load: "sub", ast.Store: "substore", ast.Del: "subdel"}[type(p.ctx)])
            elif isinstance(p, ast.Call) and dotted(p.func) in ("iter", "len", "list", "sorted", "dict") and n in p.args:
                kinds.append(dotted(p.func))
            elif isinstance(p, ast.Compare) and n in p.comparators and isinstance(p.ops[0], (ast.In, ast.NotIn)):
                kinds.append("in")
            elif isinstance(p, (ast.For, ast.comprehension)) and p.iter is n:
                kinds.append("iter")
            elif isinstance(n.ctx, ast.Store):
                kinds.append("rebind")
            elif isinstance(p, ast.Call) and n in p.args:
                kinds.append("arg:" + (dotted(p.func) or "?"))
            else:
                kinds.append("read")
    return kinds


def check(repo):
    r1 = Rule("R20.1", "every operation goes through the guarded object; the marker covers what it reaches")
    r2 = Rule("R20.2", "refuse before effect: bytes-only values")
    r3 = Rule("R20.3", "from_dict does not alias the source dict")
    r4 = Rule("R20.4", "life cycle: sync / close / open / create / release")
    r5 = Rule("R20.5", "shelf write-back coherence")
    rules = [r1, r2, r3, r4, r5]
    marker = repo.cls(PD, "_ClosedDict")
    bound = {nm for nm, v in marker.attrs.items() if isinstance(v, ast.Name) and v.id == "closed"}
    cf = marker.methods.get("closed")
    r1.require(cf is not None and any(isinstance(x, ast.Raise) and isinstance(x.exc, ast.Call) and dotted(x.exc.func) == "ValueError" for x in cf.node.body), cf or list(marker.methods.values())[0],
               "marker raises ValueError", "_ClosedDict.closed no longer raises ValueError")
    need = {"__iter__", "__len__", "__getitem__", "__setitem__", "__delitem__"}
    r1.require(need <= bound, cf or list(marker.methods.values())[0], "marker binds the primitive mapping operations", "_ClosedDict binds %s; the MutableMapping mixins (get, in, clear, update, keys) reach %s" % (sorted(bound), sorted(need)))
    r1.require("MutableMapping" in " ".join(marker.bases), cf or list(marker.methods.values())[0], "marker is a MutableMapping", "_ClosedDict no longer derives from MutableMapping (mixin methods would be missing)")
    # a marker must not define quiet overrides of the mixins
    for nm, f in marker.methods.items():
        if nm not in ("closed", "__repr__"):
            r1.fail_fn(f, f.node, "marker overrides %s" % nm, "_ClosedDict.%s is defined separately: it must be the raising function" % nm)

    for cname, attr in (("PickledDict", "__data"), ("DBMDict", "__shelf")):
        ci = repo.cls(PD, cname)
        for op in OPS:
            f = ci.methods.get(op)
            if f is None:
                r1.fail(PD, cname, ci.node.lineno, "%s missing" % op, "%s.%s vanished" % (cname, op))
                continue
            kinds = _uses_of(f, attr)
            uses = [k for k in kinds if k != "rebind"]
            desc = {"class": cname, "method": op, "uses": kinds}
            if not uses:
                r1.fail_fn(f, f.node, "%s bypasses the guarded object" % op,
                           "%s.%s %s self.%s without using it: on a closed dictionary the closed marker cannot raise (the call silently succeeds and, for a rebinding, "
                           "revives the dictionary)" % (cname, op, "only rebinds" if "rebind" in kinds else "never touches", attr), witness=desc)
            elif "rebind" in kinds:
                r1.fail_fn(f, f.node, "%s rebinds the guarded object" % op, "%s.%s rebinds self.%s (replacing the closed marker)" % (cname, op, attr), witness=desc)
            else:
                r1.ok(desc)
            # an observation is computed from the guarded object on every path (never served from a private copy: a count or key cache
            # drifts as soon as an operation fails half way, e.g. the delete of an absent key)
            if op in ("__len__", "__iter__", "__contains__", "__getitem__", "get"):
                G = ("attr", ("var", "self"), attr)
                for ps in summarize(f):
                    if ps.exc is None and ps.returned and ps.ret is not None and not _has(ps.ret, G) and not any(
                            isinstance(ps.ret, tuple) and ps.ret[0] == "call" and isinstance(ps.ret[1], tuple) and ps.ret[1][0] == "fn" and str(ps.ret[1][1]).startswith("self.%s." % attr) for _ in [0]):
                        r1.fail_fn(f, f.node, "%s answers from a copy" % op,
                                   "%s.%s can return %s, which is not computed from self.%s [%s]: the answer is a cached copy that diverges from the dictionary (for instance after "
                                   "a delete that raised KeyError)" % (cname, op, S.show(ps.ret)[:60], attr, describe_alt(ps.facts)[:100]), witness=desc)
                        break
        # ------------------------------------------------------------ R20.2
        st = ci.methods.get("__setitem__")
        if st is not None:
            Fs = facts_of(st)
            kp, vp = st.params[1], st.params[2]
            stores = [n.id for n in Fs.cfg.nodes if n.id in Fs.ins and n.kind == "stmt" and isinstance(n.stmt, ast.Assign) and any(
                isinstance(t, ast.Subscript) and unparse(t.value) == "self." + attr for t in n.stmt.targets)]
            BT = ("typing.ByteString", "ByteString", "collections.abc.ByteString", "(bytes, bytearray)", "(bytearray, bytes)", "bytes")
            if r2.require(bool(refusals(Fs, isinstance_of(entry(vp), False), ("TypeError",))), st, "%s refuses non-bytes" % cname,
                          "%s.__setitem__ no longer refuses a non-bytes value with TypeError" % cname):
                r2.require(bool(stores) and not unpermitted(Fs, stores, [isinstance_of(entry(vp), True, types=BT)]), st, "%s type check precedes the store" % cname,
                           "%s.__setitem__ stores a value without having established that it is a byte string (bytes / bytearray): the check is missing on a path, comes after "
                           "the store, or admits further types (a memoryview or str is not a byte string and breaks the stored contents)" % cname)
                good = True
                shown = []
                for ps in summarize(st):
                    if ps.exc is not None:
                        continue
                    evs = [e for e in ps.events if e[0] == "store" and isinstance(e[1], tuple) and e[1][1] == "self." + attr]
                    shown += [(S.show(e[1][2]), S.show(e[2])[:60]) for e in evs]
                    if not evs or not all(e[1][2] == ("var", kp) and e[2] in (("var", vp), ("call", ("fn", "bytes"), (("var", vp),), ())) for e in evs):
                        good = False
                r2.require(good, st, "%s stores key -> value" % cname, "%s.__setitem__ stores %s" % (cname, shown))
        # ------------------------------------------------------------ R20.3
        fd = ci.methods.get("from_dict")
        if fd is not None:
            src_param = fd.params[1]
            cfg = cfg_of(fd.node)
            fills, syncs, creates = set(), set(), False
            for n in cfg.nodes:
                if n.stmt is None or n.ast is None:
                    continue
                root = n.ast if n.kind == "test" else n.stmt
                if cname == "PickledDict" and n.kind == "stmt" and isinstance(n.stmt, ast.Assign) and any(isinstance(t, ast.Attribute) and t.attr == attr for t in n.stmt.targets):
                    fills.add(n.id)
                    r3.require(_fresh_copy(n.stmt.value, src_param), fd, "PickledDict.from_dict copies",
                               "PickledDict.from_dict binds %s: later changes of the caller's dict show through (or the dict is shared)" % unparse(n.stmt.value), n.stmt)
                for c in ast.walk(root):
                    if isinstance(c, ast.Call) and isinstance(c.func, ast.Attribute) and c.func.attr == "update" and c.args and unparse(c.args[0]).startswith(src_param) and cname != "PickledDict":
                        fills.add(n.id)
                    if isinstance(c, ast.Call) and isinstance(c.func, ast.Attribute) and c.func.attr == "sync":
                        syncs.add(n.id)
                    if isinstance(c, ast.Call) and dotted(c.func) in ("cls", cname) and ((len(c.args) > 1 and isinstance(c.args[1], ast.Constant) and c.args[1].value == "c") or any(
                            k.arg == "mode" and isinstance(k.value, ast.Constant) and k.value.value == "c" for k in c.keywords)):
                        creates = True
                    if isinstance(c, ast.Call) and dotted(c.func) in ("cls.create", cname + ".create"):
                        creates = True
            if cname != "PickledDict":
                r3.require(bool(fills), fd, "DBMDict.from_dict copies entries", "DBMDict.from_dict no longer copies the entries into the shelf")
            r3.require(bool(fills) and bool(syncs) and all(not cfg.can_reach(f_, cfg.exit, avoid=syncs) for f_ in fills), fd, "%s.from_dict syncs after filling" % cname,
                       "%s.from_dict does not sync after filling" % cname)
            r3.require(creates, fd, "%s.from_dict creates" % cname, "%s.from_dict no longer creates a new file" % cname)
    # no lazy / copy-on-write aliasing state
    pdc = repo.cls(PD, "PickledDict")
    for f in pdc.methods.values():
        for s in ast.walk(f.node):
            if isinstance(s, ast.Assign) and isinstance(s.value, ast.Name) and f.name in ("from_dict", "__init__") and s.value.id in f.params[1:2] and \
                    isinstance(s.targets[0], ast.Attribute) and f.name == "from_dict":
                r3.fail_fn(f, s, "source dict kept by reference", "%s keeps a reference to the caller's dict: %s" % (f.qual, unparse(s)))

    # ---------------------------------------------------------------- R20.4 PickledDict life cycle
    sy = pdc.methods.get("sync")
    FL = "self.__file"
    DATA = ("attr", ("var", "self"), "__data")
    FILE = ("attr", ("var", "self"), "__file")

    def is_call(t, name, args=None):
        return t[0] == "call" and t[1] == ("fn", name) and (args is None or t[2] == args)
    ok_sync, seen_full = True, False
    shown = None
    for ps in summarize(sy):
        if ps.exc is not None:
            continue
        calls = [e[1] for e in ps.events if e[0] == "call"]
        flagged = any(k[0] == "truth" and k[1].startswith("self.") and not k[1].startswith(FL) for (k, t) in ps.facts)
        if not calls and flagged:
            continue   # a dirty-flag early exit (the mutators are checked below)
        shown = [S.show(c)[:50] for c in calls]
        names = [c[1][1] if c[0] == "call" and c[1][0] == "fn" else "?" for c in calls]
        try:
            i_dump = next(i for i, c in enumerate(calls) if is_call(c, "pickle.dump") and c[2] == (DATA, FILE))
        except StopIteration:
            ok_sync = False
            continue
        before, after = calls[:i_dump], calls[i_dump + 1:]
        rewound = any(is_call(c, FL + ".seek", (("const", 0),)) or is_call(c, FL + ".seek", (("const", 0), ("const", 0))) for c in before)
        emptied = any(is_call(c, FL + ".truncate", (("const", 0),)) for c in before) or (
            any(is_call(c, FL + ".truncate", ()) for c in before) and rewound and names.index(FL + ".seek") < names.index(FL + ".truncate"))
        flushed = any(is_call(c, FL + ".flush") for c in after)
        if rewound and emptied and flushed:
            seen_full = True
        else:
            ok_sync = False
    r4.require(ok_sync and seen_full, sy, "sync = truncate, rewind, dump the data attribute, flush",
               "PickledDict.sync does %s; every call must rewrite the file from the data attribute (a dirty-flag shortcut must be set by every mutator, including clear)" % shown)
    cl = pdc.methods.get("close")
    ccfg = cfg_of(cl.node)
    marks = {n.id for n in ccfg.nodes if n.kind == "stmt" and isinstance(n.stmt, ast.Assign) and any(unparse(t) == "self.__data" for t in n.stmt.targets) and (
        (isinstance(n.stmt.value, ast.Call) and dotted(n.stmt.value.func) == "_ClosedDict") or (isinstance(n.stmt.value, ast.Constant) and n.stmt.value.value is None))}
    r4.require(bool(marks) and not ccfg.can_reach(ccfg.entry, ccfg.exit, avoid=marks) and not ccfg.can_reach(ccfg.entry, ccfg.raise_exit, avoid=marks), cl,
               "close installs the marker on every path", "PickledDict.close does not install the closed marker on every path")
    ok_order, seen_sync, idem = True, False, True
    for ps in summarize(cl):
        calls = [e[1] for e in ps.events if e[0] == "call"]
        names = [c[1][1] if c[0] == "call" and c[1][0] == "fn" else "?" for c in calls]
        if FL + ".close" in names:
            if "self.sync" not in names or names.index("self.sync") > names.index(FL + ".close"):
                ok_order = False
            else:
                seen_sync = True
        if "self.sync" in names and not any(k == ("truth", FL + ".closed") and not t for (k, t) in ps.facts):
            idem = False
    r4.require(ok_order and seen_sync, cl, "close syncs before closing the file", "PickledDict.close no longer syncs before closing the file")
    r4.require(idem, cl, "close is idempotent", "PickledDict.close no longer tolerates an already closed file")
    init = pdc.methods.get("__init__")
    fp, mp = init.params[1], init.params[2]
    loaded = typed = False
    for ps in summarize(init):
        if ps.exc is not None:
            continue
        if ps.has(lambda k, t: k[0] == "==" and "'r'" in k[1:] and entry(mp) in k[1:] and t):
            fl = ps.store("__file")
            if fl is not None and fl[0] == "call" and fl[1] == ("fn", "open") and fl[2][:1] == (("var", fp),) and ("const", "rb+") in fl[2] + tuple(v for _k, v in fl[3]) and \
                    ps.store("__data") == ("call", ("fn", "pickle.load"), (fl,), ()):
                loaded = True
            if ps.has(lambda k, t: k[0] == "truth" and k[1].startswith("isinstance(self.__data, ") and ("Dict" in k[1] or "dict" in k[1]) and t):
                typed = True
    r4.require(loaded, init, "open loads with the inverse of sync", "PickledDict open mode no longer loads the pickled dict")
    r4.require(typed, init, "open type-checks", "PickledDict open mode no longer checks that the file holds a dict")
    for cname in ("PickledDict", "DBMDict"):
        f = repo.cls(PD, cname).methods.get("__init__")
        Ff = facts_of(f)
        fpath, fmode = f.params[1], f.params[2]
        exists = lambda truth: (lambda k, t: k == ("truth", "os.path.exists(%s)" % entry(fpath)) and t == truth)  # noqa: E731
        r4.require(bool(refusals(Ff, exists(True), ("FileExistsError",))), f, "%s create refuses an existing path" % cname, "%s create mode no longer raises FileExistsError for an existing path" % cname)
        # ... and for nothing less: the constructor completes in create mode only when the path did not exist (an extra condition on the
        # refusal - "exists and is not empty" - lets create truncate a file another handle already owns)
        from ..contract import exit_nodes
        is_mode = lambda m, truth: (lambda k, t: k[0] == "==" and ("'%s'" % m) in k[1:] and entry(fmode) in k[1:] and t == truth)  # noqa: E731
        bad_c = unpermitted(Ff, [n_ for n_ in exit_nodes(Ff) if Ff.cfg.nodes[n_].kind != "raise"], [exists(False), is_mode("c", False), is_mode("r", True)])
        bad_c = [(n_, alt) for (n_, alt) in bad_c if not any(is_mode("c", False)(k, t) for (k, t) in alt)]
        if bad_c:
            n_, alt = bad_c[0]
            r4.fail_fn(f, Ff.cfg.nodes[n_].stmt or f.node, "%s create completes over an existing path" % cname,
                       "%s create mode can complete although the path exists (reached under [%s]): the refusal of an existing path has an extra condition, so a file that "
                       "is already owned by another handle or holds data can be truncated" % (cname, describe_alt(alt)))
        else:
            r4.ok({"class": cname, "rule": "create completes only when the path did not exist"})
        r4.require(any(name and name.split(".")[-1] == "FileNotFoundError" for _n, name, _f in Ff.raises()), f, "%s open refuses a missing path" % cname,
                   "%s open mode no longer raises FileNotFoundError for a missing path" % cname)
        unknown = refusals(Ff, lambda k, t: k[0] == "==" and "'r'" in k[1:] and entry(fmode) in k[1:] and not t, ("TypeError",))
        unknown = [n for n in unknown if any(k[0] == "==" and "'c'" in k[1:] and not t for (k, t) in Ff.at(n.id))]
        if not unknown:
            # the same refusal as one membership test: mode not in ("r", "c")
            from ..contract import member as _member
            unknown = refusals(Ff, _member(entry(fmode), {"r", "c"}, False), ("TypeError",))
        r4.require(bool(unknown), f, "%s refuses unknown modes" % cname, "%s no longer refuses unknown modes" % cname)
        rl = repo.cls(PD, cname).methods.get("release")
        okr = False
        for ps in summarize(rl):
            names = [e[1][1][1] if e[0] == "call" and e[1][0] == "call" and e[1][1][0] == "fn" else None for e in ps.events]
            if "os.unlink" in names or "os.remove" in names:
                u = names.index("os.unlink") if "os.unlink" in names else names.index("os.remove")
                okr = "self.close" in names and names.index("self.close") < u and ps.events[u][1][2] == (("attr", ("var", "self"), "__file_path"),)
                if not okr:
                    break
        r4.require(okr, rl, "%s release closes before unlinking" % cname, "%s.release no longer closes before unlinking its own file" % cname)
        for mname, m in (("open", "r"), ("create", "c")):
            of = repo.cls(PD, cname).methods.get(mname)
            rets = [ps.ret for ps in summarize(of) if ps.exc is None]
            good = bool(rets)
            for rt in rets:
                a = None
                if rt is not None and rt[0] == "call" and rt[1] in (("fn", "cls"), ("fn", cname)):
                    a = dict(zip(("file_path", "mode"), rt[2]))
                    a.update(dict(rt[3]))
                if not (a and a.get("file_path") == ("var", of.params[1]) and a.get("mode") == ("const", m)):
                    good = False
            r4.require(good, of, "%s %s mode" % (cname, mname), "%s.%s no longer maps to mode %r" % (cname, mname, m))
    dc = repo.cls(PD, "DBMDict").methods.get("close")
    okdc = False
    for ps in summarize(dc):
        names = [e[1][1][1] if e[0] == "call" and e[1][0] == "call" and e[1][1][0] == "fn" else None for e in ps.events]
        stores = {e[1]: e[2] for e in ps.events if e[0] == "store" and isinstance(e[1], str)}
        if "self.__shelf.close" in names and stores.get("self.__closed") == ("const", True) and stores.get("self.__shelf") == ("call", ("fn", "_ClosedDict"), (), ()):
            okdc = True
    r4.require(okdc, dc, "DBMDict.close closes the shelf and installs the marker", "DBMDict.close no longer closes the shelf / installs the marker")
    # dirty-flag pattern: if sync is conditional, every mutator must set the flag
    for cname, attr in (("PickledDict", "__data"),):
        ci = repo.cls(PD, cname)
        syf = ci.methods.get("sync")
        conds = [s for s in ast.walk(syf.node) if isinstance(s, ast.If)]
        for cnd in conds:
            flags = {unparse(x) for x in ast.walk(cnd.test) if isinstance(x, ast.Attribute) and unparse(x).startswith("self.") and not unparse(x).startswith("self.__file")}
            if not flags:
                continue
            for mname in MUTATORS + ["from_dict"]:
                mf = ci.methods.get(mname)
                sets = {unparse(t).replace("pickled_dict.", "self.") for s in ast.walk(mf.node) if isinstance(s, ast.Assign) for t in s.targets}
                r4.require(bool(flags & sets), mf, "%s marks the dictionary dirty" % mname,
                           "PickledDict.sync is skipped unless %s; %s changes the contents without setting it, so the change is lost at close" % (sorted(flags), mname))

    # ---------------------------------------------------------------- R20.5 shelf
    sh = repo.cls(BS, "BytesShelf")
    si = sh.methods.get("__setitem__")
    kp, vp = si.params[1], si.params[2]
    oks, seen_wb = True, False
    for ps in summarize(si):
        if ps.exc is not None:
            continue
        st_ = [e for e in ps.events if e[0] == "store" and isinstance(e[1], tuple)]
        backend = [e for e in st_ if e[1][1] == "self.dict" and e[1][2] == ("var", kp)]
        cache = [e for e in st_ if e[1][1] == "self.cache" and e[1][2] == ("var", kp) and e[2] == ("var", vp)]
        dumped = any(e[0] == "call" and e[1][0] == "call" and ((e[1][1][0] == "method" and e[1][1][2] in ("dump", "dumps")) or (e[1][1] in (("fn", "pickle.dumps"), ("fn", "dumps")))) and
                     ("var", vp) in e[1][2] for e in ps.events)
        if not backend or not dumped:
            oks = False
        if ps.has(lambda k, t: k == ("truth", "self.writeback") and t):
            seen_wb = True
            if not cache:
                oks = False
    r5.require(oks and seen_wb, si, "set updates cache and backend", "BytesShelf.__setitem__ no longer updates both cache and backend")
    di = sh.methods.get("__delitem__")
    dk = di.params[1]
    okd = False
    for ps in summarize(di):
        dels = [e[1] for e in ps.events if e[0] == "del"]
        pops = [e[1] for e in ps.events if e[0] == "call" and e[1][0] == "call" and e[1][1] in (("fn", "self.cache.pop"), ("fn", "self.dict.pop"))]
        b = ("sub", "self.dict", ("var", dk)) in dels or any(c[1] == ("fn", "self.dict.pop") and c[2][:1] == (("var", dk),) for c in pops)
        c_ = ("sub", "self.cache", ("var", dk)) in dels or any(c[1] == ("fn", "self.cache.pop") and c[2][:1] == (("var", dk),) for c in pops)
        if ps.exc is None:
            okd = b and c_
            if not okd:
                break
    r5.require(okd, di, "delete removes from cache and backend", "BytesShelf.__delitem__ no longer removes the key from both cache and backend")
    sy2 = sh.methods.get("sync")
    okf = False
    for ps in summarize(sy2, unroll=1):
        if ps.exc is not None:
            continue
        seq = []
        for e in ps.events:
            if e[0] == "store" and e[1] == "self.writeback":
                seq.append("wb=%s" % (e[2][1] if e[2][0] == "const" else "?"))
            elif e[0] == "store" and isinstance(e[1], tuple) and e[1][1] == "self" and e[1][2][0] == "proj" and e[2][0] == "proj" and e[1][2][1] == e[2][1] and \
                    e[1][2][1] == ("elem", ("call", ("fn", "self.cache.items"), (), ())):
                seq.append("flush")
            elif e[0] == "store" and e[1] == "self.cache" and e[2] in (("dict", ()), ("call", ("fn", "dict"), (), ())):
                seq.append("clear")
            elif e[0] == "call" and e[1][0] == "call" and e[1][1] == ("fn", "self.cache.clear"):
                seq.append("clear")
        if "flush" in seq:
            okf = seq.index("wb=False") < seq.index("flush") if "wb=False" in seq else False
            okf = okf and "wb=True" in seq and seq.index("flush") < seq.index("wb=True") and "clear" in seq and seq.index("flush") < seq.index("clear")
            if not okf:
                break
    r5.require(okf, sy2, "sync flushes the cache with write-back disabled, then clears it", "BytesShelf.sync no longer flushes the cache with write-back disabled and clears it afterwards")
    gi = sh.methods.get("__getitem__")
    gk = ("var", gi.params[1])
    rets = [ps.ret for ps in summarize(gi, follow_exc=True) if ps.exc is None and ps.ret is not None]
    from_cache = any(rt == ("sub", ("attr", ("var", "self"), "cache"), gk) for rt in rets)
    from_back = any(S.mentions(rt, "self") and _has(rt, ("sub", ("attr", ("var", "self"), "dict"), gk)) for rt in rets)
    r5.require(from_cache and from_back, gi, "get prefers the cache, falls back to the backend", "BytesShelf.__getitem__ no longer reads cache first, backend second")
    ge = sh.methods.get("get")
    okg = True
    seen = set()
    for ps in summarize(ge):
        if ps.exc is not None:
            continue
        inb = [t for (k, t) in ps.facts if k[0] == "in" and k[1] == entry(ge.params[1]) and k[2] == "self.dict"]
        if not inb:
            okg = False
        elif inb[0]:
            seen.add(True)
            okg = okg and ps.ret == ("sub", ("var", "self"), ("var", ge.params[1]))
        else:
            seen.add(False)
            okg = okg and ps.ret == ("var", ge.params[2])
    r5.require(okg and seen == {True, False}, ge, "get tests membership on the backend", "BytesShelf.get no longer tests membership on the backend")
    for nm in ("__iter__", "__len__", "__contains__"):
        f = sh.methods.get(nm)
        r5.require(f is not None and any(isinstance(x, ast.Attribute) and unparse(x) == "self.dict" for x in ast.walk(f.node)), f or si, "%s reads the backend" % nm, "BytesShelf.%s no longer reads the backend" % nm)
    # a shelf-level clear / pop shortcut must keep cache and backend together
    for nm in ("clear", "pop", "popitem", "update", "setdefault"):
        f = sh.methods.get(nm)
        if f is not None:
            attrs = {unparse(x) for x in ast.walk(f.node) if isinstance(x, ast.Attribute)}
            r5.require("self.cache" in attrs and "self.dict" in attrs, f, "shelf %s touches cache and backend" % nm,
                       "BytesShelf.%s is overridden but does not treat cache and backend together: stale cache entries survive and are written back at sync" % nm)
    cs = sh.methods.get("close")
    scfg = cfg_of(cs.node)
    smarks = {n.id for n in scfg.nodes if n.kind == "stmt" and isinstance(n.stmt, ast.Assign) and any(unparse(t) == "self.dict" for t in n.stmt.targets) and (
        (isinstance(n.stmt.value, ast.Call) and dotted(n.stmt.value.func) == "_ClosedDict") or (isinstance(n.stmt.value, ast.Constant) and n.stmt.value.value is None))}
    synced = any(any(e[0] == "call" and e[1][0] == "call" and e[1][1] == ("fn", "self.sync") for e in ps.events) for ps in summarize(cs))
    already = lambda n: False  # noqa: E731
    # the only way out without the marker is the early return for an already released shelf (self.dict is None)
    Fc = facts_of(cs)
    unmarked_ok = True
    from ..facts import atom_facts as _atom_facts
    for (a_, _lab) in scfg.pred[scfg.exit]:
        if a_ in smarks:
            continue
        if a_ == scfg.entry or scfg.can_reach(scfg.entry, a_, avoid=smarks):
            alts = Fc.alts(a_) or []
            if scfg.nodes[a_].kind == "test" and isinstance(_lab, bool):
                # leaving straight from a test: what the taken outcome says counts too (`if self.dict is not None: ...` falling through)
                extra = set(_atom_facts(cs, scfg.nodes[a_].ast, _lab, ()))
                alts = [frozenset(set(alt) | extra) for alt in alts]
            if not alts or not all(any(k[0] == "is" and "None" in k[1:] and "self.dict" in k[1:] and t for (k, t) in alt) for alt in alts):
                unmarked_ok = False
    r5.require(synced and bool(smarks) and unmarked_ok, cs, "shelf close syncs and installs its marker", "BytesShelf.close no longer syncs / installs the closed marker")
    return rules


def _has(t, sub):
    if t == sub:
        return True
    return isinstance(t, tuple) and any(_has(x, sub) for x in t if isinstance(x, tuple))


def _fresh_copy(v, src_param):
    if isinstance(v, ast.Call):
        d = dotted(v.func) or ""
        if d in ("dict", "copy.copy", "copy.deepcopy") and v.args and unparse(v.args[0]).startswith(src_param):
            return True
        if isinstance(v.func, ast.Attribute) and v.func.attr == "copy" and unparse(v.func.value) == src_param:
            return True
    if isinstance(v, ast.DictComp):
        return True
    if isinstance(v, ast.Dict) and not v.keys:
        return True
    if isinstance(v, ast.Dict) and all(k is None for k in v.keys):
        return True
    return False


# ----------------------------------------------------------------------------- self-test variants
from ..selftest import V  # noqa: E402

VARIANTS = [
    V("clear-rebinds", "fire", "R20.1", [(PD, "PickledDict.clear", "        self.__data.clear()", "        self.__data = {}")]),
    V("from-dict-aliases", "fire", "R20.3", [(PD, "PickledDict.from_dict", "pickled_dict.__data = dict(dict_)  # Be Careful, Copy!", "pickled_dict.__data = dict_")]),
    V("store-before-type-check", "fire", "R20.2", [(PD, "PickledDict.__setitem__",
      "        if not isinstance(value, typing.ByteString):\n            raise TypeError(\n                \"The content should be a byte string.\"\n            )\n\n        self.__data[key] = value",
      "        self.__data[key] = value\n        if not isinstance(value, typing.ByteString):\n            raise TypeError(\n                \"The content should be a byte string.\"\n            )")]),
    V("close-without-sync", "fire", "R20.4", [(PD, "PickledDict.close", "                self.sync()\n", "")]),
    V("sync-dumps-empty", "fire", "R20.4", [(PD, "PickledDict.sync", "pickle.dump(self.__data, self.__file)", "pickle.dump({}, self.__file)")]),
    V("marker-not-in-finally", "fire", "R20.4", [(PD, "PickledDict.close",
      "        finally:\n            try:\n                self.__data = _ClosedDict()\n            except:\n                self.__data = None", "        self.__data = _ClosedDict()")]),
    V("create-overwrites", "fire", "R20.4", [(PD, "PickledDict.__init__", "            if os.path.exists(file_path):\n                raise FileExistsError(f\"The file {file_path} exists.\")\n", "")]),
    V("shelf-delete-keeps-cache", "fire", "R20.5", [(BS, "BytesShelf.__delitem__", "        try:\n            del self.cache[key]\n        except KeyError:\n            pass\n", "")]),
    V("shelf-fast-clear", "fire", "R20.5", [(BS, "BytesShelf.close", "    def close(self):", "    def clear(self):\n        for k in list(self.dict.keys()):\n            del self.dict[k]\n\n    def close(self):")]),
    V("len-cached", "fire", "R20.1", [(PD, "PickledDict.__len__", "        return len(self.__data)", "        return self._n")]),
    V("benign-copy-method", "silent", None, [(PD, "PickledDict.from_dict", "pickled_dict.__data = dict(dict_)  # Be Careful, Copy!", "pickled_dict.__data = dict(dict_.items())")]),
]
