"""C20 - persistent byte dictionaries behave like a dict and survive close/reopen.

Decides the structural conditions for dict-equivalence and for "closed means closed": every
operation goes through the guarded object, refusals precede effects, from_dict does not alias its
source, the life cycle (sync / close / open / create / release) is ordered and complete, and the
write-back shelf keeps cache and backend coherent.  See DESIGN.md section 3, C20.
"""
import ast

from ..core import Rule
from ..model import AnalysisError, dotted, unparse, short, ancestors
from ..cfg import cfg_of, calls_in_order
from .c08 import raising_ifs

EXPLANATION = ("For PickledDict and DBMDict each content-reading or content-changing public method must *use* the guarded "
               "attribute (call / subscript / iterate / len / in) so that the closed marker can raise - a method that only rebinds "
               "the attribute bypasses the marker; the marker must bind the operations those uses reach; the bytes-only type check "
               "must dominate the store; from_dict must bind a fresh container or copy entries; sync must truncate, rewind, dump "
               "*the data attribute* and flush, and every content-changing method must leave sync able to see the change (no "
               "dirty-flag shortcut that misses a mutator); close = sync, file close, marker in a finally; create refuses an "
               "existing path, open a missing one, with the right exception classes; release closes before unlinking; the shelf "
               "updates / removes cache and backend together and flushes the cache with write-back disabled.")
ASSUMPTIONS = ["equivalence with the dict model over operation histories is not decided; the dbm backend is trusted"]

PD = "data_persistence/persistent_dict.py"
BS = "data_persistence/bytes_shelf.py"
OPS = ["__iter__", "__len__", "get", "__contains__", "__getitem__", "__setitem__", "__delitem__", "clear"]
MUTATORS = ["__setitem__", "__delitem__", "clear"]


def _uses_of(fi, attr):
    """How the method touches self.<attr>: list of kinds ('call:<m>', 'sub', 'iter', 'len', 'in', 'rebind', 'del')"""
    kinds = []
    for n in ast.walk(fi.node):
        if isinstance(n, ast.Attribute) and unparse(n) == "self." + attr:
            p = getattr(n, "_parent", None)
            if isinstance(p, ast.Attribute) and isinstance(getattr(p, "_parent", None), ast.Call) and getattr(p, "_parent").func is p:
                kinds.append("call:" + p.attr)
            elif isinstance(p, ast.Subscript) and p.value is n:
                kinds.append({ast.Load: "sub", ast.Store: "substore", ast.Del: "subdel"}[type(p.ctx)])
            elif isinstance(p, ast.Call) and dotted(p.func) in ("iter", "len", "list", "sorted", "dict") and n in p.args:
                kinds.append(dotted(p.func))
            elif isinstance(p, ast.Compare) and n in p.comparators and isinstance(p.ops[0], (ast.In, ast.NotIn)):
                kinds.append("in")
            elif isinstance(p, (ast.For, ast.comprehension)) and p.iter is n:
                kinds.append("iter")
            elif isinstance(n.ctx, ast.Store):
                kinds.append("rebind")
            elif isinstance(p, ast.Call) and n in p.args:
                kinds.append("arg:" + (dotted(p.func) or "?"))
            else:
                kinds.append("read")
    return kinds


def check(repo):
    r1 = Rule("R20.1", "every operation goes through the guarded object; the marker covers what it reaches")
    r2 = Rule("R20.2", "refuse before effect: bytes-only values")
    r3 = Rule("R20.3", "from_dict does not alias the source dict")
    r4 = Rule("R20.4", "life cycle: sync / close / open / create / release")
    r5 = Rule("R20.5", "shelf write-back coherence")
    rules = [r1, r2, r3, r4, r5]
    marker = repo.cls(PD, "_ClosedDict")
    bound = {nm for nm, v in marker.attrs.items() if isinstance(v, ast.Name) and v.id == "closed"}
    cf = marker.methods.get("closed")
    r1.require(cf is not None and any(isinstance(x, ast.Raise) and isinstance(x.exc, ast.Call) and dotted(x.exc.func) == "ValueError" for x in cf.node.body), cf or list(marker.methods.values())[0],
               "marker raises ValueError", "_ClosedDict.closed no longer raises ValueError")
    need = {"__iter__", "__len__", "__getitem__", "__setitem__", "__delitem__"}
    r1.require(need <= bound, cf or list(marker.methods.values())[0], "marker binds the primitive mapping operations", "_ClosedDict binds %s; the MutableMapping mixins (get, in, clear, update, keys) reach %s" % (sorted(bound), sorted(need)))
    r1.require("MutableMapping" in " ".join(marker.bases), cf or list(marker.methods.values())[0], "marker is a MutableMapping", "_ClosedDict no longer derives from MutableMapping (mixin methods would be missing)")
    # a marker must not define quiet overrides of the mixins
    for nm, f in marker.methods.items():
        if nm not in ("closed", "__repr__"):
            r1.fail_fn(f, f.node, "marker overrides %s" % nm, "_ClosedDict.%s is defined separately: it must be the raising function" % nm)

    for cname, attr in (("PickledDict", "__data"), ("DBMDict", "__shelf")):
        ci = repo.cls(PD, cname)
        for op in OPS:
            f = ci.methods.get(op)
            if f is None:
                r1.fail(PD, cname, ci.node.lineno, "%s missing" % op, "%s.%s vanished" % (cname, op))
                continue
            kinds = _uses_of(f, attr)
            uses = [k for k in kinds if k != "rebind"]
            desc = {"class": cname, "method": op, "uses": kinds}
            if not uses:
                r1.fail_fn(f, f.node, "%s bypasses the guarded object" % op,
                           "%s.%s %s self.%s without using it: on a closed dictionary the closed marker cannot raise (the call silently succeeds and, for a rebinding, "
                           "revives the dictionary)" % (cname, op, "only rebinds" if "rebind" in kinds else "never touches", attr), witness=desc)
            elif "rebind" in kinds:
                r1.fail_fn(f, f.node, "%s rebinds the guarded object" % op, "%s.%s rebinds self.%s (replacing the closed marker)" % (cname, op, attr), witness=desc)
            else:
                r1.ok(desc)
        # ------------------------------------------------------------ R20.2
        st = ci.methods.get("__setitem__")
        if st is not None:
            g = [s for s, exc in raising_ifs(st) if exc == "TypeError" and "isinstance(%s, typing.ByteString)" % st.params[2] in unparse(s.test) and unparse(s.test).startswith("not ")]
            if r2.require(bool(g), st, "%s refuses non-bytes" % cname, "%s.__setitem__ no longer refuses a non-bytes value with TypeError" % cname):
                cfg = cfg_of(st.node)
                stores = [n.id for n in cfg.nodes if n.kind == "stmt" and isinstance(n.stmt, ast.Assign) and any(isinstance(t, ast.Subscript) for t in n.stmt.targets)]
                r2.require(bool(stores) and all(cfg.dominates(cfg.nodes_of(g[0])[0], s) for s in stores), st, "%s type check precedes the store" % cname, "%s.__setitem__ stores before checking the type" % cname)
                r2.require(all(unparse(cfg.nodes[s].stmt) == "self.%s[%s] = %s" % (attr, st.params[1], st.params[2]) for s in stores), st, "%s stores key -> value" % cname,
                           "%s.__setitem__ stores %s" % (cname, [unparse(cfg.nodes[s].stmt) for s in stores]))
        # ------------------------------------------------------------ R20.3
        fd = ci.methods.get("from_dict")
        if fd is not None:
            src = unparse(fd.node)
            src_param = fd.params[1]
            if cname == "PickledDict":
                asg = [s for s in ast.walk(fd.node) if isinstance(s, ast.Assign) and unparse(s.targets[0]).endswith("__data")]
                ok = bool(asg) and all(_fresh_copy(a.value, src_param) for a in asg)
                r3.require(ok, fd, "PickledDict.from_dict copies", "PickledDict.from_dict binds %s: later changes of the caller's dict show through (or the dict is shared)" % ([unparse(a.value) for a in asg]))
            else:
                r3.require(".update(%s)" % src_param in src, fd, "DBMDict.from_dict copies entries", "DBMDict.from_dict no longer copies the entries into the shelf")
            cfg = cfg_of(fd.node)
            r3.require(".sync()" in src and src.index(".sync()") > (src.index("__data =") if "__data =" in src else src.index(".update(")), fd, "%s.from_dict syncs after filling" % cname,
                       "%s.from_dict does not sync after filling" % cname)
            r3.require("mode='c'" in src, fd, "%s.from_dict creates" % cname, "%s.from_dict no longer creates a new file" % cname)
    # no lazy / copy-on-write aliasing state
    pdc = repo.cls(PD, "PickledDict")
    for f in pdc.methods.values():
        for s in ast.walk(f.node):
            if isinstance(s, ast.Assign) and isinstance(s.value, ast.Name) and f.name in ("from_dict", "__init__") and s.value.id in f.params[1:2] and \
                    isinstance(s.targets[0], ast.Attribute) and f.name == "from_dict":
                r3.fail_fn(f, s, "source dict kept by reference", "%s keeps a reference to the caller's dict: %s" % (f.qual, unparse(s)))

    # ---------------------------------------------------------------- R20.4 PickledDict life cycle
    sy = pdc.methods.get("sync")
    core_body = [s for s in sy.node.body if not (isinstance(s, ast.If) and all(isinstance(x, ast.Return) for x in s.body) and not s.orelse)]
    steps = [unparse(s) for s in core_body if not (isinstance(s, ast.Assign) and isinstance(s.value, ast.Constant) and isinstance(s.value.value, bool))]
    want = ["self.__file.truncate(0)", "self.__file.seek(0)", "pickle.dump(self.__data, self.__file)", "self.__file.flush()"]
    r4.require(steps == want, sy, "sync = truncate, rewind, dump the data attribute, flush",
               "PickledDict.sync does %s; every call must rewrite the file from the data attribute (a dirty-flag shortcut must be set by every mutator, including clear)" % steps)
    cl = pdc.methods.get("close")
    tr = next((s for s in cl.node.body if isinstance(s, ast.Try)), None)
    ok = tr is not None and tr.finalbody and "self.__data = _ClosedDict()" in unparse(ast.Module(body=tr.finalbody, type_ignores=[]))
    r4.require(ok, cl, "close installs the marker in a finally", "PickledDict.close does not install the closed marker on every path")
    if tr is not None:
        body = unparse(ast.Module(body=tr.body, type_ignores=[]))
        r4.require("self.sync()" in body and "self.__file.close()" in body and body.index("self.sync()") < body.index("self.__file.close()"), cl, "close syncs before closing the file",
                   "PickledDict.close no longer syncs before closing the file")
        r4.require("if not self.__file.closed" in body, cl, "close is idempotent", "PickledDict.close no longer tolerates an already closed file")
    init = pdc.methods.get("__init__")
    src = unparse(init.node)
    r4.require("self.__data = pickle.load(self.__file)" in src and "open(file_path, 'rb+')" in src, init, "open loads with the inverse of sync", "PickledDict open mode no longer loads the pickled dict")
    r4.require("isinstance(self.__data, typing.Dict)" in src, init, "open type-checks", "PickledDict open mode no longer checks that the file holds a dict")
    for cname in ("PickledDict", "DBMDict"):
        f = repo.cls(PD, cname).methods.get("__init__")
        s = unparse(f.node)
        r4.require("raise FileExistsError" in s and "os.path.exists(file_path)" in s, f, "%s create refuses an existing path" % cname, "%s create mode no longer raises FileExistsError for an existing path" % cname)
        r4.require("raise FileNotFoundError" in s, f, "%s open refuses a missing path" % cname, "%s open mode no longer raises FileNotFoundError for a missing path" % cname)
        r4.require("raise TypeError(f'Unexpected Mode: {mode}')" in s, f, "%s refuses unknown modes" % cname, "%s no longer refuses unknown modes" % cname)
        rl = repo.cls(PD, cname).methods.get("release")
        sr = unparse(rl.node)
        r4.require("self.close()" in sr and "os.unlink(self.__file_path)" in sr and sr.index("self.close()") < sr.index("os.unlink"), rl, "%s release closes before unlinking" % cname,
                   "%s.release no longer closes before unlinking" % cname)
        op = repo.cls(PD, cname).methods.get("open")
        cr = repo.cls(PD, cname).methods.get("create")
        r4.require("cls(local_path, 'r')" in unparse(op.node) and "cls(local_path, 'c')" in unparse(cr.node), op, "%s open/create modes" % cname, "%s.open/create no longer map to modes r / c" % cname)
    dc = repo.cls(PD, "DBMDict").methods.get("close")
    sdc = unparse(dc.node)
    r4.require("self.__shelf.close()" in sdc and "self.__shelf = _ClosedDict()" in sdc and "self.__closed = True" in sdc, dc, "DBMDict.close closes the shelf and installs the marker",
               "DBMDict.close no longer closes the shelf / installs the marker")
    # dirty-flag pattern: if sync is conditional, every mutator must set the flag
    for cname, attr in (("PickledDict", "__data"),):
        ci = repo.cls(PD, cname)
        syf = ci.methods.get("sync")
        conds = [s for s in ast.walk(syf.node) if isinstance(s, ast.If)]
        for cnd in conds:
            flags = {unparse(x) for x in ast.walk(cnd.test) if isinstance(x, ast.Attribute) and unparse(x).startswith("self.") and not unparse(x).startswith("self.__file")}
            if not flags:
                continue
            for mname in MUTATORS + ["from_dict"]:
                mf = ci.methods.get(mname)
                sets = {unparse(t).replace("pickled_dict.", "self.") for s in ast.walk(mf.node) if isinstance(s, ast.Assign) for t in s.targets}
                r4.require(bool(flags & sets), mf, "%s marks the dictionary dirty" % mname,
                           "PickledDict.sync is skipped unless %s; %s changes the contents without setting it, so the change is lost at close" % (sorted(flags), mname))

    # ---------------------------------------------------------------- R20.5 shelf
    sh = repo.cls(BS, "BytesShelf")
    si = sh.methods.get("__setitem__")
    ssrc = unparse(si.node)
    r5.require("self.cache[key] = value" in ssrc and "self.dict[key] = f.getvalue()" in ssrc and "p.dump(value)" in ssrc, si, "set updates cache and backend", "BytesShelf.__setitem__ no longer updates both cache and backend")
    di = sh.methods.get("__delitem__")
    dsrc = unparse(di.node)
    r5.require("del self.dict[key]" in dsrc and "del self.cache[key]" in dsrc, di, "delete removes from cache and backend", "BytesShelf.__delitem__ no longer removes the key from both cache and backend")
    sy2 = sh.methods.get("sync")
    ysrc = unparse(sy2.node)
    ok = "self.writeback = False" in ysrc and "for (key, entry) in self.cache.items()" in ysrc.replace("for key, entry in", "for (key, entry) in") and "self[key] = entry" in ysrc and \
        "self.writeback = True" in ysrc and "self.cache = {}" in ysrc and ysrc.index("self.writeback = False") < ysrc.index("self[key] = entry") < ysrc.index("self.writeback = True") < ysrc.index("self.cache = {}")
    r5.require(ok, sy2, "sync flushes the cache with write-back disabled, then clears it", "BytesShelf.sync no longer flushes the cache with write-back disabled and clears it afterwards")
    gi = sh.methods.get("__getitem__")
    gsrc = unparse(gi.node)
    r5.require("value = self.cache[key]" in gsrc and "except KeyError" in gsrc and "BytesIO(self.dict[key])" in gsrc, gi, "get prefers the cache, falls back to the backend", "BytesShelf.__getitem__ no longer reads cache first, backend second")
    ge = sh.methods.get("get")
    r5.require("if key in self.dict" in unparse(ge.node) and "return self[key]" in unparse(ge.node), ge, "get tests membership on the backend", "BytesShelf.get no longer tests membership on the backend")
    for nm in ("__iter__", "__len__", "__contains__"):
        f = sh.methods.get(nm)
        r5.require(f is not None and "self.dict" in unparse(f.node), f or si, "%s reads the backend" % nm, "BytesShelf.%s no longer reads the backend" % nm)
    # a shelf-level clear / pop shortcut must keep cache and backend together
    for nm in ("clear", "pop", "popitem", "update", "setdefault"):
        f = sh.methods.get(nm)
        if f is not None:
            s = unparse(f.node)
            r5.require("self.cache" in s and "self.dict" in s, f, "shelf %s touches cache and backend" % nm,
                       "BytesShelf.%s is overridden but does not treat cache and backend together: stale cache entries survive and are written back at sync" % nm)
    cs = sh.methods.get("close")
    csrc = unparse(cs.node)
    r5.require("self.sync()" in csrc and "self.dict = _ClosedDict()" in csrc, cs, "shelf close syncs and installs its marker", "BytesShelf.close no longer syncs / installs the closed marker")
    return rules


def _fresh_copy(v, src_param):
    if isinstance(v, ast.Call):
        d = dotted(v.func) or ""
        if d in ("dict", "copy.copy", "copy.deepcopy") and v.args and unparse(v.args[0]).startswith(src_param):
            return True
        if isinstance(v.func, ast.Attribute) and v.func.attr == "copy" and unparse(v.func.value) == src_param:
            return True
    if isinstance(v, ast.DictComp):
        return True
    if isinstance(v, ast.Dict) and not v.keys:
        return True
    if isinstance(v, ast.Dict) and all(k is None for k in v.keys):
        return True
    return False


# ----------------------------------------------------------------------------- self-test variants
from ..selftest import V  # noqa: E402

VARIANTS = [
    V("clear-rebinds", "fire", "R20.1", [(PD, "PickledDict.clear", "        self.__data.clear()", "        self.__data = {}")]),
    V("from-dict-aliases", "fire", "R20.3", [(PD, "PickledDict.from_dict", "pickled_dict.__data = dict(dict_)  # Be Careful, Copy!", "pickled_dict.__data = dict_")]),
    V("store-before-type-check", "fire", "R20.2", [(PD, "PickledDict.__setitem__",
      "        if not isinstance(value, typing.ByteString):\n            raise TypeError(\n                \"The content should be a byte string.\"\n            )\n\n        self.__data[key] = value",
      "        self.__data[key] = value\n        if not isinstance(value, typing.ByteString):\n            raise TypeError(\n                \"The content should be a byte string.\"\n            )")]),
    V("close-without-sync", "fire", "R20.4", [(PD, "PickledDict.close", "                self.sync()\n", "")]),
    V("sync-dumps-empty", "fire", "R20.4", [(PD, "PickledDict.sync", "pickle.dump(self.__data, self.__file)", "pickle.dump({}, self.__file)")]),
    V("marker-not-in-finally", "fire", "R20.4", [(PD, "PickledDict.close",
      "        finally:\n            try:\n                self.__data = _ClosedDict()\n            except:\n                self.__data = None", "        self.__data = _ClosedDict()")]),
    V("create-overwrites", "fire", "R20.4", [(PD, "PickledDict.__init__", "            if os.path.exists(file_path):\n                raise FileExistsError(f\"The file {file_path} exists.\")\n", "")]),
    V("shelf-delete-keeps-cache", "fire", "R20.5", [(BS, "BytesShelf.__delitem__", "        try:\n            del self.cache[key]\n        except KeyError:\n            pass\n", "")]),
    V("shelf-fast-clear", "fire", "R20.5", [(BS, "BytesShelf.close", "    def close(self):", "    def clear(self):\n        for k in list(self.dict.keys()):\n            del self.dict[k]\n\n    def close(self):")]),
    V("len-cached", "fire", "R20.1", [(PD, "PickledDict.__len__", "        return len(self.__data)", "        return self._n")]),
    V("benign-copy-method", "silent", None, [(PD, "PickledDict.from_dict", "pickled_dict.__data = dict(dict_)  # Be Careful, Copy!", "pickled_dict.__data = dict(dict_.items())")]),
]
