"""C01 - search returns exactly the posting list of every stored keyword.

Round-trip equality over all databases is value-level and is not decided.  Decided are the
agreements between the writer (_Enc) and the reader (_Trap o _Search) of each scheme that every
counter-example found so far violates: the label / key derivation terms agree, the block formats
agree, Pi2Lev's case split is total and contiguous, and level tables / fixed-width encodings /
divisors have the capacity their indices need.  See DESIGN.md section 3, C01.
"""
import ast

from ..core import Rule
from ..model import AnalysisError, dotted, unparse, short, ancestors, itext
from ..cfg import cfg_of
from ..terms import fn_terms, walk, show
from ..schemes import discover, flatten, is_urandom, is_builder
from ..symlen import Lengths, Poly
from . import c02

EXPLANATION = ("Writer/reader agreement by use-def term reconstruction: for every container of the encrypted database the "
               "label terms written by _Enc and the label terms looked up by _Search (token fields replaced by what _Trap puts "
               "into them) are normalised to their derivation spine (primitive, key root, domain-separation constants, counter "
               "start/step, encodings and widths) and must coincide; decrypt keys must coincide with encrypt keys; XOR masks "
               "must coincide; SSE-1's stored next-pointer must be the address of the next counter value.  Block geometry "
               "(partition vs parse), Pi2Lev's threshold chain and reserved slots, the number of level tables, the width of the "
               "encrypted list size and DP17's level divisor are compared symbolically.  Value equality of results is NOT decided.")
ASSUMPTIONS = ["the primitives are deterministic and collision-free (C14-C16)",
               "DP17's random bucket choice always finds a bucket with room (probabilistic packing argument, not examined)"]


# ----------------------------------------------------------------------------- normalisation to a spine
class Norm:
    def __init__(self, L, key_param, kw_test, subst=None):
        self.L, self.key_param, self.kw_test, self.subst = L, key_param, kw_test, subst or {}
        self.depth = 0

    def n(self, t, depth=0):
        if not isinstance(t, tuple) or not t or depth > 40:
            return ("?",)
        N = lambda x: self.n(x, depth + 1)  # noqa: E731
        tag = t[0]
        if self.kw_test(t):
            return ("KW",)
        if tag == "attr" and t[1][0] == "param":
            if t[1][1] == self.key_param:
                return ("MK", t[2])
            if (t[1][1], t[2]) in self.subst:
                return self.subst[(t[1][1], t[2])]
            return ("ATTR", t[1][1], t[2])
        if tag == "const":
            return ("C", t[1])
        if tag == "cfg":
            return ("V", self.L.value(t).canon())
        if tag == "counter":
            return ("CTR", t[1], t[2])
        if tag == "rangevar":
            a = t[1]
            if len(a) == 2 and a[0][0] == "const" and isinstance(a[0][1], int):
                return ("CTR", a[0][1], 1)
            if len(a) == 1:
                return ("LEVEL",)
            return ("LEVEL",)
        if tag == "prim":
            args = t[3]
            if t[2] in ("Encrypt", "Decrypt"):
                return ("P", t[1], "ske", N(args[0]) if args else None)
            return ("P", t[1], t[2]) + tuple(N(a) for a in args)
        if tag == "call":
            name = t[1].split("::")[-1]
            if name == "int_to_bytes":
                w = t[2][1] if len(t[2]) > 1 else dict(t[3]).get("output_len")
                return ("I2B", N(t[2][0]), self.L.value(w).canon() if w is not None else None)
            if name in ("bytes", "int", "int_from_bytes"):
                return N(t[2][0]) if t[2] else ("?",)
            if name == "Bitset.__init__":
                ln = dict(t[3]).get("length") or (t[2][1] if len(t[2]) > 1 else None)
                return ("BITS", N(t[2][0]), self.L.value(ln).canon() if ln is not None else None)
            if name == "add_leading_zeros":
                return ("LZ", N(t[2][0]), self.L.value(t[2][1]).canon())
            if name == "bytes_xor":
                return ("XOR",) + tuple(sorted((N(a) for a in t[2]), key=repr))
            return ("F", name) + tuple(N(a) for a in t[2])
        if tag == "binop":
            if t[1] == "Add":
                return ("CAT", N(t[2]), N(t[3]))
            return ("OP", t[1], N(t[2]), N(t[3]))
        if tag == "slice":
            lo = self.L.value(t[2]).canon() if t[2] is not None else None
            hi = self.L.value(t[3]).canon() if t[3] is not None else None
            return ("SL", N(t[1]), lo, hi)
        if tag == "piece":
            lens = t[3]
            ls = tuple(self.L.value(x).canon() for x in lens[1]) if lens[0] in ("list", "tuple") else ("?",)
            return ("PIECE", N(t[1]), t[2], ls)
        if tag == "cont":
            return N(t[2])
        if tag in ("list", "tuple") and len(t[1]) == 1:
            return N(t[1][0])
        if tag == "elem":
            inner = t[1]
            if inner[0] in ("list", "tuple") and len(inner[1]) == 1:
                return N(inner[1][0])
            return ("ELEM", N(inner))
        if tag == "phi":
            return ("PHI", tuple(sorted({N(x) for x in t[1]}, key=repr)))
        if tag == "mcall":
            return ("M", t[2], N(t[1])) + tuple(N(a) for a in t[3])
        if tag == "sub":
            return ("SUB", N(t[1]), N(t[2]))
        if tag == "proj":
            return ("PROJ", N(t[1]), t[2])
        if tag == "comp":
            return ("COMP", N(t[2]))
        return (tag.upper(),)


def _counter_holes(t):
    """[(skeleton, leaf)] - the normal form with one integer-constant / counter leaf replaced by a hole, for every such leaf."""
    out = []

    def rec(x, path):
        if isinstance(x, tuple) and x:
            if (x[0] == "C" and len(x) == 2 and isinstance(x[1], int) and not isinstance(x[1], bool)) or x[0] == "CTR":
                out.append((path, x))
                return
            for i, y in enumerate(x):
                rec(y, path + (i,))
    rec(t, ())

    def put(x, path):
        if not path:
            return ("HOLE",)
        return tuple(put(y, path[1:]) if i == path[0] else y for i, y in enumerate(x))
    return [(put(t, p), leaf) for p, leaf in out]


def counter_cover(reader_labels, writer_labels):
    """Reader labels that are justified because, together, they walk the writer's counter from its first value on:
    writer CTR(s, st) is covered by reader constants s, s+st, .. followed by a reader CTR(s', st) (a rotated loop looks the
    first entry up before the loop and the others inside it)."""
    ok = set()
    for w in writer_labels:
        for wsk, wleaf in _counter_holes(w):
            if wleaf[0] != "CTR":
                continue
            _t, s, st = wleaf
            if not isinstance(s, int) or not isinstance(st, int) or st == 0:
                continue
            group = [(r, leaf) for r in reader_labels for rsk, leaf in _counter_holes(r) if rsk == wsk]
            consts = {leaf[1] for _r, leaf in group if leaf[0] == "C"}
            for _r, leaf in group:
                if leaf[0] == "CTR" and leaf[2] == st and isinstance(leaf[1], int) and (leaf[1] - s) % st == 0 and leaf[1] >= s:
                    need = set(range(s, leaf[1], st))
                    if need <= consts:
                        for r2, l2 in group:
                            if (l2[0] == "C" and l2[1] in need) or l2 == leaf:
                                ok.add(r2)
    return ok


def make_kw_test(db_param=None, kw_param=None):
    def is_db(x, depth=0):
        if depth > 6 or not isinstance(x, tuple):
            return False
        if db_param and x == ("param", db_param):
            return True
        if x[0] == "cont":
            return is_db(x[2], depth + 1)
        if x[0] == "call" and x[1].split(".")[-1] in ("deepcopy", "dict", "copy") and x[2]:
            return is_db(x[2][0], depth + 1)
        if x[0] in ("phi",):
            return any(is_db(y, depth + 1) for y in x[1])
        return False

    def test(t, depth=0):
        if kw_param and t == ("param", kw_param):
            return True
        if t[0] == "elem" and is_db(t[1]):
            return True
        if t[0] == "proj" and t[2] == 0 and depth < 3:
            # first component of (keyword, identifier) pairs kept in local tables
            for x in walk(t[1]):
                if isinstance(x, tuple) and x and x[0] == "tuple" and len(x[1]) == 2 and x[1][0][0] != "const" and test(x[1][0], depth + 1):
                    return True
        return False
    return test


def alternatives(t, depth=0):
    """Expand phi at the top and directly below elem/cont wrappers."""
    if depth > 6 or not isinstance(t, tuple):
        return [t]
    if t[0] == "phi":
        out = []
        for x in t[1]:
            out += alternatives(x, depth + 1)
        return out
    if t[0] == "elem":
        return [x if (t[1][0] == "phi" and False) else ("elem", a) if a[0] not in ("list", "tuple") or len(a[1]) != 1 else a[1][0]
                for a in alternatives(t[1], depth + 1) for x in [None]]
    if t[0] == "cont":
        return alternatives(t[2], depth + 1)
    return [t]


def check(repo):
    r1 = Rule("R1.1", "label, key and mask derivations of _Enc and _Trap/_Search coincide")
    r2 = Rule("R1.2", "block formats written by _Enc are undone by the matching parser in _Search")
    r3 = Rule("R1.3", "Pi2Lev: the case split on the list length is total and contiguous and matches the slot reservation")
    r4 = Rule("R1.4", "level tables, fixed-width encodings and divisors have the capacity their indices need")
    rules = [r1, r2, r3, r4]
    schemes = discover(repo)
    n_agree = 0
    for s in schemes:
        L = Lengths(repo, s)
        enc, trap, search = s.method("_Enc"), s.method("_Trap"), s.method("_Search")
        fte, ftt, fts = fn_terms(repo, enc), fn_terms(repo, trap), fn_terms(repo, search)
        # token substitution from _Trap
        subst = {}
        tk_param = search.params[2]
        nt = Norm(L, trap.params[1], make_kw_test(None, trap.params[2]))
        attrs = s.ctor_positional(s.token_cls)
        trap_ok = False
        for n in ftt.cfg.nodes:
            if n.kind == "return" and n.stmt.value is not None:
                t = ftt.term(n.stmt.value, n.id)
                if t[0] == "call" and t[1].endswith("Token.__init__"):
                    trap_ok = True
                    for i, a in enumerate(t[2]):
                        if i < len(attrs) and attrs[i]:
                            if a[0] in ("cont", "comp"):
                                # SSE-2: a list of labels
                                vals = {nt.n(lf.value) for lf in flatten(repo, a)}
                                subst[(tk_param, attrs[i])] = ("LISTOF", tuple(sorted(vals, key=repr)))
                            else:
                                subst[(tk_param, attrs[i])] = nt.n(a)
        if not r1.require(trap_ok, trap, "token built from derivations", "%s._Trap does not build the token through its constructor" % s.name):
            continue
        # writer facts
        nw = Norm(L, enc.params[1], make_kw_test(enc.params[2], None))
        pos = s.ctor_positional(s.edb_cls)
        wkeys, wenc, wxor = {}, set(), set()
        for n in fte.cfg.nodes:
            if n.kind != "return" or n.stmt.value is None:
                continue
            t = fte.term(n.stmt.value, n.id)
            groups = []
            if t[0] == "call" and t[1].endswith("EncryptedDatabase.__init__"):
                groups = [(pos[i] if i < len(pos) else None, a) for i, a in enumerate(t[2])]
            elif t[0] == "call" and is_builder(repo, t[1]):
                groups = [(pos[0] if pos else "D", t)]
            for attr, a in groups:
                if attr is None:
                    continue
                for lf in flatten(repo, a):
                    if lf.key is not None and not is_urandom(lf.key):
                        wkeys.setdefault(attr, set()).add(nw.n(lf.key))
                    for x in walk(lf.value):
                        if isinstance(x, tuple) and x and x[0] == "prim" and x[2] == "Encrypt" and x[3]:
                            wenc.add(nw.n(x[3][0]))
                        if isinstance(x, tuple) and x and x[0] == "call" and x[1].endswith("::bytes_xor"):
                            for op in x[2]:
                                wxor.add(nw.n(op))
        # reader facts
        nr = Norm(L, None, lambda t: False, subst)
        shapes = c02.edb_shapes(repo, s)
        shapes = {k_: (("dict", (None, None)) if v_ and v_[0] == "object" else v_) for k_, v_ in shapes.items()}
        ft2, accs = c02.collect_accesses(repo, s, search, shapes)
        read_attrs = set()
        all_reader = {}
        for a in accs:
            if a.kind == "dict" and a.form != "member":
                for alt in alternatives(a.key_term):
                    try:
                        all_reader.setdefault(a.path[0], set()).add(nr.n(alt))
                    except Exception:
                        pass
        covered = {attr: counter_cover(rs, wkeys.get(attr, set())) for attr, rs in all_reader.items()}
        for a in accs:
            read_attrs.add(a.path[0])
            if a.path[1] != (1 if shapes.get(a.path[0], (None,))[0] == "list" and shapes[a.path[0]][1][0] == "dict" else 0) and a.kind != "dict":
                pass
            if a.kind != "dict" or a.form == "member":
                continue
            classes = c02.index_classes(a.key_term, search.params[1], tk_param)
            if "token" not in classes:
                continue
            alts = [x for x in alternatives(a.key_term) if "token" in c02.index_classes(x, search.params[1], tk_param)
                    and "hit" not in c02.index_classes(x, search.params[1], tk_param)]
            for alt in alts:
                rk = nr.n(alt)
                # an element of the token's label list
                cands = {rk}
                if rk[0] == "ELEM" and rk[1][0] == "LISTOF":
                    cands = set(rk[1][1])
                desc = {"scheme": s.name, "container": a.path[0], "reader_label": _fmt(rk), "line": a.node.line}
                w = wkeys.get(a.path[0], set())
                if cands & w or (cands & covered.get(a.path[0], set())):
                    n_agree += 1
                    r1.ok(desc)
                else:
                    desc["writer_labels"] = [_fmt(x) for x in sorted(w, key=repr)][:4]
                    r1.fail_fn(search, a.expr, "label of %s differs between _Enc and _Search" % a.path[0],
                               "%s: _Search looks %s up under %s, but _Enc stores its entries under %s: the lookup can never hit what was stored" % (
                                   s.name, a.path[0], _fmt(rk)[:160], " | ".join(_fmt(x)[:160] for x in sorted(w, key=repr)[:3])), witness=desc)
        for attr in wkeys:
            r1.require(attr in read_attrs, search, "container %s is read" % attr, "%s: _Search never reads the container %s that _Enc fills" % (s.name, attr))
        # decrypt keys / masks
        for n in fts.cfg.nodes:
            if n.stmt is None or n.ast is None:
                continue
            from ..cfg import header_exprs
            roots = [n.ast] if n.kind == "test" else [e for e in header_exprs(n.stmt) if e is not None]
            for root in roots:
                for c in ast.walk(root):
                    if not isinstance(c, ast.Call):
                        continue
                    t = fts.term(c, n.id, c02._comp_env(fts, c, n.id))
                    if t[0] == "prim" and t[2] == "Decrypt" and t[3]:
                        kalts = alternatives(t[3][0])
                        for k in kalts:
                            if "hit" in c02.index_classes(k, search.params[1], tk_param):
                                continue  # a key read from the index (SSE-1 node chain)
                            rk = nr.n(k)
                            desc = {"scheme": s.name, "decrypt_key": _fmt(rk), "line": getattr(c, "lineno", n.line)}
                            if rk in wenc:
                                n_agree += 1
                                r1.ok(desc)
                            else:
                                r1.fail_fn(search, c, "decrypt key differs from encrypt key",
                                           "%s: _Search decrypts with %s, but _Enc encrypts with %s" % (s.name, _fmt(rk)[:140], " | ".join(_fmt(x)[:140] for x in sorted(wenc, key=repr)[:3])), witness=desc)
                    if t[0] == "call" and t[1].endswith("::bytes_xor"):
                        for op in t[2]:
                            cl = c02.index_classes(op, search.params[1], tk_param)
                            if "token" in cl and "hit" not in cl:
                                rk = nr.n(op)
                                desc = {"scheme": s.name, "mask": _fmt(rk), "line": getattr(c, "lineno", n.line)}
                                if rk in wxor:
                                    n_agree += 1
                                    r1.ok(desc)
                                else:
                                    r1.fail_fn(search, c, "XOR mask differs", "%s: _Search unmasks with %s, but _Enc masks with one of %s" % (
                                        s.name, _fmt(rk)[:140], " | ".join(_fmt(x)[:120] for x in sorted(wxor, key=repr)[:4])), witness=desc)
        if s.name == "CGKO06.SSE1":
            _check_sse1_chain(repo, r1, s, enc, fte, L)
        if s.name == "CT14.Pi":
            _check_ct14_levels(repo, r1, s, enc, search, fte, fts)
        if s.name == "CGKO06.SSE2":
            _check_sse2_token_range(repo, r1, s, enc, fte, L)
        _check_blocks(repo, r2, s, enc, search, fte, fts, L)
    # exhaustive scans: a loop over data read from the index (a bucket, a list of pointers) examines every element
    r5 = Rule("R1.5", "loops over data read from the index examine every element; size guards accept every storable size")
    rules.append(r5)
    for s in schemes:
        search = s.method("_Search")
        fts = fn_terms(repo, search)
        for n in fts.cfg.nodes:
            if n.kind != "for":
                continue
            it = fts.term(n.stmt.iter, n.id)
            cl = c02.index_classes(it, search.params[1], search.params[2])
            if "hit" not in cl:
                continue
            early = [x for b in n.stmt.body for x in ast.walk(b) if isinstance(x, (ast.Break, ast.Return))
                     and not any(isinstance(a, (ast.For, ast.While)) and a is not n.stmt and any(y is a for bb in n.stmt.body for y in ast.walk(bb)) for a in ancestors(x))]
            desc = {"scheme": s.name, "loop": short(n.stmt.iter), "line": n.line}
            if early:
                r5.fail_fn(search, early[0], "early exit from a scan of index data",
                           "%s: the loop over %s (data read from the index) can stop before every element was examined: entries of the keyword that come "
                           "later (a second chunk in the same bucket, a further pointer) are silently dropped" % (s.name, short(n.stmt.iter)), witness=desc)
            else:
                r5.ok(desc)
        if s.name == "ANSS16.Scheme3":
            _check_anss16_size_guard(repo, r5, s, search)

    # the derivations agree only if the keyed primitives are functions of (key, input): a PRP object that remembers the first key it saw
    # gives set-up and token generation different permutations as soon as two keys (or two objects) are involved
    r6 = Rule("R1.6", "the keyed primitives behind labels and addresses are stateless functions of (key, input)")
    rules.append(r6)
    from .c15 import check_prp_stateless
    check_prp_stateless(repo, r6)
    # ... and the same for the algorithms built on them: a token or an index that can come out of something an earlier call
    # left on the scheme object (a trapdoor cache that forgets the key, a table reused across set-ups) is not derived
    # from this call's key and input, so the agreements above say nothing about it
    from .c07 import Analyzer as _Analyzer
    _an = _Analyzer(repo)
    for s in schemes:
        for mname in ("_Gen", "KeyGen", "_Enc", "EDBSetup", "_Trap", "TokenGen", "_Search", "Search"):
            fi = s.cls.methods.get(mname)
            if fi is None:
                continue
            hidden = [x for x in _an.sites(fi) if x[0] == ("self",)]
            memo = [d for d in fi.decorators if any(k in d for k in ("cache", "memo"))]
            if hidden or memo:
                r6.fail_fn(fi, hidden[0][2] if hidden else fi.node, "%s keeps state on the scheme object" % mname,
                           "%s.%s stores into the scheme object%s (%s): what it returns for one key or database can stem from a call made with another, "
                           "and then the search does not find what the set-up stored" % (s.name, mname, " / is memoised" if memo else "", hidden[0][3] if hidden else memo[0]))
            else:
                r6.ok()
    r1.require(n_agree >= 20, schemes[0].method("_Enc"), "agreements floor", "only %d label/key/mask agreements established (expected >= 20)" % n_agree)
    _check_pi2lev_split(repo, r3, [s for s in schemes if s.name == "CJJ14.Pi2Lev"][0])
    _check_capacity(repo, r4, schemes)
    # DP17's search cuts a bucket into slots of param_identifier_cipher_len bytes: that has to be the length of what _Enc writes into a slot
    # for every configuration (the agreement of slot lengths is established by R5.1; a disagreement is a parse failure here)
    from . import c05 as _c05
    for rr in _c05.check(repo):
        if rr.id == "R5.1":
            for f in rr.findings:
                if "slot lengths differ" in f.construct and "DP17" in f.message:
                    f.rule = "R1.2"
                    f.message = "the reader cuts buckets into slots of a length the writer does not produce for every configuration (%s)" % f.message
                    r2.findings.append(f)
                    r2.obligations += 1
            r2.obligations += 1
            r2.discharged += 1
    return rules


def _fmt(t):
    if not isinstance(t, tuple):
        return repr(t)
    tag = t[0]
    if tag == "KW":
        return "w"
    if tag == "MK":
        return "K." + t[1]
    if tag == "C":
        v = t[1]
        return ("0x" + v.hex()) if isinstance(v, bytes) else repr(v)
    if tag == "CTR":
        return "ctr(%s;+%s)" % (t[1], t[2])
    if tag == "P":
        return "%s%s(%s)" % (t[1], "." + t[2] if t[2] and t[2] != "ske" else "", ", ".join(_fmt(x) for x in t[3:] if x is not None))
    if tag == "I2B":
        return "I2B(%s%s)" % (_fmt(t[1]), ", w=%s" % t[2] if t[2] else "")
    if tag == "CAT":
        return "%s||%s" % (_fmt(t[1]), _fmt(t[2]))
    if tag == "BITS":
        return "bits(%s, %s)" % (_fmt(t[1]), t[2])
    if tag in ("V",):
        return str(t[1])
    return "%s(%s)" % (tag, ", ".join(_fmt(x) if isinstance(x, tuple) else repr(x) for x in t[1:]))


def _check_sse2_token_range(repo, r1, s, enc, fte, L):
    """SSE-2 stores the j-th posting of w under pi(w || j), j = 1 .. |DB(w)| <= n (a keyword occurs at most once per document); the
    trapdoor therefore has to list the positions of all n counters j = 1 .. n: its range starts where the writer's counter starts
    and spans param_n values."""
    trap = s.method("_Trap")
    ftt = fn_terms(repo, trap)
    # writer: first value of the counter that is encoded into the stored positions
    starts = set()
    for n in fte.cfg.nodes:
        if n.kind == "stmt" and isinstance(n.stmt, ast.Assign):
            for t in n.stmt.targets:
                if isinstance(t, ast.Subscript):
                    kt = fte.term(t.slice, n.id)
                    if any(isinstance(x, tuple) and x and x[0] == "elem" and x[1] == ("param", enc.params[2]) for x in walk(kt)):
                        for x in walk(kt):
                            if isinstance(x, tuple) and x and x[0] == "counter":
                                starts.add(x[1])
    ranges = []
    for n in ftt.cfg.nodes:
        if n.kind == "return" and n.stmt.value is not None:
            t = ftt.term(n.stmt.value, n.id)
            for x in walk(t):
                if isinstance(x, tuple) and x and x[0] == "rangevar":
                    ranges.append(x[1])
                if isinstance(x, tuple) and x and x[0] == "cont":
                    for mut in x[3]:
                        for y in walk(mut):
                            if isinstance(y, tuple) and y and y[0] == "rangevar":
                                ranges.append(y[1])
    ranges = [r_ for i, r_ in enumerate(ranges) if r_ not in ranges[:i]]
    if not r1.require(len(starts) == 1 and all(isinstance(x, int) for x in starts) and bool(ranges), trap, "SSE-2 token range found",
                      "SSE-2: cannot relate the counter range of the trapdoor (%s) to the counters under which _Enc stores postings (%s)" % (
                          [show(("call", "range", r_, ()), maxdepth=4) for r_ in ranges], sorted(starts, key=repr))):
        return
    w0 = next(iter(starts))
    n_docs = L.slot_value("param_n")
    for r_ in ranges:
        lo = L.value(r_[0]) if len(r_) >= 2 else L.value(("const", 0))
        hi = L.value(r_[1]) if len(r_) >= 2 else L.value(r_[0])
        step_ok = len(r_) < 3 or r_[2] == ("const", 1)
        ok = step_ok and lo == L.value(("const", w0)) and (hi - lo) == n_docs
        r1.require(ok, trap, "SSE-2 token covers counters %d..n" % w0,
                   "SSE-2: _Trap lists the positions of the counters range(%s), but _Enc stores the postings of a keyword under the counters %d .. %d+|DB(w)|-1 with "
                   "|DB(w)| up to param_n: the last posting(s) of a keyword contained in (nearly) every document are never looked up" % (
                       ", ".join(show(a, maxdepth=4) for a in r_), w0, w0))


def _check_sse1_chain(repo, r1, s, enc, fte, L):
    """The pointer stored in the node written at counter value c is the address of counter value c + step."""
    nw = Norm(L, enc.params[1], make_kw_test(enc.params[2], None))
    found = 0
    for n in fte.cfg.nodes:
        if n.kind != "return" or n.stmt.value is None:
            continue
        t = fte.term(n.stmt.value, n.id)
        for lf in flatten(repo, t):
            if lf.key is None or not (lf.value[0] == "prim" and lf.value[2] == "Encrypt"):
                continue
            addr = nw.n(lf.key)
            ptrs = [nw.n(x) for x in walk(lf.value[3][1]) if isinstance(x, tuple) and x and x[0] == "prim" and x[1] == addr[1] if addr[0] == "P"] if addr[0] == "P" else []
            if addr[0] != "P":
                continue
            line = fte.cfg.nodes[lf.node].line if lf.node is not None else n.line
            if not ptrs:
                # last node: pointer is all zero - nothing to compare
                continue
            found += 1
            for p in ptrs:
                ca = [x for x in _subterms(addr) if x and x[0] == "CTR"]
                cp = [x for x in _subterms(p) if x and x[0] == "CTR"]
                same_shape = _replace_ctr(addr) == _replace_ctr(p)
                ok = same_shape and len(ca) == 1 and len(cp) == 1 and cp[0][1] == ca[0][1] + ca[0][2] and cp[0][2] == ca[0][2]
                desc = {"scheme": s.name, "address": _fmt(addr), "stored_pointer": _fmt(p)}
                if ok:
                    r1.ok(desc)
                else:
                    r1.fail(enc.module.rel, enc.qual, line, "node pointer is not the next node's address",
                            "SSE-1: the node stored at %s carries the pointer %s, which is not the address of the next counter value: the list walk "
                            "breaks after this node" % (_fmt(addr)[:120], _fmt(p)[:120]), witness=desc)
    r1.require(found >= 1, enc, "SSE-1 node chain", "SSE-1: no node carrying a next-pointer found in _Enc")


def _check_ct14_levels(repo, r1, s, enc, search, fte, fts):
    """On both sides one and the same level variable selects the table, is encoded into the label and sets the block size 2^level."""
    def i2b_args(t):
        return [x[2][0] for x in walk(t) if isinstance(x, tuple) and x and x[0] == "call" and x[1].endswith("::int_to_bytes") and x[2]]

    def pow2_exps(t):
        return [x[3] for x in walk(t) if isinstance(x, tuple) and x and x[0] == "binop" and x[1] == "Pow" and x[2] == ("const", 2)]
    # writer: L_list[j].append((label, block))
    found = 0
    for name, ms in fte.mutations().items():
        for (mn, kind, payload, subs) in ms:
            if kind != "append" or len(subs) != 1:
                continue
            idx = fte.term(subs[0], mn)
            arg = fte.term(payload.args[0], mn) if payload.args else None
            if arg is None or arg[0] != "tuple" or len(arg[1]) != 2:
                continue
            label, block = arg[1]
            la = i2b_args(label)
            if not la:
                continue
            found += 1
            # the per-keyword level loop reaches the top level: a list of 2^t postings (a one-keyword database, N = 1) lives at level t
            if idx[0] == "rangevar":
                a_ = idx[1]
                top = None
                if len(a_) == 1:
                    top = ("binop", "Sub", a_[0], ("const", 1))
                    if a_[0][0] == "binop" and a_[0][1] == "Add" and a_[0][3] == ("const", 1):
                        top = a_[0][2]
                elif len(a_) == 2 and a_[0] == ("const", 0):
                    top = a_[1][2] if a_[1][0] == "binop" and a_[1][1] == "Add" and a_[1][3] == ("const", 1) else ("binop", "Sub", a_[1], ("const", 1))
                elif len(a_) == 3 and a_[1] == ("const", -1) and a_[2] == ("const", -1):
                    top = a_[0]
                tds = _level_count_defs(fte)
                t_term = fte.def_term(tds[0]) if tds else None
                data_top = top is not None and top[0] == "call" and top[1] == "int" and top[2] and top[2][0][0] == "call" and top[2][0][1] in ("math.log2", "log2")
                bitlen_top = top is not None and top[0] == "binop" and top[1] == "Sub" and top[3] == ("const", 1) and top[2][0] == "mcall" and top[2][2] == "bit_length"
                r1.require(top is not None and (data_top or bitlen_top or (t_term is not None and top == t_term)), enc, "writer level loop reaches the top level",
                           "CT14._Enc decomposes a posting list over the levels %s: the highest level must be floor(log2 |DB(w)|) (at most t); a list of exactly 2^t postings "
                           "(one keyword owning the whole database, or a single posting when N = 1) is otherwise never stored" % show(idx, maxdepth=4)[:100], payload)
            # the block is a join over range(c, c + 2**j)
            cnt_ok = any(e == idx for e in pow2_exps(block))
            ok = all(a == idx for a in la) and cnt_ok
            r1.require(ok, enc, "writer level variable consistent",
                       "CT14._Enc stores at level %s a label that encodes %s and a block of %s ciphertexts: table index, encoded level and block size must be one variable" % (
                           show(idx, maxdepth=3), [show(a, maxdepth=3) for a in la], [("2**" + show(e, maxdepth=3)) for e in pow2_exps(block)][:2]), payload)
    r1.require(found >= 1, enc, "writer level facts", "CT14._Enc: no per-level table store found")
    # reader: HT_list[i].get(label(i)); parse(..., 2 ** i)
    found = 0
    for n in fts.cfg.nodes:
        if n.stmt is None or n.ast is None or n.kind != "stmt":
            continue
        for c in ast.walk(n.stmt):
            if isinstance(c, ast.Call) and isinstance(c.func, ast.Attribute) and c.func.attr == "get" and isinstance(c.func.value, ast.Subscript) and c.args:
                idx = fts.term(c.func.value.slice, n.id)
                label = fts.term(c.args[0], n.id)
                la = i2b_args(label)
                if not la:
                    continue
                found += 1
                r1.require(all(a == idx for a in la), search, "reader level variable consistent",
                           "CT14._Search looks into table %s for a label that encodes level %s" % (show(idx, maxdepth=3), [show(a, maxdepth=3) for a in la]), c)
                # the parse count in the same loop body
                for a in ancestors(c):
                    if isinstance(a, ast.For):
                        for c2 in ast.walk(a):
                            if isinstance(c2, ast.Call) and (dotted(c2.func) or "").endswith("parse_identifiers_from_block_given_entry_count_in_one_block") and len(c2.args) >= 2:
                                nid2 = fts.cfg.node_of_expr(c2)
                                cnt = fts.term(c2.args[1], nid2[0]) if nid2 else None
                                r1.require(cnt == ("binop", "Pow", ("const", 2), idx), search, "reader block size is 2^level",
                                           "CT14._Search splits the block of level %s into %s ciphertexts" % (show(idx, maxdepth=3), show(cnt, maxdepth=3) if cnt else None), c2)
                        break
    r1.require(found >= 1, search, "reader level facts", "CT14._Search: no per-level lookup found")


def _subterms(t):
    out = []
    stack = [t]
    while stack:
        x = stack.pop()
        if isinstance(x, tuple):
            out.append(x)
            stack.extend(y for y in x if isinstance(y, tuple))
    return out


def _replace_ctr(t):
    if isinstance(t, tuple):
        if t and t[0] == "CTR":
            return ("CTR",)
        return tuple(_replace_ctr(x) for x in t)
    return t


def _check_anss16_size_guard(repo, r5, s, search):
    """Between the size-table hit and the level-table lookup, no early return may fire for a storable size
    1 <= n <= 2^T with T + 1 = len(HT_L_list).  The straight-line arithmetic is evaluated on the finite boundary set."""
    import math
    import copy as _copy

    def _linear(stmts):
        # `if g: return ... else: REST` reads `if g: return ...; REST`
        out = []
        for st in stmts:
            if isinstance(st, ast.If) and st.orelse and st.body and isinstance(st.body[-1], (ast.Return, ast.Raise)):
                g = _copy.copy(st)
                g.orelse = []
                out.append(g)
                out += _linear(st.orelse)
            else:
                out.append(st)
        return out
    body = _linear(search.node.body)
    lst_names = {t.id for st in ast.walk(search.node) if isinstance(st, ast.Assign) for t in st.targets if isinstance(t, ast.Name)
                 and isinstance(st.value, ast.Attribute) and st.value.attr == "HT_L_list"}
    for st in ast.walk(search.node):
        if isinstance(st, ast.Assign) and isinstance(st.targets[0], ast.Tuple) and isinstance(st.value, ast.Tuple):
            for a, b in zip(st.targets[0].elts, st.value.elts):
                if isinstance(a, ast.Name) and isinstance(b, ast.Attribute) and b.attr == "HT_L_list":
                    lst_names.add(a.id)
    size_var = None
    start = None
    for i, st in enumerate(body):
        if isinstance(st, ast.Assign) and isinstance(st.value, ast.Call) and (dotted(st.value.func) or "").endswith("int_from_bytes") and isinstance(st.targets[0], ast.Name):
            size_var, start = st.targets[0].id, i
    # (the table may also be addressed directly as <edb>.HT_L_list, without a local alias)
    direct = any(isinstance(x, ast.Attribute) and x.attr == "HT_L_list" for x in ast.walk(search.node))
    if not r5.require(size_var is not None and (lst_names or direct), search, "ANSS16 decoded list size", "ANSS16._Search no longer decodes the list size from the size table"):
        return

    class Unknown(Exception):
        pass

    def ev(e, env):
        if isinstance(e, ast.Constant):
            return e.value
        if isinstance(e, ast.Name):
            if e.id in env:
                return env[e.id]
            raise Unknown()
        if isinstance(e, ast.BinOp):
            a, b = ev(e.left, env), ev(e.right, env)
            ops = {ast.Add: lambda: a + b, ast.Sub: lambda: a - b, ast.Mult: lambda: a * b, ast.Pow: lambda: a ** b,
                   ast.FloorDiv: lambda: a // b, ast.Div: lambda: a / b, ast.LShift: lambda: a << b, ast.Mod: lambda: a % b}
            if type(e.op) in ops:
                return ops[type(e.op)]()
            raise Unknown()
        if isinstance(e, ast.UnaryOp):
            v = ev(e.operand, env)
            if isinstance(e.op, ast.Not):
                return not v
            if isinstance(e.op, ast.USub):
                return -v
            raise Unknown()
        if isinstance(e, ast.BoolOp):
            vals = [ev(v, env) for v in e.values]
            return all(vals) if isinstance(e.op, ast.And) else any(vals)
        if isinstance(e, ast.Compare):
            left = ev(e.left, env)
            for op, c in zip(e.ops, e.comparators):
                right = ev(c, env)
                ok = {ast.Lt: left < right, ast.LtE: left <= right, ast.Gt: left > right, ast.GtE: left >= right,
                      ast.Eq: left == right, ast.NotEq: left != right}.get(type(op))
                if ok is None:
                    raise Unknown()
                if not ok:
                    return False
                left = right
            return True
        if isinstance(e, ast.Call):
            d = dotted(e.func) or ""
            if d == "len" and e.args and ((isinstance(e.args[0], ast.Name) and e.args[0].id in lst_names) or
                                          (isinstance(e.args[0], ast.Attribute) and e.args[0].attr == "HT_L_list")):
                return env["__T"] + 1
            args = [ev(a, env) for a in e.args]
            if d == "math.ceil":
                return math.ceil(args[0])
            if d == "math.floor":
                return math.floor(args[0])
            if d == "math.log2":
                return math.log2(args[0])
            if d == "int":
                return int(args[0])
            if d in ("min", "max"):
                return (min if d == "min" else max)(*args)
            if d == "range":
                return range(*args)
            if isinstance(e.func, ast.Attribute) and e.func.attr == "bit_length":
                return ev(e.func.value, env).bit_length()
            raise Unknown()
        if isinstance(e, ast.Subscript):
            raise Unknown()
        raise Unknown()
    bad = None
    understood = True
    for T in range(0, 7):
        for nval in sorted({1, 2, 3, max(1, 2 ** T - 1), 2 ** T, max(1, 2 ** T // 2), max(1, 2 ** T // 2 + 1)}):
            if nval > 2 ** T:
                continue
            env = {size_var: nval, "__T": T}
            try:
                for st in body[start + 1:]:
                    if isinstance(st, ast.Assign) and len(st.targets) == 1 and isinstance(st.targets[0], ast.Name):
                        try:
                            env[st.targets[0].id] = ev(st.value, env)
                        except Unknown:
                            env.pop(st.targets[0].id, None)
                    elif isinstance(st, ast.If):
                        returns = any(isinstance(x, ast.Return) for b in st.body for x in ast.walk(b))
                        if not returns:
                            continue
                        # a test on a looked-up value (`di is None`) is not a size guard
                        names = {x.id for x in ast.walk(st.test) if isinstance(x, ast.Name)}
                        try:
                            v = ev(st.test, env)
                        except Unknown:
                            continue
                        if v and bad is None:
                            bad = (T, nval, st)
            except Exception:
                understood = False
    if bad is not None:
        T, nval, st = bad
        r5.fail_fn(search, st, "size guard rejects a storable size",
                   "ANSS16._Search: with %d level tables (t = %d) the guard `%s` returns an empty result for a stored list of %d postings, which _Enc stores at "
                   "level ceil(log2 n) <= t" % (T + 1, T, short(st.test), nval))
    else:
        r5.ok({"scheme": s.name, "guard_evaluated_for": "t in 0..6, n in boundary set of [1, 2^t]", "understood": understood})


# ----------------------------------------------------------------------------- R1.2 block formats
def _check_blocks(repo, r2, s, enc, search, fte, fts, L):
    writers = []
    for n in fte.cfg.nodes:
        if n.stmt is None or n.ast is None:
            continue
        for c in ast.walk(n.stmt if n.kind != "test" else n.ast):
            if isinstance(c, ast.Call) and (dotted(c.func) or "").endswith("partition_identifiers_to_blocks"):
                t = fte.term(c, n.id)
                if t[0] == "call":
                    a, kw = t[2], dict(t[3])
                    cnt = L.value(a[1])
                    size = L.value(a[2])
                    bs = kw.get("block_size_bytes") or (a[3] if len(a) > 3 else None)
                    block = L.value(bs) if bs is not None else cnt * size
                    writers.append((cnt, size, block, getattr(c, "lineno", 0)))
    readers = []
    for n in fts.cfg.nodes:
        if n.stmt is None or n.ast is None:
            continue
        for c in ast.walk(n.stmt if n.kind != "test" else n.ast):
            if isinstance(c, ast.Call):
                d = dotted(c.func) or ""
                if d.endswith("parse_identifiers_from_block_given_identifier_size") or d.endswith("parse_identifiers_from_block_given_entry_count_in_one_block"):
                    tt = fts.term(c, n.id)   # canonical (positional) argument form
                    if tt[0] == "call" and len(tt[2]) >= 2:
                        if d.endswith("identifier_size"):
                            readers.append(("size", L.value(tt[2][1]), c))
                        else:
                            readers.append(("count", tt[2][1], c))
    if s.name in ("CJJ14.PiPack", "CJJ14.PiPtr"):
        r2.require(bool(writers) and bool(readers), search, "block writers and parsers", "%s: partition/parse pair vanished" % s.name)
        # writer geometry per container
        pos = s.ctor_positional(s.edb_cls)
        geom = {}
        for n in fte.cfg.nodes:
            if n.kind != "return" or n.stmt.value is None:
                continue
            t = fte.term(n.stmt.value, n.id)
            groups = []
            if t[0] == "call" and t[1].endswith("EncryptedDatabase.__init__"):
                groups = [(pos[i] if i < len(pos) else None, a) for i, a in enumerate(t[2])]
            elif t[0] == "call" and is_builder(repo, t[1]):
                groups = [(pos[0] if pos else "D", t)]
            for attr, a in groups:
                for lf in flatten(repo, a):
                    for x in walk(lf.value):
                        if isinstance(x, tuple) and x and x[0] == "call" and x[1].endswith("::partition_identifiers_to_blocks"):
                            aa, kw = x[2], dict(x[3])
                            cnt, size = L.value(aa[1]), L.value(aa[2])
                            bs = kw.get("block_size_bytes") or (aa[3] if len(aa) > 3 else None)
                            geom.setdefault(attr, []).append((cnt, size, L.value(bs) if bs is not None else cnt * size))
        for kind, val, c in readers:
            nid = fts.cfg.node_of_expr(c)
            ct = fts.term(c, nid[0]) if nid else None
            at = ct[2][0] if ct is not None and ct[0] == "call" and ct[2] else None
            attr = None
            if at is not None:
                for x in walk(at):
                    if isinstance(x, tuple) and x and x[0] in ("sub", "mcall", "elem"):
                        p = c02.edb_path(x, search.params[1])
                        if p is not None:
                            attr = p[0]
                            break
            ws = geom.get(attr, [])
            if not r2.require(bool(ws), search, "parsed block has a writer", "%s: the block parsed at line %d comes from %s, for which _Enc writes no partitioned blocks" % (
                    s.name, c.lineno, attr), c):
                continue
            if kind == "size":
                ok = any(w[1] == val and w[2] == w[0] * w[1] for w in ws)
                r2.require(ok, search, "parse stride equals written identifier size",
                           "%s: blocks of %s are parsed with stride %s, but written with entry size %s" % (s.name, attr, val.canon(), [w[1].canon() for w in ws]), c)
            else:
                v = L.value(val)
                ok = any(w[0] == v and w[2] == w[0] * w[1] for w in ws)
                r2.require(ok, search, "parse count equals written entries per block",
                           "%s: blocks of %s are parsed as %s entries, but written with %s entries per block" % (s.name, attr, v.canon(), [w[0].canon() for w in ws]), c)
    if s.name in ("CT14.Pi", "ANSS16.Scheme3"):
        # join of 2^level ciphertexts  <->  parse by count 2^level
        okc = False
        for kind, val, c in readers:
            if kind == "count" and val[0] == "binop" and val[1] == "Pow" and val[2] == ("const", 2):
                okc = True
        r2.require(okc, search, "level block parsed as 2^level ciphertexts", "%s: the level block is no longer split into 2^level ciphertexts" % s.name)
    if s.name == "CJJ14.Pi2Lev":
        # the reader's table param_by_level[level][is pointer block]
        table = None
        cand_values = [x for x in ast.walk(search.node) if isinstance(x, (ast.List, ast.Tuple))]
        # a module-level (or class-level) constant table used by _Search
        for nm in {x.id for x in ast.walk(search.node) if isinstance(x, ast.Name)}:
            if nm in search.module.globals:
                cand_values.append(search.module.globals[nm])
        for x in ast.walk(search.node):
            if isinstance(x, ast.Attribute) and isinstance(x.value, ast.Name) and x.value.id in ("self", "cls", search.cls.name if search.cls else "") and search.cls and x.attr in search.cls.attrs:
                cand_values.append(search.cls.attrs[x.attr])
        for value in cand_values:
            st = ast.Assign(targets=[], value=value)
            if isinstance(st.value, (ast.List, ast.Tuple)) and st.value.elts and all(isinstance(e, (ast.List, ast.Tuple)) for e in st.value.elts) and len(st.value.elts) >= 2:
                rows = []
                for e in st.value.elts:
                    row = []
                    for cell in e.elts:
                        if isinstance(cell, ast.Constant) and isinstance(cell.value, str):
                            row.append(cell.value)
                        elif (dotted(cell) or "").startswith("self.config."):
                            row.append(dotted(cell).split(".")[-1])
                        else:
                            row.append(unparse(cell))
                    rows.append(row)
                table = rows
        want = [["param_b", "param_b_prime"], ["param_B", "param_B_prime"], ["param_B", "param_B_prime"]]
        r2.require(table == want, search, "Pi2Lev level/kind table",
                   "Pi2Lev._Search parses blocks with the entry counts %s; the writer's geometry is %s (dictionary level: b identifiers / b' pointers, array levels: B / B')" % (table, want))
        # writer geometry: identifier blocks of B with array block size; pointer blocks of B' with array block size; dictionary blocks padded to b*idsize
        B, Bp, idz = L.slot_value("param_B"), L.slot_value("param_B_prime"), L.slot_value("param_identifier_size")
        good = [w for w in writers if w[2] == B * idz]
        r2.require(len(good) == len(writers) and len(writers) >= 3, enc, "Pi2Lev array blocks share one size",
                   "Pi2Lev._Enc: array blocks are written with sizes %s, expected B*identifier_size for all" % [w[2].canon() for w in writers])
        cnts = sorted({w[0].canon() for w in writers})
        r2.require(cnts == sorted({B.canon(), Bp.canon()}), enc, "Pi2Lev array block entry counts",
                   "Pi2Lev._Enc: array blocks hold %s entries, expected B (identifiers) and B' (pointers)" % cnts)
        # level marks: reader strips one byte and compares with the same constants the writer prepends
        marks_w = set()
        for n in fte.cfg.nodes:
            if n.stmt is None or n.ast is None:
                continue
            for c in ast.walk(n.stmt if n.kind != "test" else n.ast):
                if isinstance(c, ast.Call) and isinstance(c.func, ast.Attribute) and c.func.attr == "Encrypt" and len(c.args) == 2 and \
                        isinstance(c.args[1], ast.BinOp) and isinstance(c.args[1].left, ast.Name):
                    marks_w.add(c.args[1].left.id)
        marks_r = {x.id for x in ast.walk(search.node) if isinstance(x, ast.Name) and x.id.startswith("LEVEL_")}
        # which mark goes on which payload: blocks of identifiers (cut from database[w]) carry the file-identifier mark, blocks of
        # array positions (cut from a list of encoded positions) carry the pointer mark - the reader decides by the mark how to parse on
        try:
            m_file = repo.const_value(enc.module, ast.Name(id="LEVEL_FILE_IDENTIFIER", ctx=ast.Load()))
            m_ptr = repo.const_value(enc.module, ast.Name(id="LEVEL_POINTER_OF_ARRAY", ctx=ast.Load()))
        except Exception:
            m_file = m_ptr = None
        n_marked = 0
        dbp_ = ("param", enc.params[2])
        for n in fte.cfg.nodes:
            if n.stmt is None or n.ast is None:
                continue
            for c in ast.walk(n.stmt if n.kind != "test" else n.ast):
                if not (isinstance(c, ast.Call) and isinstance(c.func, ast.Attribute) and c.func.attr == "Encrypt"):
                    continue
                t = fte.term(c, n.id)
                if t[0] != "prim" or len(t[3]) < 2:
                    continue
                pl = t[3][1]
                if not (pl[0] == "binop" and pl[1] == "Add" and pl[2][0] == "const" and isinstance(pl[2][1], bytes) and len(pl[2][1]) == 1):
                    continue
                rest = pl[3]

                def shallow(x, depth=0):
                    """sub-terms of the payload without going inside local containers (their contents are judged where they are filled)"""
                    yield x
                    if isinstance(x, tuple) and x and x[0] != "cont" and depth < 40:
                        for y in x:
                            if isinstance(y, tuple):
                                yield from shallow(y, depth + 1)
                top = list(shallow(rest))
                has_ids = any(isinstance(x, tuple) and len(x) >= 2 and x[0] == "sub" and x[1] == dbp_ for x in top)
                has_ptrs = any(isinstance(x, tuple) and x and x[0] == "cont" and any(
                    m_[0] in ("append", "extend") and m_[2] and isinstance(m_[2][0], tuple) and m_[2][0] and m_[2][0][0] == "call" and
                    isinstance(m_[2][0][1], str) and m_[2][0][1].endswith("int_to_bytes") for m_ in x[3]) for x in top)
                if has_ids == has_ptrs or m_file is None:
                    continue
                n_marked += 1
                want_m = m_file if has_ids else m_ptr
                r2.require(pl[2][1] == want_m, enc, "Pi2Lev mark matches the payload",
                           "Pi2Lev._Enc marks a block of %s with %r: _Search decides by the mark whether a block holds identifiers or array positions, so this block is "
                           "parsed as the wrong kind and the search returns positions instead of identifiers (or walks into garbage)" % (
                               "identifiers" if has_ids else "array positions", pl[2][1]), c)
        r2.require(n_marked >= 4, enc, "Pi2Lev marked payloads found", "Pi2Lev._Enc: fewer marked blocks than cases (%d)" % n_marked)
        r2.require(marks_w == {"LEVEL_FILE_IDENTIFIER", "LEVEL_POINTER_OF_ARRAY"} and marks_r == marks_w, search, "Pi2Lev level marks",
                   "Pi2Lev: writer prepends %s, reader tests %s" % (sorted(marks_w), sorted(marks_r)))
        strip = any(isinstance(x, ast.Subscript) and isinstance(x.slice, ast.Slice) and isinstance(x.slice.lower, ast.Constant) and x.slice.lower.value == 1
                    and x.slice.upper is None for x in ast.walk(search.node))
        r2.require(strip, search, "Pi2Lev mark stripped", "Pi2Lev._Search no longer strips the one-byte level mark before parsing a block")


# ----------------------------------------------------------------------------- R1.3 Pi2Lev case split
class _Branch:
    """One arm of an if/elif chain with a leading `not` folded away: `if not T: A else: B` is the arm (T, B, A)."""

    def __init__(self, node):
        self.node = node
        t, body, orelse = node.test, node.body, node.orelse
        while isinstance(t, ast.UnaryOp) and isinstance(t.op, ast.Not):
            t, body, orelse = t.operand, orelse, body
        self.test, self.body, self.orelse = t, body, orelse
        self.lineno, self.col_offset = node.lineno, node.col_offset


def pi2lev_case_chain(repo, enc):
    """The if/elif chain of Pi2Lev._Enc that dispatches on len(database[w]) inside the keyword loop -> list of _Branch (or [])."""
    ft = fn_terms(repo, enc)
    dbp = ("param", enc.params[2])
    NLEN = ("call", "len", (("sub", dbp, ("elem", dbp)),), ())
    chain = None
    for st in ast.walk(enc.node):
        if isinstance(st, ast.If) and isinstance(getattr(st, "_parent", None), ast.For):
            br = _Branch(st)
            if not (isinstance(br.test, ast.Compare) and len(br.orelse) == 1 and isinstance(br.orelse[0], ast.If)):
                continue
            try:
                nid_ = ft.cfg.nodes_of(st)[0]
                ops = [ft.term(o, nid_) for o in [br.test.left] + list(br.test.comparators)]
            except Exception:
                continue
            if NLEN in ops:
                chain = br
    branches = []
    cur = chain
    while cur is not None:
        branches.append(cur)
        cur = _Branch(cur.orelse[0]) if len(cur.orelse) == 1 and isinstance(cur.orelse[0], ast.If) else None
    return branches


def _check_pi2lev_split(repo, r3, s):
    enc = s.method("_Enc")
    L = Lengths(repo, s)
    ft = fn_terms(repo, enc)
    chain = None
    dbp = ("param", enc.params[2])
    NLEN = ("call", "len", (("sub", dbp, ("elem", dbp)),), ())   # len(database[w]) for the keyword w of the enclosing loop, whatever it is called

    def operands_of(test, at):
        if not isinstance(test, ast.Compare):
            return None
        nid_ = ft.cfg.nodes_of(at)[0]
        try:
            return [ft.term(o, nid_) for o in [test.left] + list(test.comparators)]
        except Exception:
            return None

    def on_length(st):
        ops = operands_of(st.test, st)
        return ops is not None and NLEN in ops
    branches = pi2lev_case_chain(repo, enc)
    chain = branches[0].node if branches else None
    if not r3.require(chain is not None, enc, "case split", "Pi2Lev._Enc: the small/medium/large case split vanished"):
        return

    def bounds(br):
        """(lower term or None, lower strict?, upper term or None, upper inclusive?) for tests on n = len(database[keyword])"""
        t = br.test
        operands = operands_of(t, chain)
        if operands is None:
            return None
        ops = [type(o) for o in t.ops]
        idx = next((i for i, o in enumerate(operands) if o == NLEN), None)
        if idx is None:
            return None
        lo = up = None
        lo_strict = up_incl = None
        if idx > 0:
            lo = L.value(operands[idx - 1])
            lo_strict = ops[idx - 1] is ast.Lt
            if ops[idx - 1] not in (ast.Lt, ast.LtE):
                return None
        if idx < len(operands) - 1:
            up = L.value(operands[idx + 1])
            up_incl = ops[idx] is ast.LtE
            if ops[idx] not in (ast.Lt, ast.LtE):
                return None
        return lo, lo_strict, up, up_incl
    bs = [bounds(b) for b in branches]
    if not r3.require(all(b is not None for b in bs) and len(bs) == 3, enc, "case split form", "Pi2Lev._Enc: the case split is not a chain of three range tests on the list length"):
        return
    r3.require(bs[0][0] is None, enc, "small case has no lower bound", "the small case excludes short lists")
    for i in range(2):
        up, up_incl = bs[i][2], bs[i][3]
        lo, lo_strict = bs[i + 1][0], bs[i + 1][1]
        ok = up is not None and lo is not None and up == lo and up_incl and lo_strict
        r3.require(ok, enc, "boundary %d contiguous" % (i + 1),
                   "Pi2Lev._Enc: case %d ends at n %s %s but case %d starts at n %s %s: list lengths at the boundary are handled by no branch or by the wrong one" % (
                       i + 1, "<=" if up_incl else "<", up.canon() if up is not None else "?", i + 2, ">" if lo_strict else ">=", lo.canon() if lo is not None else "?"), branches[i + 1].node)
    # the bounds are the capacities of what each case writes: one dictionary block of b identifiers; b' pointers to array blocks of B
    # identifiers; b' pointers to array blocks of B' pointers to array blocks of B identifiers
    b_, bp_, B_, Bp_ = (L.slot_value(k) for k in ("param_b", "param_b_prime", "param_B", "param_B_prime"))
    caps = [("small", b_, "b (one dictionary block)"), ("medium", B_ * bp_, "B * b' (b' pointers to blocks of B identifiers)"),
            ("large", B_ * Bp_ * bp_, "B * B' * b' (two pointer levels)")]
    for i, (nm, cap, txt) in enumerate(caps):
        up = bs[i][2]
        r3.require(up is not None and up == cap, enc, "%s case bound is its capacity" % nm,
                   "Pi2Lev._Enc: the %s case takes lists of up to %s postings, but what it writes holds %s: a list in between is written into a block it "
                   "does not fit (or refused although it fits)" % (nm, up.canon() if up is not None else "?", txt), branches[i].node)
    last = branches[-1]
    r3.require(bool(last.orelse) and isinstance(last.orelse[-1], ast.Raise), enc, "too large refused", "lists beyond the large case are not refused")
    # reservation conditions
    pre = [st for st in ast.walk(enc.node) if isinstance(st, ast.If) and on_length(st)
           and st is not chain and st not in [b_.node for b_ in branches] and any(isinstance(x, ast.AugAssign) for x in st.body)]
    if r3.require(len(pre) == 2, enc, "slot reservation", "Pi2Lev._Enc: expected two reservation conditions for the array length, found %d" % len(pre)):
        got = []
        for p in pre:
            ops = operands_of(p.test, p)
            if len(p.test.ops) == 1 and ((isinstance(p.test.ops[0], ast.Gt) and ops[0] == NLEN) or (isinstance(p.test.ops[0], ast.Lt) and ops[1] == NLEN)):
                got.append(L.value(ops[1] if ops[0] == NLEN else ops[0]))
        want = [bs[1][0], bs[2][0]]
        r3.require(len(got) == 2 and sorted(x.canon() for x in got) == sorted(x.canon() for x in want), enc, "reservation matches the case split",
                   "Pi2Lev._Enc reserves array slots for n > %s but the medium/large cases start at n > %s: lists in between get no slots (pop from an empty "
                   "list) or waste them" % ([x.canon() for x in got], [x.canon() for x in want]))
        # amounts: ceil(n / B) and ceil(n / (B * B'))
        amounts = []
        for p in pre:
            for x in p.body:
                if isinstance(x, ast.AugAssign) and isinstance(x.op, ast.Add):
                    nid_ = ft.cfg.nodes_of(x)[0]
                    amounts.append(ft.term(x.value, nid_))
        B, Bp = ("cfg", "param_B"), ("cfg", "param_B_prime")
        w1 = ("call", "math.ceil", (("binop", "Div", NLEN, B),), ())
        w2 = [("call", "math.ceil", (("binop", "Div", NLEN, ("binop", "Mult", x, y)),), ()) for x, y in ((B, Bp), (Bp, B))]
        a_ok = len(amounts) == 2 and ((amounts[0] == w1 and amounts[1] in w2) or (amounts[1] == w1 and amounts[0] in w2))
        r3.require(a_ok, enc, "reserved amounts", "Pi2Lev._Enc reserves %s slots, expected ceil(n/B) and ceil(n/(B*B'))" % [show(x, maxdepth=6) for x in amounts])


# ----------------------------------------------------------------------------- R1.4 capacities
def _range_arg(ft, node_stmt_iter, nid):
    t = ft.term(node_stmt_iter, nid)
    if t[0] == "call" and t[1] == "range" and len(t[2]) == 1:
        return t[2][0]
    return None


def _level_count_defs(ft):
    """Definitions of the level count t = ceil(log2(N)) (by shape, whatever the variable is called)."""
    out = []
    for d in ft.defs:
        if d.kind != "assign":
            continue
        try:
            t = ft.def_term(d)
        except Exception:
            continue
        if t[0] == "call" and t[1] in ("math.ceil", "ceil") and t[2] and t[2][0][0] == "call" and t[2][0][1] in ("math.log2", "log2"):
            out.append(d)
    return out or [d for d in ft.defs if d.var == "t" and d.kind == "assign"]


def _check_capacity(repo, r4, schemes):
    for s in schemes:
        enc = s.method("_Enc")
        ft = fn_terms(repo, enc)
        if s.name in ("CT14.Pi", "ANSS16.Scheme3"):
            tdefs = _level_count_defs(ft)
            if not tdefs:
                r4.fail_fn(enc, enc.node, "level count variable", "%s: level count t = ceil(log2(..)) vanished" % s.name)
                continue
            t_term = ft.def_term(tdefs[0])
            want = ("binop", "Add", t_term, ("const", 1))
            # allocation of the level lists, padding loop, table creation loop
            sites = []
            for n in ft.cfg.nodes:
                st = n.stmt
                if n.kind == "stmt" and isinstance(st, ast.Assign) and isinstance(st.value, ast.ListComp) and isinstance(st.value.elt, ast.List):
                    rt = ft.term(st.value.generators[0].iter, n.id)
                    sites.append(("allocation of the level lists", rt[2][0] if rt[0] == "call" and rt[1] == "range" and len(rt[2]) == 1 else rt, st))
            allocs = [x for x in sites if x[0].startswith("allocation")]
            alloc_names0 = {tg.id for _w, _t, st_ in allocs for tg in st_.targets if isinstance(tg, ast.Name)}
            for n in ft.cfg.nodes:
                st = n.stmt
                # a loop over the levels: a top-level `for v in range(X)` whose body addresses a level list by v (a padding loop that
                # merely repeats N - len(S) times is not one)
                if n.kind == "for" and isinstance(st.iter, ast.Call) and dotted(st.iter.func) == "range" and len(st.iter.args) == 1 and \
                        not any(isinstance(a, (ast.For, ast.While)) for a in ancestors(st)) and isinstance(st.target, ast.Name):
                    v_ = st.target.id
                    by_level = any(isinstance(x, ast.Subscript) and isinstance(x.value, ast.Name) and x.value.id in alloc_names0 and
                                   any(isinstance(y, ast.Name) and y.id == v_ for y in ast.walk(x.slice)) for b_ in st.body for x in ast.walk(b_))
                    if by_level:
                        sites.append(("level loop", ft.term(st.iter.args[0], n.id), st))
            r4.require(len(allocs) >= 1 and len(sites) >= 2, enc, "level sites",
                       "%s: expected the allocation of the level lists and at least one loop over the levels, found %d site(s)" % (s.name, len(sites)))
            alloc_names = {tg.id for _w, _t, st in allocs for tg in st.targets if isinstance(tg, ast.Name)}
            for what, term, st in sites:
                desc = {"scheme": s.name, "site": what, "range": show(term, maxdepth=5)[:100]}
                # len(<the allocated list of level lists>) is t+1 by the allocation site's own obligation
                by_len = term[0] == "call" and term[1] == "len" and len(term[2]) == 1 and term[2][0][0] == "cont" and term[2][0][1] in alloc_names
                if term == want or (by_len and what != "allocation of the level lists"):
                    r4.ok(desc)
                else:
                    r4.fail_fn(enc, st, "%s covers t+1 levels" % what,
                               "%s: the %s runs over range(%s); a list of 2^j postings is stored at level j <= t, so t+1 levels (0..t) are needed: a keyword "
                               "owning 2^t postings (e.g. a one-keyword database of 2^k identifiers, or N = 1) indexes past the end" % (s.name, what, show(term, maxdepth=4)[:80]), witness=desc)
        if s.name == "ANSS16.Scheme3":
            # width of the encrypted list size: n_w <= 2^t needs t+1 bits
            tdefs = _level_count_defs(ft)
            t_term = ft.def_term(tdefs[0]) if tdefs else None
            widths = []
            for n in ft.cfg.nodes:
                if n.stmt is None or n.ast is None:
                    continue
                for c in ast.walk(n.stmt if n.kind != "test" else n.ast):
                    if isinstance(c, ast.Call) and (dotted(c.func) or "").endswith("int_to_bytes"):
                        ct = ft.term(c, n.id)
                        if ct[0] == "call" and len(ct[2]) == 2:
                            widths.append((ct[2][1], c))
            r4.require(bool(widths), enc, "encoded list size", "ANSS16: the list size is no longer encoded with a fixed width")
            want = ("call", "math.ceil", (("binop", "Div", ("binop", "Add", t_term, ("const", 1)), ("const", 8)),), ())
            for w, c in widths:
                r4.require(w == want, enc, "list-size width holds 2^t",
                           "ANSS16: the list size n_w <= 2^t is encoded in %s bytes; t+1 bits (ceil((t+1)/8) bytes) are needed, otherwise a list of 256, 65536, ... "
                           "postings (or N = 1) raises OverflowError" % show(w, maxdepth=5)[:80], c)
        if s.name == "CJJ14.PiPtr":
            _check_piptr_pointer_width(repo, r4, s, enc, ft)
        if s.name == "DP17.Pi":
            # recognised by shape, whatever the locals are called: l = ceil(log2 N); spacing = ceil(l / <count>); levels l - i * spacing
            from ..terms import walk as _walk
            N_ = ("call", "toolkit/database_utils.py::get_total_size", (("param", enc.params[2]),), ())
            lt = ("call", "math.ceil", (("call", "math.log2", (N_,), ()),), ())
            seen_terms = []
            for d in ft.defs:
                if d.kind != "assign":
                    continue
                try:
                    seen_terms.append((d, ft.def_term(d)))
                except Exception:
                    continue
            divs = {}
            for d, tt in seen_terms:
                for x in _walk(tt):
                    if isinstance(x, tuple) and len(x) == 4 and x[0] == "binop" and x[1] in ("Div", "FloorDiv") and x[2] == lt:
                        divs.setdefault(x[3], d)
            if r4.require(bool(divs), enc, "DP17 level spacing", "DP17: the level spacing ceil(l / s) (l = ceil(log2 N), s = number of stored levels) vanished"):
                for dv, d in sorted(divs.items(), key=lambda kv: repr(kv[0])):
                    pos = dv[0] == "call" and dv[1] == "max" and any(a == ("const", 1) for a in dv[2])
                    r4.require(pos, enc, "DP17 divisor positive",
                               "DP17: p = ceil(l / s) divides by s = %s, which is 0 for a one-posting database (l = 0): ZeroDivisionError" % show(dv, maxdepth=4)[:80], d.stmt)
                lv = [d for d, tt in seen_terms if any(isinstance(x, tuple) and len(x) == 4 and x[0] == "binop" and x[1] == "Sub" and x[2] == lt and
                                                       isinstance(x[3], tuple) and x[3][:2] == ("binop", "Mult") for x in _walk(tt))]
                r4.require(bool(lv), enc, "DP17 levels list", "DP17: the list of stored levels (l - i * p) vanished")
            check_dp17_level_choice(repo, r4, s)


def _num_eval(t, env):
    """Numeric value of an arithmetic derivation term for the assignment env {term: number}; raises ValueError when not understood."""
    import math
    if t in env:
        return env[t]
    tag = t[0]
    if tag == "const" and isinstance(t[1], (int, float)) and not isinstance(t[1], bool):
        return t[1]
    if tag == "binop":
        a, b = _num_eval(t[2], env), _num_eval(t[3], env)
        ops = {"Add": lambda: a + b, "Sub": lambda: a - b, "Mult": lambda: a * b, "Div": lambda: a / b, "FloorDiv": lambda: a // b, "Mod": lambda: a % b,
               "Pow": lambda: a ** b if abs(b) < 64 else (_ for _ in ()).throw(ValueError()), "LShift": lambda: a << b, "RShift": lambda: a >> b}
        if t[1] in ops:
            return ops[t[1]]()
    if tag == "unop" and t[1] == "USub":
        return -_num_eval(t[2], env)
    if tag == "call" and t[1] in ("math.ceil", "math.floor", "math.log2", "int", "abs") and len(t[2]) == 1:
        v = _num_eval(t[2][0], env)
        return {"math.ceil": math.ceil, "math.floor": math.floor, "math.log2": math.log2, "int": int, "abs": abs}[t[1]](v)
    if tag == "call" and t[1] in ("max", "min") and t[2]:
        vals = [_num_eval(a, env) for a in t[2]]
        return max(vals) if t[1] == "max" else min(vals)
    if tag == "mcall" and t[2] == "bit_length" and not t[3]:
        return int(_num_eval(t[1], env)).bit_length()
    raise ValueError("not arithmetic: %r" % (tag,))


def _check_piptr_pointer_width(repo, r4, s, enc, ft):
    """PiPtr encodes positions 1 .. A_len - 1 of the array with a width computed from A_len: for every array length (evaluated for
    2 .. 70000, which covers the boundaries 256 and 65536) the largest position must fit into that many bytes."""
    alloc = None
    for n in ft.cfg.nodes:
        st = n.stmt
        if n.kind == "stmt" and isinstance(st, ast.Assign) and isinstance(st.value, ast.BinOp) and isinstance(st.value.op, ast.Mult):
            for lst, cnt in ((st.value.left, st.value.right), (st.value.right, st.value.left)):
                if isinstance(lst, ast.List) and len(lst.elts) == 1 and isinstance(lst.elts[0], ast.Constant) and lst.elts[0].value is None:
                    alloc = ft.term(cnt, n.id)
    widths = []
    for n in ft.cfg.nodes:
        if n.stmt is None or n.ast is None:
            continue
        for c in ast.walk(n.stmt if n.kind != "test" else n.ast):
            if isinstance(c, ast.Call) and (dotted(c.func) or "").endswith("int_to_bytes"):
                ct = ft.term(c, n.id)
                if ct[0] == "call" and len(ct[2]) == 2 and any(isinstance(x, tuple) and x and x[0] == "mcall" and x[2] == "pop" for x in walk(ct[2][0])):
                    widths.append((ct[2][1], c))
    if not r4.require(alloc is not None and bool(widths), enc, "PiPtr pointer width found", "PiPtr: the array allocation / the fixed-width encoding of array positions vanished"):
        return
    for w, c in widths:
        bad = None
        try:
            for alen in list(range(2, 1200)) + list(range(65000, 66100)) + [2 ** 24 - 1, 2 ** 24, 2 ** 24 + 1]:
                width = _num_eval(w, {alloc: alen})
                if not (isinstance(width, int) and width >= 1 and (alen - 1) < 256 ** width):
                    bad = (alen, width)
                    break
        except (ValueError, ZeroDivisionError, OverflowError, TypeError) as e:
            bad = ("?", str(e)[:40])
        desc = {"scheme": s.name, "width": show(w, maxdepth=5)[:100]}
        if bad is None:
            r4.ok(desc)
        else:
            r4.fail_fn(enc, c, "pointer width holds every position",
                       "PiPtr: positions 1 .. |A| - 1 are encoded in %s bytes; for |A| = %s that is %s byte(s), too few for position %s: EDBSetup raises OverflowError "
                       "(or a pointer is truncated) for a database with exactly that many blocks" % (show(w, maxdepth=5)[:80], bad[0], bad[1], bad[0] - 1 if isinstance(bad[0], int) else "?"), witness=desc)


def check_dp17_level_choice(repo, r4, s):
    """The level i for a list is the smallest stored level with L * 2^i >= |D(w)|: the list length takes part in that comparison as it is.
    Dividing / shifting the length first (|D(w)| // L) rounds away the remainder, the list is then cut into more than L chunks and the
    search, which probes L counters, silently drops the rest."""
    fa = s.cls.methods.get("_find_adjacent_i")
    if fa is None:
        r4.fail(s.structures.rel, s.name, 0, "DP17 level choice", "DP17: _find_adjacent_i vanished")
        return
    n = fa.params[1]
    from ..model import inline_locals
    bad = None
    for x in ast.walk(fa.node):
        if isinstance(x, ast.BinOp) and isinstance(x.op, (ast.FloorDiv, ast.Div, ast.RShift, ast.Mod)):
            l_ = inline_locals(fa.node, x.left)
            if any(isinstance(y, ast.Name) and y.id == n for y in ast.walk(l_)):
                bad = x
    compared = any(isinstance(c, ast.Compare) and any(isinstance(y, ast.Name) and y.id == n for o in [c.left] + list(c.comparators) for y in ast.walk(inline_locals(fa.node, o)))
                   for c in ast.walk(fa.node)) or any(
        isinstance(c, ast.Call) and (dotted(c.func) or "").startswith("bisect") and any(isinstance(y, ast.Name) and y.id == n for a in c.args for y in ast.walk(inline_locals(fa.node, a)))
        for c in ast.walk(fa.node))
    if bad is not None:
        r4.fail_fn(fa, bad, "DP17 list length rounded",
                   "DP17._find_adjacent_i computes %s: the list length is rounded before the level is chosen, so a list of L*2^i + r postings (0 < r < L) gets level i, is cut into "
                   "more than L chunks and the search (which probes counters 1..L) silently drops identifiers" % short(bad))
    else:
        r4.require(compared, fa, "DP17 level chosen from the list length", "DP17._find_adjacent_i no longer compares the list length with L * 2^i")


# ----------------------------------------------------------------------------- self-test variants
from ..selftest import V  # noqa: E402

_PB = "schemes/CJJ14/PiBas/construction.py"
VARIANTS = [
    V("pibas-trap-domain-byte", "fire", "R1.1", [(_PB, "PiBas._Trap", "K1 = self.config.prf_f(K, b'\\x01' + keyword)", "K1 = self.config.prf_f(K, b'\\x03' + keyword)")]),
    V("pibas-search-counter-from-1", "fire", "R1.1", [(_PB, "PiBas._Search", "        c = 0\n", "        c = 1\n")]),
    V("pibas-token-keys-swapped", "fire", "R1.1", [(_PB, "PiBas._Trap", "return PiBasToken(K1, K2)", "return PiBasToken(K2, K1)")]),
    V("pipack-search-label-with-width", "fire", "R1.1", [("schemes/CJJ14/PiPack/construction.py", "PiPack._Search",
      "addr = self.config.prf_f(K1, int_to_bytes(c))", "addr = self.config.prf_f(K1, int_to_bytes(c, 4))")]),
    V("ct14-trap-split-at-k-prime", "fire", "R1.1", [("schemes/CT14/Pi/construction.py", "Pi._Trap",
      "K0, K1 = K0_concat_K1[:self.config.param_k], K0_concat_K1[self.config.param_k:]", "K0, K1 = K0_concat_K1[:self.config.param_k_prime], K0_concat_K1[self.config.param_k_prime:]")]),
    V("dp17-search-counter-from-0", "fire", "R1.1", [("schemes/DP17/Pi/construction.py", "Pi._Search",
      "for count in range(1, self.config.param_L + 1):", "for count in range(self.config.param_L):")]),
    V("dp17-mask-uses-tag", "fire", "R1.1", [("schemes/DP17/Pi/construction.py", "Pi._Search",
      "i_concat_offset = bytes_xor(evalue, self.config.hash_h(vtag + int_to_bytes(count)))", "i_concat_offset = bytes_xor(evalue, self.config.hash_h(tag + int_to_bytes(count)))")]),
    V("sse1-trap-uses-k2-for-label", "fire", "R1.1", [("schemes/CGKO06/SSE1/construction.py", "SSE1._Trap",
      "return SSE1Token(bytes(self.config.prp_pi(Bitset(K3, length=self.config.param_k_bits),", "return SSE1Token(bytes(self.config.prp_pi(Bitset(K2, length=self.config.param_k_bits),")]),
    V("sse1-next-pointer-skips", "fire", "R1.1", [("schemes/CGKO06/SSE1/construction.py", "SSE1._Enc",
      "Bitset(ctr + 1, length=self.config.param_log2_s)", "Bitset(ctr + 2, length=self.config.param_log2_s)")]),
    V("anss16-trap-split-order", "fire", "R1.1", [("schemes/ANSS16/Scheme3/construction.py", "Pi._Trap",
      "        return PiToken(li, Ki, li_prime, Ki_prime)", "        return PiToken(li_prime, Ki, li, Ki_prime)")]),
    V("pi2lev-medium-boundary-strict", "fire", "R1.3", [("schemes/CJJ14/Pi2Lev/construction.py", "Pi2Lev._Enc",
      "elif self.config.param_b < len(database[keyword]) <= self.config.param_B * self.config.param_b_prime:", "elif self.config.param_b < len(database[keyword]) < self.config.param_B * self.config.param_b_prime:")]),
    V("pi2lev-reservation-threshold", "fire", "R1.3", [("schemes/CJJ14/Pi2Lev/construction.py", "Pi2Lev._Enc",
      "if len(database[keyword]) > self.config.param_b_prime * self.config.param_B:", "if len(database[keyword]) > self.config.param_B_prime * self.config.param_B:")]),
    V("pi2lev-pointer-blocks-with-b-prime", "fire", "R1.2", [("schemes/CJJ14/Pi2Lev/construction.py", "Pi2Lev._Enc",
      "                                                                               self.config.param_B_prime,\n", "                                                                               self.config.param_b_prime,\n")]),
    V("piptr-parse-count-wrong", "fire", "R1.2", [("schemes/CJJ14/PiPtr/construction.py", "PiPtr._Search",
      "self.config.ske.Decrypt(K2, index_block_cipher), self.config.param_b))", "self.config.ske.Decrypt(K2, index_block_cipher), self.config.param_B))")]),
    V("anss16-levels-range-t", "fire", "R1.4", [("schemes/ANSS16/Scheme3/construction.py", "Pi._Enc", "T_list = [[] for _ in range(t + 1)]", "T_list = [[] for _ in range(t)]")]),
    V("anss16-width-t-bits", "fire", "R1.4", [("schemes/ANSS16/Scheme3/construction.py", "Pi._Enc",
      "int_to_bytes(ni, math.ceil((t + 1) / 8))", "int_to_bytes(ni, math.ceil(t / 8))")]),
    V("dp17-divisor-zero", "fire", "R1.4", [("schemes/DP17/Pi/construction.py", "Pi._Enc",
      "s = max(1, math.ceil(l * self.config.param_actual_storage_level_ratio))", "s = math.ceil(l * self.config.param_actual_storage_level_ratio)")]),
    V("piptr-pointer-loop-breaks", "fire", "R1.5", [("schemes/CJJ14/PiPtr/construction.py", "PiPtr._Search",
      "            pass\n", "            if len(result) >= self.config.param_B:\n                break\n")]),
    V("ct14-writer-level-shifted", "fire", "R1.1", [("schemes/CT14/Pi/construction.py", "Pi._Enc", "                L_list[j].append((l, d))", "                L_list[max(j - 1, 0)].append((l, d))")]),
    V("ct14-reader-block-size", "fire", "R1.", [("schemes/CT14/Pi/construction.py", "Pi._Search",
      "parse_identifiers_from_block_given_entry_count_in_one_block(d, 2 ** i)", "parse_identifiers_from_block_given_entry_count_in_one_block(d, 2 ** (i + 1))")]),
    V("benign-rename-locals", "silent", None, [(_PB, "PiBas._Search", "            addr = self.config.prf_f(K1, int_to_bytes(c))\n            cipher = D.get(addr)",
      "            label = self.config.prf_f(K1, int_to_bytes(c))\n            cipher = D.get(label)")]),
    V("benign-for-count", "silent", None, [(_PB, "PiBas._Search",
      "        c = 0\n        while True:\n            addr = self.config.prf_f(K1, int_to_bytes(c))\n            cipher = D.get(addr)\n            if cipher is None:\n                break\n            result.append(self.config.ske.Decrypt(K2, cipher))\n            c += 1\n",
      "        import itertools\n        for c in itertools.count():\n            addr = self.config.prf_f(K1, int_to_bytes(c))\n            cipher = D.get(addr)\n            if cipher is None:\n                break\n            result.append(self.config.ske.Decrypt(K2, cipher))\n")]),
]
