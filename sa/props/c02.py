"""C02 - searching a keyword that is not in the database returns an empty result.

Decides the structural content of the property: on the path a miss takes no statement can raise
and nothing is added to the result.  Every load from an encrypted-database container in _Search is
classified (dict/list kind from how _Enc builds it; index derived from the token, from an earlier
hit, or from a range over the container) and the miss path of every token-indexed dictionary lookup
is explored on the CFG.  See DESIGN.md section 3, C02.
"""
import ast

from ..core import Rule
from ..model import AnalysisError, dotted, unparse, short, enclosing_stmt, ancestors
from ..cfg import cfg_of, calls_in_order
from ..terms import fn_terms, walk, show
from ..schemes import discover

EXPLANATION = ("For each of the nine _Search functions every load from an encrypted-database container is located (also "
               "inside comprehensions), its container kind is taken from how _Enc builds that container, and its index term "
               "(use-def reconstruction) is classified as token-derived, hit-derived or range-bounded.  Token-indexed "
               "dictionary lookups must be miss-tolerant (.get + None test, membership test, or try/except KeyError); the CFG "
               "is then explored under the assumption that the lookup missed: no use of the missed value, no raise, no "
               "decryption and no mutation of the result accumulator may be reachable before the walk ends, walks over "
               "consecutive labels must stop at the first miss, and list-kind containers may only be indexed by values "
               "obtained from a hit or by a bounded range.  DP17's trial decryption must reject foreign slots.")
ASSUMPTIONS = ["labels of absent keywords do not collide with stored labels (a property of the PRF/PRP, C15/C16)",
               "KeyError/IndexError are the only exceptions a container load raises"]


# ----------------------------------------------------------------------------- container shapes from _Enc
def shape_of(t, depth=0):
    """('dict'|'list'|None, element shape)"""
    if depth > 10 or not isinstance(t, tuple):
        return (None, None)
    tag = t[0]
    if tag == "call" and t[1].split(".")[-1] in ("build_from_list", "create_dictionary_from_list", "create_hash_table"):
        obj = _builder_object(t[1])
        if obj is not None:
            return ("object", obj)      # the builder hands out an instance of a repository class, not a dict
        return ("dict", (None, None))
    if tag == "cont":
        init = t[2]
        kind = None
        if init[0] == "dict" or (init[0] == "call" and init[1] == "dict"):
            kind = "dict"
        elif init[0] in ("list", "comp") or (init[0] == "call" and init[1] == "list") or (init[0] == "binop" and init[1] == "Mult"):
            kind = "list"
        elem = (None, None)
        if init[0] == "comp" and init[1] in ("ListComp", "GeneratorExp") and len(init) > 2:
            s0 = shape_of(init[2], depth + 1)
            if s0[0] is not None:
                elem = s0
        for (mk, subs, a, b, mn) in t[3]:
            v = None
            if mk in ("append", "add") and a:
                v = a[0]
            elif mk == "setitem":
                v = b
            if v is not None and not subs:
                s = shape_of(v, depth + 1)
                if s[0] is not None:
                    elem = s
        return (kind, elem)
    if tag in ("dict",):
        return ("dict", (None, None))
    if tag == "comp" and t[1] in ("ListComp", "GeneratorExp") and len(t) > 2:
        return ("list", shape_of(t[2], depth + 1))
    if tag in ("list", "comp"):
        return ("list", (None, None))
    if tag == "phi":
        for x in t[1]:
            s = shape_of(x, depth + 1)
            if s[0]:
                return s
    return (None, None)


_REPO = [None]
_BUILDER_MEMO = {}


def _builder_object(key):
    """The table builders (create_dictionary_from_list / create_hash_table / build_from_list) return a dict (or an EDB wrapping
    one).  If one of them returns an instance of another repository class instead, -> that class (a user-defined lookup
    structure whose miss behaviour has to be examined), else None."""
    repo = _REPO[0]
    if repo is None or "::" not in key:
        return None
    if key in _BUILDER_MEMO and _BUILDER_MEMO[key][0] is repo:
        return _BUILDER_MEMO[key][1]
    res = None
    rel, qual = key.split("::")
    try:
        fi = repo.func(rel, qual)
    except Exception:
        fi = None
    if fi is not None:
        ft = fn_terms(repo, fi)
        for n in ft.cfg.nodes:
            if n.kind == "return" and n.stmt.value is not None:
                try:
                    t = ft.term(n.stmt.value, n.id)
                except Exception:
                    continue
                for alt in (t[1] if t[0] == "phi" else [t]):
                    if alt[0] == "call" and isinstance(alt[1], str) and alt[1].endswith(".__init__") and "::" in alt[1]:
                        crel, cq = alt[1].split("::")
                        cname = cq.rsplit(".", 1)[0]
                        if cname.endswith("EncryptedDatabase") or (fi.cls is not None and cname == fi.cls.name):
                            continue     # build_from_list: cls(D, config)
                        try:
                            res = repo.cls(crel, cname)
                        except Exception:
                            res = None
    _BUILDER_MEMO[key] = (repo, res)
    return res


def check_custom_container(repo, rule, s, attr, ci):
    """A user-defined lookup structure stands in for the dict: every list / sequence subscript on its lookup paths
    (get, __getitem__, __contains__ and what they call on self) must be bound-checked or caught, otherwise the label of an
    absent keyword can raise IndexError instead of reporting a miss."""
    from ..facts import facts_of
    from ..cfg import cfg_of
    todo = [m for m in ("get", "__getitem__", "__contains__") if m in ci.methods]
    seen = set()
    n = 0
    if not todo:
        rule.fail(ci.module.rel, ci.name, ci.node.lineno, "custom container %s has no lookup" % attr,
                  "%s: the container %s is now a %s, which defines neither get, __getitem__ nor __contains__" % (s.name, attr, ci.name))
        return
    while todo:
        mn = todo.pop()
        if mn in seen or mn not in ci.methods:
            continue
        seen.add(mn)
        fi = ci.methods[mn]
        for c in ast.walk(fi.node):
            if isinstance(c, ast.Call) and isinstance(c.func, ast.Attribute) and isinstance(c.func.value, ast.Name) and c.func.value.id == "self":
                todo.append(c.func.attr)
        F = facts_of(fi)
        cfg = cfg_of(fi.node)
        for x in ast.walk(fi.node):
            if not (isinstance(x, ast.Subscript) and isinstance(x.ctx, ast.Load) and isinstance(x.value, ast.Attribute) and
                    isinstance(x.value.value, ast.Name) and x.value.value.id == "self"):
                continue
            if isinstance(x.slice, (ast.Constant, ast.Slice)):
                continue
            n += 1
            idx, cont = unparse(x.slice), unparse(x.value)
            ok = False
            # (a) caught
            from ..model import ancestors as _anc
            for a in _anc(x):
                if isinstance(a, ast.Try) and any(h.type is None or any(nm in unparse(h.type) for nm in ("IndexError", "LookupError", "Exception")) for h in a.handlers):
                    ok = True
                # (c) guarded inside the same condition:  idx < len(cont) and cont[idx] ...
                if isinstance(a, ast.BoolOp) and isinstance(a.op, ast.And):
                    for v in a.values:
                        if any(y is x for y in ast.walk(v)):
                            break
                        if isinstance(v, ast.Compare) and len(v.ops) == 1:
                            l_, r_ = unparse(v.left), unparse(v.comparators[0])
                            if (isinstance(v.ops[0], ast.Lt) and l_ == idx and r_ == "len(%s)" % cont) or \
                                    (isinstance(v.ops[0], ast.Gt) and r_ == idx and l_ == "len(%s)" % cont) or \
                                    (isinstance(v.ops[0], ast.NotEq) and {l_, r_} == {idx, "len(%s)" % cont}):
                                ok = True
            # (b) established on every path to the subscript
            if not ok:
                try:
                    nids = cfg.node_of_expr(x)
                    for nid in nids:
                        f = F.at(nid) or ()
                        for (k, t) in f:
                            if k[0] == "<" and k[1] == idx and k[2] == "len(%s)" % cont and t:
                                ok = True
                            if k[0] == "==" and {k[1], k[2]} == {idx, "len(%s)" % cont} and not t:
                                ok = True
                except Exception:
                    pass
            desc = {"scheme": s.name, "container": attr, "class": ci.name, "method": mn, "subscript": unparse(x)}
            if ok:
                rule.ok(desc)
            else:
                rule.fail_fn(fi, x, "unchecked subscript in the lookup of %s" % attr,
                             "%s: the container %s is a %s whose %s evaluates %s without establishing %s < len(%s): for the label of an absent keyword (e.g. one that "
                             "sorts after every stored label) this raises IndexError instead of reporting a miss" % (s.name, attr, ci.name, mn, unparse(x), idx, cont), witness=desc)
    if n == 0:
        rule.ok({"scheme": s.name, "container": attr, "class": ci.name, "note": "no computed subscripts on its lookup paths"})


def edb_shapes(repo, s):
    """attr name -> shape, from the EDB constructor call(s) at the end of _Enc (or the builder classmethod)."""
    _REPO[0] = repo
    enc = s.method("_Enc")
    ft = fn_terms(repo, enc)
    pos = s.ctor_positional(s.edb_cls)
    shapes = {}
    for n in ft.cfg.nodes:
        if n.kind == "return" and n.stmt.value is not None:
            t = ft.term(n.stmt.value, n.id)
            if t[0] == "call" and t[1].endswith("EncryptedDatabase.__init__"):
                for i, a in enumerate(t[2]):
                    if i < len(pos) and pos[i]:
                        shapes[pos[i]] = shape_of(a)
            elif t[0] == "call" and t[1].split(".")[-1] in ("build_from_list",):
                # classmethod builds cls(D, config): the single dict attribute
                if pos and pos[0]:
                    shapes[pos[0]] = ("dict", (None, None))
    # annotations as a fallback
    init = s.edb_cls.methods.get("__init__")
    _, pmap = s.ctor_map(s.edb_cls)
    for a in init.node.args.args[1:]:
        attr = pmap.get(a.arg)
        if attr and attr not in shapes and a.annotation is not None:
            ann = unparse(a.annotation).lower()
            if "dict" in ann:
                shapes[attr] = ("dict", (None, None))
            elif "list" in ann:
                shapes[attr] = ("list", (None, None))
    return shapes


# ----------------------------------------------------------------------------- accesses in _Search
class Access:
    def __init__(self, node, expr, base_expr, key_expr, form):
        self.node, self.expr, self.base_expr, self.key_expr, self.form = node, expr, base_expr, key_expr, form
        self.path = None  # (attr, depth)
        self.kind = None
        self.key_term = None
        self.cls = None


def edb_path(t, edb_param, depth=0):
    """term of a container expression -> (attr name, number of subscripts below it) or None"""
    if depth > 20 or not isinstance(t, tuple):
        return None
    if t[0] == "attr" and t[1] == ("param", edb_param):
        return (t[2], 0)
    if t[0] in ("sub", "elem"):
        p = edb_path(t[1], edb_param, depth + 1)
        return None if p is None else (p[0], p[1] + 1)
    if t[0] == "mcall" and t[2] in ("get", "__getitem__"):
        p = edb_path(t[1], edb_param, depth + 1)
        return None if p is None else (p[0], p[1] + 1)
    if t[0] == "proj":
        return edb_path(t[1], edb_param, depth + 1)
    if t[0] == "phi":
        for x in t[1]:
            p = edb_path(x, edb_param, depth + 1)
            if p:
                return p
    if t[0] == "cont":
        return edb_path(t[2], edb_param, depth + 1)
    return None


def shape_at(shapes, path):
    sh = shapes.get(path[0], (None, None))
    for _ in range(path[1]):
        sh = sh[1] if sh and sh[1] else (None, None)
    return sh


def depends_on_token(t, tk_param):
    return any(isinstance(x, tuple) and x == ("param", tk_param) for x in walk(t))


_RANK = {"indep": 0, "token": 1, "hit": 2}


def index_classes(t, edb_param, tk_param, depth=0, memo=None):
    """Which kinds of values an index term can take: subset of {'indep','token','hit'} (phi alternatives kept apart)."""
    if memo is None:
        memo = {}
    if not isinstance(t, (tuple, frozenset)) or depth > 60:
        return {"indep"}
    k = id(t)
    if k in memo and memo[k][0] is t:
        return memo[k][1]
    memo[k] = (t, {"indep"})
    if isinstance(t, tuple) and t and t[0] in ("sub", "mcall", "elem") and edb_path(t, edb_param) is not None:
        res = {"hit"}
    elif t == ("param", tk_param):
        res = {"token"}
    elif isinstance(t, tuple) and t and t[0] == "phi":
        res = set()
        for x in t[1]:
            res |= index_classes(x, edb_param, tk_param, depth + 1, memo)
    elif isinstance(t, tuple) and t and t[0] == "cont":
        # a local container: what was put into it
        res = index_classes(t[2], edb_param, tk_param, depth + 1, memo)
        put = set()
        for mut in t[3]:
            for part in mut[1:4]:
                if isinstance(part, tuple):
                    put |= index_classes(part, edb_param, tk_param, depth + 1, memo)
        if put - {"indep"}:
            res = (res - {"indep"}) | (put - {"indep"}) if res == {"indep"} else res | (put - {"indep"})
    else:
        cur = {"indep"}
        for c in t:
            if isinstance(c, (tuple, frozenset)):
                cs = index_classes(c, edb_param, tk_param, depth + 1, memo)
                cur = {a if _RANK[a] >= _RANK[b] else b for a in cur for b in cs}
        res = cur
    memo[k] = (t, res)
    return res


def peel_safe(ft, acc, fi):
    """First-iteration peeling: the access sits on the false side of `<counter> == <start>` and the variable its index
    comes from has been reassigned whenever that counter has been incremented."""
    cfg = ft.cfg
    nid = acc.node.id
    for tnode in cfg.nodes:
        cmp_, pol = tnode.ast if tnode.kind == "test" else None, True
        while isinstance(cmp_, ast.UnaryOp) and isinstance(cmp_.op, ast.Not):
            cmp_, pol = cmp_.operand, not pol
        if tnode.kind != "test" or not isinstance(cmp_, ast.Compare) or len(cmp_.ops) != 1:
            continue
        if not isinstance(cmp_.ops[0], (ast.Eq, ast.NotEq)):
            continue
        cvar, other_side = cmp_.left, cmp_.comparators[0]
        if not isinstance(cvar, ast.Name) and isinstance(other_side, ast.Name):
            cvar, other_side = other_side, cvar      # `0 == counter`
        if not isinstance(cvar, ast.Name):
            continue
        cterm = ft.name_term(cvar.id, tnode.id)
        if cterm[0] != "counter":
            continue
        rhs = ft.term(other_side, tnode.id)
        if rhs != ("const", cterm[1]):
            continue
        later_edge = isinstance(cmp_.ops[0], ast.NotEq) == pol  # edge label on which counter != start
        succ = [b for (b, lab) in cfg.succ[tnode.id] if lab is later_edge]
        if not succ or not any(b == nid or cfg.can_reach(b, nid, avoid={tnode.id}) for b in succ):
            continue
        if any((b == nid or cfg.can_reach(b, nid, avoid={tnode.id})) for (b, lab) in cfg.succ[tnode.id] if lab is (not later_edge)):
            continue
        # variables the index comes from
        names = {x.id for x in ast.walk(acc.key_expr) if isinstance(x, ast.Name)}
        roots = set()
        for nm in names:
            roots.add(nm)
        # include the iterated variable of an enclosing comprehension
        for a in ancestors(acc.expr):
            if isinstance(a, (ast.GeneratorExp, ast.ListComp)):
                for g in a.generators:
                    roots |= {x.id for x in ast.walk(g.iter) if isinstance(x, ast.Name)}
        incs = [d.node for d in ft.defs if d.var == cvar.id and d.kind == "aug"]
        ok = True
        for v in roots:
            ids = ft.reaching(v, nid)
            inits = [ft.defs[i] for i in ids if ft.defs[i].kind in ("assign", "param")]
            for d0 in inits:
                cls = index_classes(ft.def_term(d0), fi.params[1], fi.params[2])
                if "token" not in cls:
                    continue
                other = {d.node for d in ft.defs if d.var == v and d.id != d0.id}
                for inc in incs:
                    # d0 still live at the increment and afterwards reaches the access without a redefinition of v
                    if (cfg.can_reach(d0.node, inc, avoid=other) or d0.node == inc) and cfg.can_reach(inc, nid, avoid=other):
                        ok = False
        if ok:
            return True
    return False


def contains_edb_load(t, edb_param):
    for x in walk(t):
        if isinstance(x, tuple) and x and x[0] in ("sub", "mcall") and edb_path(x, edb_param) is not None:
            return True
    return False


def collect_accesses(repo, s, fi, shapes):
    ft = fn_terms(repo, fi)
    cfg = ft.cfg
    edb_param, tk_param = fi.params[1], fi.params[2]
    out = []
    for n in cfg.nodes:
        if n.stmt is None or n.ast is None:
            continue
        root = n.ast if n.kind == "test" else n.stmt
        exprs = [root] if n.kind in ("stmt", "test", "return") else ([n.stmt.iter] if n.kind == "for" else [])
        for ex in exprs:
            for sub in ast.walk(ex):
                acc = None
                if isinstance(sub, ast.Subscript) and isinstance(sub.ctx, ast.Load) and not isinstance(sub.slice, ast.Slice):
                    acc = Access(n, sub, sub.value, sub.slice, "subscript")
                elif isinstance(sub, ast.Call) and isinstance(sub.func, ast.Attribute) and sub.func.attr == "get" and sub.args:
                    acc = Access(n, sub, sub.func.value, sub.args[0], "get")
                    acc.default = sub.args[1] if len(sub.args) > 1 else None
                elif isinstance(sub, ast.Compare) and len(sub.ops) == 1 and isinstance(sub.ops[0], (ast.In, ast.NotIn)):
                    acc = Access(n, sub, sub.comparators[0], sub.left, "member")
                if acc is None:
                    continue
                env = _comp_env(ft, sub, n.id)
                bt = ft.term(acc.base_expr, n.id, env)
                p = edb_path(bt, edb_param)
                if p is None:
                    continue
                acc.path = p
                acc.kind = shape_at(shapes, p)[0]
                acc.key_term = ft.term(acc.key_expr, n.id, env)
                out.append(acc)
    return ft, out


def _comp_env(ft, node, nid):
    """Environment binding comprehension variables for an expression nested in comprehensions."""
    env = {}
    chain = []
    for a in ancestors(node):
        if isinstance(a, (ast.ListComp, ast.GeneratorExp, ast.SetComp, ast.DictComp)):
            chain.append(a)
        if isinstance(a, ast.stmt):
            break
    from ..terms import elem_of, proj, _targets
    for comp in reversed(chain):
        for g in comp.generators:
            it = ft.term(g.iter, nid, env)
            for name, path in _targets(g.target):
                el = elem_of(it)
                for p in path:
                    el = proj(el, p)
                env[name] = el
    return env


# ----------------------------------------------------------------------------- miss exploration
def _none_test_value(e, var):
    """truth value of test expression `e` when `var` is None (None if it does not decide)."""
    if isinstance(e, ast.Compare) and len(e.ops) == 1 and isinstance(e.left, ast.Name) and e.left.id == var \
            and isinstance(e.comparators[0], ast.Constant) and e.comparators[0].value is None:
        if isinstance(e.ops[0], (ast.Is, ast.Eq)):
            return True
        if isinstance(e.ops[0], (ast.IsNot, ast.NotEq)):
            return False
    if isinstance(e, ast.Name) and e.id == var:
        return False
    if isinstance(e, ast.UnaryOp) and isinstance(e.op, ast.Not):
        v = _none_test_value(e.operand, var)
        return None if v is None else not v
    if isinstance(e, ast.BoolOp):
        vals = [_none_test_value(v, var) for v in e.values]
        if isinstance(e.op, ast.Or):
            if any(v is True for v in vals):
                return True
            return False if all(v is False for v in vals) else None
        if any(v is False for v in vals):
            return False
        return True if all(v is True for v in vals) else None
    return None


def _member_test_value(ft, e, path, nid, edb_param):
    """truth value of a test when the key is NOT in the container at `path`."""
    if isinstance(e, ast.Compare) and len(e.ops) == 1 and isinstance(e.ops[0], (ast.In, ast.NotIn)):
        bt = ft.term(e.comparators[0], nid, _comp_env(ft, e, nid))
        if edb_path(bt, edb_param) == path:
            return isinstance(e.ops[0], ast.NotIn)
    if isinstance(e, ast.Call) and isinstance(e.func, ast.Name) and e.func.id in ("any", "all") and e.args and \
            isinstance(e.args[0], (ast.GeneratorExp, ast.ListComp)):
        inner = _member_test_value(ft, e.args[0].elt, path, nid, edb_param)
        if inner is None:
            return None
        # any(k not in D ...) is True on a miss; all(k in D ...) is False on a miss
        return inner if e.func.id == "any" else inner
    if isinstance(e, ast.UnaryOp) and isinstance(e.op, ast.Not):
        v = _member_test_value(ft, e.operand, path, nid, edb_param)
        return None if v is None else not v
    if isinstance(e, ast.BoolOp):
        vals = [_member_test_value(ft, v, path, nid, edb_param) for v in e.values]
        if isinstance(e.op, ast.Or):
            if any(v is True for v in vals):
                return True
            return False if all(v is False for v in vals) else None
        if any(v is False for v in vals):
            return False
        return True if all(v is True for v in vals) else None
    return None


def result_accumulators(fi):
    """names passed to <Scheme>Result(...) in return statements"""
    names = set()
    for r in ast.walk(fi.node):
        if isinstance(r, ast.Return) and isinstance(r.value, ast.Call) and (dotted(r.value.func) or "").endswith("Result"):
            for a in r.value.args:
                if isinstance(a, ast.Name):
                    names.add(a.id)
    return names


def in_keyerror_try(acc_node_stmt, expr):
    for a in ancestors(expr):
        if isinstance(a, ast.Try):
            in_body = any(x is expr for b in a.body for x in ast.walk(b))
            if in_body:
                for h in a.handlers:
                    names = []
                    if h.type is None:
                        return a, h
                    for x in ([h.type] if not isinstance(h.type, ast.Tuple) else h.type.elts):
                        names.append(dotted(x))
                    if any(nm in ("KeyError", "LookupError", "Exception", "BaseException") for nm in names):
                        return a, h
    return None, None


def _takewhile_not_none(fi, get_call):
    """`get_call` is the element of a generator / list comprehension whose only consumer is
    itertools.takewhile(lambda v: v is not None, <it>)."""
    comp = None
    for a in ancestors(get_call):
        if isinstance(a, (ast.GeneratorExp, ast.ListComp)) and a.elt is get_call:
            comp = a
            break
        if isinstance(a, ast.stmt):
            break
    if comp is None:
        return False

    def pred_ok(f):
        return isinstance(f, ast.Lambda) and len(f.args.args) == 1 and isinstance(f.body, ast.Compare) and len(f.body.ops) == 1 and \
            isinstance(f.body.ops[0], ast.IsNot) and isinstance(f.body.left, ast.Name) and f.body.left.id == f.args.args[0].arg and \
            isinstance(f.body.comparators[0], ast.Constant) and f.body.comparators[0].value is None
    par = getattr(comp, "_parent", None)
    if isinstance(par, ast.Call) and (dotted(par.func) or "").endswith("takewhile") and len(par.args) == 2 and par.args[1] is comp and pred_ok(par.args[0]):
        return True
    if isinstance(par, ast.Assign) and len(par.targets) == 1 and isinstance(par.targets[0], ast.Name):
        name = par.targets[0].id
        uses = [x for x in ast.walk(fi.node) if isinstance(x, ast.Name) and x.id == name and isinstance(x.ctx, ast.Load)]
        if len(uses) == 1:
            p2 = getattr(uses[0], "_parent", None)
            return isinstance(p2, ast.Call) and (dotted(p2.func) or "").endswith("takewhile") and len(p2.args) == 2 and p2.args[1] is uses[0] and pred_ok(p2.args[0])
    return False


def explore_miss(repo, s, fi, ft, acc, rule_use, rule_quiet, accs):
    """Explore the CFG from the lookup under the assumption that it missed."""
    cfg = ft.cfg
    edb_param = fi.params[1]
    accum = result_accumulators(fi)
    start = acc.node
    var = None
    if acc.form == "get":
        # value must be bound to a name (or tested directly)
        st = start.stmt
        if start.kind == "stmt" and isinstance(st, ast.Assign) and st.value is acc.expr and len(st.targets) == 1 and isinstance(st.targets[0], ast.Name):
            var = st.targets[0].id
        elif start.kind == "test":
            var = None  # `if C.get(k) is None` style: the test itself decides
        elif _takewhile_not_none(fi, acc.expr):
            # the lookups are consumed through itertools.takewhile(lambda v: v is not None, ...): the walk ends at the first miss and the
            # missing value itself is never used
            rule_use.ok({"function": fi.key, "lookup": short(acc.expr), "miss": "takewhile(... is not None)"})
            rule_quiet.ok({"function": fi.key, "lookup": short(acc.expr), "miss": "ends the walk"})
            return
        else:
            rule_use.fail_fn(fi, acc.expr, "lookup %s.get result used inline" % acc.path[0],
                             "the result of %s is used without a miss test: %s" % (short(acc.expr), short(start.stmt)))
            return
        default = getattr(acc, "default", None)
        if default is not None and not (isinstance(default, ast.Constant) and default.value is None):
            rule_use.fail_fn(fi, acc.expr, "lookup %s.get with non-None default" % acc.path[0],
                             "a missing entry is replaced by the default %s instead of ending the search" % short(default))
            return
    if acc.form == "member" and start.kind != "test":
        # a membership filter inside a comprehension: `[C[k] for k in tokens if k in C]` keeps scanning after a miss
        for a in ancestors(acc.expr):
            if isinstance(a, (ast.ListComp, ast.GeneratorExp, ast.SetComp, ast.DictComp)):
                for g in a.generators:
                    if any(x is acc.expr for c in g.ifs for x in ast.walk(c)):
                        it = ft.term(g.iter, start.id)
                        cl = index_classes(it, edb_param, fi.params[2])
                        if "token" in cl:
                            rule_quiet.fail_fn(fi, acc.expr, "walk continues after miss of %s" % acc.path[0],
                                               "the comprehension filters on %s and keeps scanning the token's labels after the first miss "
                                               "(labels are stored consecutively, so everything after the first gap belongs to something else)" % short(acc.expr))
                            return
                break
        rule_use.ok({"scheme": s.name, "lookup": short(acc.expr), "container": acc.path[0], "form": "member (non-test)", "line": start.line})
        return
    # BFS with refinement
    seen = set()
    stack = []

    def push_succ(nid, first=False):
        n = cfg.nodes[nid]
        for (b, lab) in cfg.succ[nid]:
            if isinstance(lab, str) and lab.startswith("exc"):
                continue
            if n.kind == "test" and isinstance(lab, bool):
                v = None
                if var is not None:
                    v = _none_test_value(n.ast, var)
                if v is None:
                    v = _member_test_value(ft, n.ast, acc.path, nid, edb_param)
                if v is not None and v != lab:
                    continue
            if b not in seen:
                seen.add(b)
                stack.append(b)
    if acc.form == "member":
        # start at the miss edge of the test that contains the membership expression
        push_succ(start.id)
    else:
        push_succ(start.id)
    loop_headers = set()
    for a in ancestors(acc.expr):
        if isinstance(a, (ast.While, ast.For)):
            loop_headers |= set(cfg.nodes_of(a))
    walk_loop = None
    for a in ancestors(acc.expr):
        if isinstance(a, ast.While) and isinstance(a.test, ast.Constant) and a.test.value:
            walk_loop = a
            break
        if isinstance(a, ast.For):
            it = ft.term(a.iter, cfg.nodes_of(a)[0])
            if depends_on_token(it, fi.params[2]) and not contains_edb_load(it, edb_param):
                walk_loop = a
            break
    problems = 0
    while stack:
        nid = stack.pop()
        n = cfg.nodes[nid]
        if n.stmt is not None and n.ast is not None and nid != start.id:
            root = n.ast if n.kind == "test" else n.stmt
            hdr = root
            if n.kind == "for":
                hdr = n.stmt.iter
            elif n.kind == "with":
                hdr = None
            if hdr is not None:
                # uses of the missed value
                if var is not None:
                    uses = [x for x in ast.walk(hdr) if isinstance(x, ast.Name) and x.id == var and isinstance(x.ctx, ast.Load)]
                    if uses and _none_test_value(n.ast, var) is None if n.kind == "test" else uses:
                        # still bound to the missed lookup?
                        ids = ft.reaching(var, nid)
                        same = any(ft.defs[i].node == start.id for i in ids)
                        if same:
                            problems += 1
                            rule_use.fail_fn(fi, n.stmt, "missed value of %s used" % acc.path[0],
                                             "when %s misses, %r is None and is used at line %d: %s" % (short(acc.expr), var, n.line, short(n.stmt)))
                            continue
                # bare subscript of the same container on the miss path (membership form)
                for a2 in accs:
                    if a2.node.id == nid and a2.form == "subscript" and a2.path == acc.path and a2.kind == "dict" and acc.form == "member":
                        t, h = in_keyerror_try(n.stmt, a2.expr)
                        if t is None:
                            problems += 1
                            rule_use.fail_fn(fi, a2.expr, "subscript %s reachable on miss" % acc.path[0],
                                             "%s is evaluated although the membership test failed" % short(a2.expr))
                # quietness: only inside the walk (before the miss path leaves the loop / function)
                if nid in miss_exclusive(cfg, start, var, ft, acc, edb_param):
                    for x in ast.walk(hdr):
                        if isinstance(x, ast.Raise):
                            problems += 1
                            rule_quiet.fail_fn(fi, n.stmt, "raise on miss of %s" % acc.path[0], "the miss branch raises: %s" % short(n.stmt))
                        if isinstance(x, ast.Call) and isinstance(x.func, ast.Attribute):
                            base = x.func.value
                            if x.func.attr in ("append", "extend", "add", "insert", "update") and isinstance(base, ast.Name) and base.id in accum:
                                problems += 1
                                rule_quiet.fail_fn(fi, n.stmt, "result mutated on miss of %s" % acc.path[0],
                                                   "the miss branch adds to the result: %s" % short(n.stmt))
                            if x.func.attr == "Decrypt":
                                problems += 1
                                rule_quiet.fail_fn(fi, n.stmt, "decrypt on miss of %s" % acc.path[0], "the miss branch decrypts: %s" % short(n.stmt))
                    if n.kind == "return" and n.stmt.value is not None:
                        v = n.stmt.value
                        okret = isinstance(v, ast.Call) and (dotted(v.func) or "").endswith("Result") and v.args and (
                            (isinstance(v.args[0], ast.Name) and v.args[0].id in accum) or
                            (isinstance(v.args[0], (ast.List, ast.Tuple, ast.Set)) and not v.args[0].elts) or
                            (isinstance(v.args[0], ast.Call) and dotted(v.args[0].func) in ("set", "list") and not v.args[0].args))
                        if not okret:
                            problems += 1
                            rule_quiet.fail_fn(fi, n.stmt, "miss returns something else", "on a miss _Search returns %s" % short(v))
            if n.kind == "raise_stmt" and nid in miss_exclusive(cfg, start, var, ft, acc, edb_param):
                problems += 1
                rule_quiet.fail_fn(fi, n.stmt, "raise on miss of %s" % acc.path[0], "the miss branch raises: %s" % short(n.stmt))
        # the walk must end at the first miss
        if walk_loop is not None and nid in loop_headers and nid in cfg.nodes_of(walk_loop):
            problems += 1
            rule_quiet.fail_fn(fi, acc.expr, "walk continues after miss of %s" % acc.path[0],
                               "after a miss of %s the loop at line %d goes on to the next label instead of ending the walk "
                               "(labels are stored consecutively, so everything after the first gap belongs to something else)" % (
                                   short(acc.expr), walk_loop.lineno))
            continue
        push_succ(nid)
    if not problems:
        rule_use.ok({"scheme": s.name, "lookup": short(acc.expr), "container": acc.path[0], "form": acc.form, "line": acc.node.line})
        rule_quiet.ok()


_excl_cache = {}


def miss_exclusive(cfg, start, var, ft, acc, edb_param):
    """The block the miss selects: nodes inside the innermost loop around the lookup (or the whole function) that are
    reachable from the miss outcome, but not from the hit outcome, without passing the loop header again."""
    key = (id(cfg), start.id, var, acc.form)
    if key in _excl_cache:
        return _excl_cache[key]
    loop = None
    for a in ancestors(acc.expr):
        if isinstance(a, (ast.While, ast.For, ast.AsyncFor)):
            loop = a
            break
    region = None
    header = set()
    if loop is not None:
        region = set()
        for b in loop.body:
            for x in ast.walk(b):
                if isinstance(x, ast.stmt):
                    region |= set(cfg.nodes_of(x))
        header = set(cfg.nodes_of(loop)) - region

    def reach(miss):
        seen = set()
        stack = []

        def push(nid):
            n = cfg.nodes[nid]
            for (b, lab) in cfg.succ[nid]:
                if isinstance(lab, str) and lab.startswith("exc"):
                    continue
                if n.kind == "test" and isinstance(lab, bool):
                    v = _none_test_value(n.ast, var) if var is not None else None
                    if v is None:
                        v = _member_test_value(ft, n.ast, acc.path, nid, edb_param)
                    if v is not None:
                        ids = ft.reaching(var, nid) if var is not None else []
                        bound = var is None or any(ft.defs[i].node == start.id for i in ids)
                        if bound and (v != lab) == miss:
                            continue
                if b in header:
                    continue
                if region is not None and b not in region:
                    continue
                if b not in seen:
                    seen.add(b)
                    stack.append(b)
        push(start.id)
        while stack:
            push(stack.pop())
        return seen
    m, h = reach(True), reach(False)
    res = m - h
    _excl_cache[key] = res
    return res


def check(repo):
    r1 = Rule("R2.1", "token-indexed dictionary lookups tolerate a miss")
    r2 = Rule("R2.2", "the miss branch is quiet and ends the walk")
    r3 = Rule("R2.3", "list-kind containers are indexed only by hit-derived or range-bounded values")
    r4 = Rule("R2.4", "DP17 trial decryption rejects foreign and dummy slots")
    rules = [r1, r2, r3, r4]
    schemes = discover(repo)
    n_primary = 0
    for s in schemes:
        fi = s.method("_Search")
        shapes = edb_shapes(repo, s)
        if not shapes:
            raise AnalysisError("no container shapes recovered for %s" % s.name)
        for attr_, sh_ in list(shapes.items()):
            if sh_ and sh_[0] == "object":
                # a user-defined lookup structure in place of the dict: its own lookup code is examined, then it is used like a dict
                check_custom_container(repo, r1, s, attr_, sh_[1])
                shapes[attr_] = ("dict", (None, None))
        ft, accs = collect_accesses(repo, s, fi, shapes)
        edb_param, tk_param = fi.params[1], fi.params[2]
        if not accs:
            r1.fail_fn(fi, fi.node, "no container access", "%s._Search reads nothing from the encrypted database" % s.name)
            continue
        member_paths = {a.path for a in accs if a.form == "member"}
        for a in accs:
            classes = index_classes(a.key_term, edb_param, tk_param)
            tok = "token" in classes
            hit = "hit" in classes
            desc = {"scheme": s.name, "access": short(a.expr), "container": a.path[0], "kind": a.kind, "form": a.form,
                    "index": "hit-derived" if hit else ("token-derived" if tok else "independent"), "line": a.node.line}
            if a.kind == "dict":
                if not tok:
                    r3.ok(desc)
                    continue
                n_primary += 1
                if a.form == "subscript":
                    t, h = in_keyerror_try(a.node.stmt, a.expr)
                    if t is not None:
                        r1.ok(desc)
                        continue
                    if a.path in member_paths:
                        continue  # judged by the exploration of the membership test
                    r1.fail_fn(fi, a.expr, "bare subscript of %s" % a.path[0],
                               "%s: %s raises KeyError for every keyword that is not in the database (no .get/None test, "
                               "membership test or try/except KeyError)" % (s.name, short(a.expr)), witness=desc)
                    continue
                explore_miss(repo, s, fi, ft, a, r1, r2, accs)
            elif a.kind == "list":
                if a.form != "subscript":
                    r3.ok(desc)
                    continue
                kt = a.key_term
                ranged = any(isinstance(x, tuple) and x and x[0] == "rangevar" for x in walk(kt)) and not tok
                if ranged or not tok:
                    r3.ok(desc)
                elif hit and peel_safe(ft, a, fi):
                    desc["index"] = "hit-derived after first-iteration peeling"
                    r3.ok(desc)
                else:
                    # token-derived index into a list: needs an explicit bound test
                    r3.fail_fn(fi, a.expr, "token-derived index into list %s" % a.path[0],
                               "%s: %s indexes a list with a value that comes straight from the token; an absent keyword reaches it" % (s.name, short(a.expr)), witness=desc)
            else:
                r3.note("%s: container kind of %s not recovered (%s)" % (s.name, a.path[0], short(a.expr)))
        if s.name == "DP17.Pi":
            _check_dp17_trial(repo, r4, s, fi, ft)
    # ------------------------------------------------------------------ R2.5 dummy keywords cannot be hit by a real keyword
    r5 = Rule("R2.5", "dummy keywords that pad the database are drawn from a space no searched keyword can hit")
    rules.append(r5)
    n_dummy = 0
    for s in schemes:
        enc = s.method("_Enc")
        fte = fn_terms(repo, enc)
        for name, ms in fte.mutations().items():
            for (mn, kind, payload, subs) in ms:
                if kind != "setitem" or subs:
                    continue
                base = fte.name_term(name, mn)
                init = base[2] if base[0] == "cont" else base
                dbp = ("param", enc.params[2])

                def is_db(x, depth=0):
                    if depth > 6 or not isinstance(x, tuple):
                        return False
                    if x == dbp:
                        return True
                    if x[0] == "call" and x[1].split(".")[-1] in ("deepcopy", "dict", "copy") and x[2]:
                        return is_db(x[2][0], depth + 1)
                    if x[0] == "mcall" and x[2] == "copy":
                        return is_db(x[1], depth + 1)
                    if x[0] == "phi":
                        return any(is_db(y, depth + 1) for y in x[1])
                    if x[0] == "ifexp":
                        return is_db(x[2], depth + 1) or is_db(x[3], depth + 1)
                    if x[0] == "cont":
                        return is_db(x[2], depth + 1)
                    return False
                if not is_db(init):
                    continue  # not a (copy of the) database
                tt, st = payload
                kt = fte.term(tt.slice, mn)
                n_dummy += 1
                ok = kt[0] == "call" and kt[1] in ("os.urandom", "secrets.token_bytes") and kt[2] and kt[2][0][0] == "const" \
                    and isinstance(kt[2][0][1], int) and kt[2][0][1] >= 16
                desc = {"scheme": s.name, "dummy_keyword": show(kt), "line": st.lineno}
                if ok:
                    r5.ok(desc)
                else:
                    r5.fail_fn(enc, st, "dummy keyword of %s" % name,
                               "%s: the dummy keyword %s is not at least 16 fresh random bytes; a searched keyword that is not in the "
                               "database can coincide with it and return padding identifiers" % (s.name, show(kt)), witness=desc)
    r5.require(n_dummy >= 2, schemes[0].method("_Enc"), "dummy keyword sites floor",
               "expected the database padding of CT14 and ANSS16 (2 sites), found %d" % n_dummy)

    # ------------------------------------------------------------------ R2.6 the answer depends only on (index, token)
    r6 = Rule("R2.6", "search keeps no state between calls: an absent keyword cannot be answered from an earlier search")
    rules.append(r6)
    from .c07 import Analyzer
    an = Analyzer(repo)
    for s in schemes:
        for mname in ("_Search", "Search", "_Enc", "EDBSetup", "_Trap", "TokenGen"):
            fi = s.cls.methods.get(mname)
            if fi is None:
                continue
            hidden = [x for x in an.sites(fi) if x[0] == ("self",)]
            memo = [d for d in fi.decorators if any(k in d for k in ("cache", "memo"))]
            if hidden or memo:
                node = hidden[0][2] if hidden else fi.node
                r6.fail_fn(fi, node, "%s keeps state on the scheme object" % ("search" if "earch" in mname else mname),
                           "%s.%s stores into the scheme object%s: a later call (a search for an absent keyword, a set-up after a failed one, another index) can be answered "
                           "from what an earlier call left behind" % (s.name, mname, " / is memoised" if memo else ""))
            else:
                r6.ok({"scheme": s.name, "method": mname})

    # ------------------------------------------------------------------ R2.7 the keyword is the message, never the key, of a keyed primitive
    r7 = Rule("R2.7", "labels are keyed with key material and take the keyword as message (a keyword in key position is zero-padded / pre-hashed by HMAC and collides)")
    rules.append(r7)
    n_keyed = 0
    from .c01 import make_kw_test
    for s in schemes:
        for mname in ("_Trap", "_Enc"):
            fi = s.method(mname)
            ftk = fn_terms(repo, fi)
            kparam = fi.params[1]
            kwt = make_kw_test(None, fi.params[2]) if mname == "_Trap" else make_kw_test(fi.params[2], None)
            seen = set()
            for n in ftk.cfg.nodes:
                if n.stmt is None or n.ast is None:
                    continue
                for c in ast.walk(n.ast if n.kind == "test" else n.stmt):
                    if not isinstance(c, ast.Call) or id(c) in seen:
                        continue
                    seen.add(id(c))
                    t = ftk.term(c, n.id, _comp_env(ftk, c, n.id))
                    if t[0] != "prim" or t[2] in ("Encrypt", "Decrypt", "KeyGen") or len(t[3]) < 2:
                        continue
                    key_t, msg_t = t[3][0], t[3][1]
                    has_K = lambda tt: any(isinstance(x, tuple) and len(x) >= 2 and x[:2] == ("param", kparam) for x in walk(tt))  # noqa: E731
                    has_kw = lambda tt: any(isinstance(x, tuple) and x and kwt(x) for x in walk(tt))  # noqa: E731
                    if not (has_K(key_t) or has_K(msg_t)):
                        continue   # an unkeyed use (a hash of public data) is not a label derivation
                    n_keyed += 1
                    if not has_K(key_t) and (has_kw(key_t) or has_K(msg_t)):
                        r7.fail_fn(fi, c, "keyword in key position",
                                   "%s.%s calls %s with %s as key and the secret key in the message: HMAC zero-pads (or pre-hashes) its key, so keywords that differ only "
                                   "by trailing zero bytes (or one being the hash of the other) get the same label, and an absent keyword returns a stored keyword's postings" % (
                                       s.name, mname, t[1], show(key_t, maxdepth=3)[:60]))
                    else:
                        r7.ok({"scheme": s.name, "method": mname, "primitive": t[1], "line": getattr(c, "lineno", 0)})
    r7.require(n_keyed >= 15, schemes[0].method("_Trap"), "keyed derivations floor", "only %d keyed label derivations found (expected >= 15)" % n_keyed)

    # ------------------------------------------------------------------ R2.10 over-long keywords are refused, not cut down
    r10 = Rule("R2.10", "Bitset refuses a value wider than its field: SSE-1 / SSE-2 rely on it to refuse keywords longer than param_l instead of truncating them onto a stored keyword")
    rules.append(r10)
    from .c08 import bitset_width_checked
    bi = repo.func("toolkit/bits.py", "Bitset.__init__")
    okb, whyb = bitset_width_checked(bi)
    r10.require(okb, bi, "Bitset width check", "Bitset.__init__ no longer refuses a value wider than the explicit length (%s): a keyword longer than param_l is cut down to its last "
                "param_l bytes, so a search for an absent over-long keyword returns the postings of the stored keyword it ends with" % whyb)
    from .c08 import bitset_input_cut
    cutb = bitset_input_cut(bi)
    r10.require(cutb is None, bi, "Bitset width check sees the whole input",
                "Bitset.__init__ cuts its input down (%s) before checking that it fits the explicit length: a keyword longer than param_l is reduced to its last "
                "param_l bytes, so a search for an absent over-long keyword returns the postings of the stored keyword it ends with" % (short(cutb) if cutb is not None else ""), cutb)
    # ------------------------------------------------------------------ R2.9 what a search collects may be nothing
    r9 = Rule("R2.9", "a local list that stays empty when nothing is found is not indexed unguarded")
    rules.append(r9)
    from ..facts import facts_of
    from ..cfg import cfg_of
    for s in schemes:
        fi = s.method("_Search")
        cfg = cfg_of(fi.node)
        F = None
        empties, grows = {}, {}
        for n in cfg.nodes:
            st = n.stmt
            if st is None or n.ast is None:
                continue
            if n.kind == "stmt" and isinstance(st, ast.Assign) and len(st.targets) == 1 and isinstance(st.targets[0], ast.Name):
                v = st.value
                if (isinstance(v, (ast.List, ast.Tuple)) and not v.elts) or (isinstance(v, ast.Call) and dotted(v.func) in ("list", "deque", "collections.deque") and not v.args):
                    empties.setdefault(st.targets[0].id, []).append(n.id)
                else:
                    grows.setdefault(st.targets[0].id, []).append(n.id)
            for c in ast.walk(n.ast if n.kind == "test" else st) if n.kind in ("stmt", "test") else []:
                if isinstance(c, ast.Call) and isinstance(c.func, ast.Attribute) and isinstance(c.func.value, ast.Name) and c.func.attr in ("append", "extend", "insert", "add", "appendleft"):
                    grows.setdefault(c.func.value.id, []).append(n.id)
            if n.kind == "stmt" and isinstance(st, ast.AugAssign) and isinstance(st.target, ast.Name):
                grows.setdefault(st.target.id, []).append(n.id)
        for n in cfg.nodes:
            if n.stmt is None or n.ast is None or n.kind not in ("stmt", "test", "return", "for"):
                continue
            root = n.ast if n.kind == "test" else (n.stmt.iter if n.kind == "for" else n.stmt)
            for x in ast.walk(root):
                if not (isinstance(x, ast.Subscript) and isinstance(x.ctx, ast.Load) and isinstance(x.value, ast.Name) and x.value.id in empties):
                    continue
                if not (isinstance(x.slice, ast.Constant) and isinstance(x.slice.value, int)) and \
                        not (isinstance(x.slice, ast.UnaryOp) and isinstance(x.slice.operand, ast.Constant)):
                    continue
                v = x.value.id
                # the empty initialisation still reaches here unless a growing statement lies on every path
                reach_empty = any(cfg.can_reach(e, n.id, avoid=set(grows.get(v, ())) - {e}) for e in empties[v])
                if not reach_empty:
                    r9.ok({"scheme": s.name, "list": v, "line": n.line})
                    continue
                if F is None:
                    F = facts_of(fi)
                f = F.at(n.id) or ()
                guarded = any((k[0] == "truth" and k[1] == v and t) or (k[0] == "<" and k[1] == "0" and k[2] == "len(%s)" % v and t) or
                              (k[0] == "==" and {k[1], k[2]} == {"0", "len(%s)" % v} and not t) for (k, t) in f)
                from ..model import ancestors as _anc
                caught = any(isinstance(a, ast.Try) and any(h.type is None or "IndexError" in unparse(h.type) or "LookupError" in unparse(h.type) or unparse(h.type) == "Exception"
                                                            for h in a.handlers) for a in _anc(x))
                desc = {"scheme": s.name, "list": v, "subscript": unparse(x), "line": n.line}
                if guarded or caught:
                    r9.ok(desc)
                else:
                    r9.fail_fn(fi, x, "possibly empty list %s indexed" % v,
                               "%s._Search evaluates %s although %s is still the empty list when no entry was found (every statement that fills it is conditional): "
                               "searching an absent keyword raises IndexError instead of returning an empty result" % (s.name, unparse(x), v), witness=desc)
    r9.instance({"schemes": len(schemes)})

    # ------------------------------------------------------------------ R2.8 the keyword enters the derivations as it is
    r8 = Rule("R2.8", "the keyword reaches every derivation unmodified (padding, stripping, case folding or truncating it makes distinct keywords collide)")
    rules.append(r8)
    LOSSY = {"ljust", "rjust", "center", "zfill", "strip", "lstrip", "rstrip", "lower", "upper", "title", "capitalize", "casefold", "swapcase",
             "replace", "translate", "split", "rsplit", "partition", "rpartition", "removeprefix", "removesuffix", "expandtabs", "decode", "hex"}
    n_uses = 0
    for s in schemes:
        for mname in ("_Trap", "_Enc"):
            fi = s.method(mname)
            ftk = fn_terms(repo, fi)
            kwt = make_kw_test(None, fi.params[2]) if mname == "_Trap" else make_kw_test(fi.params[2], None)
            seen, reported = set(), set()
            for n in ftk.cfg.nodes:
                if n.stmt is None or n.ast is None:
                    continue
                for c in ast.walk(n.ast if n.kind == "test" else n.stmt):
                    if not isinstance(c, ast.Call) or id(c) in seen:
                        continue
                    seen.add(id(c))
                    try:
                        t = ftk.term(c, n.id, _comp_env(ftk, c, n.id))
                    except Exception:
                        continue
                    for x in walk(t):
                        if not (isinstance(x, tuple) and x):
                            continue
                        bad = None
                        if x[0] == "mcall" and isinstance(x[1], tuple) and x[1] and kwt(x[1]) and x[2] in LOSSY:
                            bad = "%s.%s(...)" % (show(x[1], maxdepth=2), x[2])
                        elif x[0] == "slice" and isinstance(x[1], tuple) and x[1] and kwt(x[1]):
                            bad = "a slice of %s" % show(x[1], maxdepth=2)
                        elif x[0] == "binop" and x[1] == "Mod" and isinstance(x[2], tuple) and x[2] and kwt(x[2]):
                            bad = "%s %% ..." % show(x[2], maxdepth=2)
                        if isinstance(x[1] if len(x) > 1 else None, tuple) and x[1] and kwt(x[1]):
                            n_uses += 1
                        if bad and bad not in reported:
                            reported.add(bad)
                            r8.fail_fn(fi, c, "keyword transformed before use",
                                       "%s.%s derives from %s instead of the keyword itself: two different keywords (e.g. one being the other plus trailing NUL bytes, or differing "
                                       "in case / beyond the cut) are mapped to the same labels, so a search for the absent one returns the stored one's postings" % (s.name, mname, bad))
            if not reported:
                r8.ok({"scheme": s.name, "method": mname})
    r1.require(n_primary >= 10, schemes[0].method("_Search"), "primary lookups floor",
               "only %d token-indexed dictionary lookups found (expected >= 10, at least one per scheme)" % n_primary)
    return rules


def _check_dp17_trial(repo, r4, s, fi, ft):
    cfg = ft.cfg
    accum = result_accumulators(fi)
    dec = [c for c in ast.walk(fi.node) if isinstance(c, ast.Call) and isinstance(c.func, ast.Attribute) and c.func.attr == "Decrypt"]
    if not r4.require(len(dec) >= 1, fi, "trial decryption present", "DP17._Search no longer decrypts bucket slots"):
        return
    for c in dec:
        t, h = None, None
        for a in ancestors(c):
            if isinstance(a, ast.Try) and any(x is c for b in a.body for x in ast.walk(b)):
                for hh in a.handlers:
                    names = [dotted(x) for x in ([hh.type] if hh.type is not None and not isinstance(hh.type, ast.Tuple) else (hh.type.elts if hh.type is not None else []))]
                    if hh.type is None or any(nm in ("ValueError", "Exception") for nm in names):
                        t, h = a, hh
                break
        if not r4.require(t is not None, fi, "trial decryption guarded", "a slot that fails to decrypt under this keyword's key raises out of _Search (no except ValueError)", c):
            continue
        adds = [x for b in h.body for x in ast.walk(b) if isinstance(x, ast.Call) and isinstance(x.func, ast.Attribute)
                and x.func.attr in ("add", "append", "extend", "update") and isinstance(x.func.value, ast.Name) and x.func.value.id in accum]
        r4.require(not adds, fi, "handler adds nothing", "the handler for undecryptable slots adds to the result", h)
    # result.add dominated by the zero-suffix comparison
    for n in cfg.nodes:
        if n.stmt is None or n.ast is None or n.kind != "stmt":
            continue
        for x in ast.walk(n.stmt):
            if isinstance(x, ast.Call) and isinstance(x.func, ast.Attribute) and x.func.attr in ("add", "append") and \
                    isinstance(x.func.value, ast.Name) and x.func.value.id in accum:
                guards = []
                for tnode in cfg.nodes:
                    if tnode.kind == "test" and cfg.dominates(tnode.id, n.id):
                        for cmp_ in ast.walk(tnode.ast):
                            if isinstance(cmp_, ast.Compare) and len(cmp_.ops) == 1 and isinstance(cmp_.ops[0], ast.Eq):
                                sides = [cmp_.left, cmp_.comparators[0]]
                                zero = any(isinstance(z, ast.BinOp) and isinstance(z.op, ast.Mult) and any(
                                    isinstance(q, ast.Constant) and q.value == b"\x00" for q in (z.left, z.right)) and
                                    any("param_lambda" in unparse(q) for q in (z.left, z.right)) for z in sides)
                                suffix = any(isinstance(z, ast.Subscript) and isinstance(z.slice, ast.Slice) and z.slice.lower is not None
                                             and "param_lambda" in unparse(z.slice.lower) and isinstance(z.slice.lower, ast.UnaryOp) for z in sides)
                                if zero and suffix:
                                    # the add must be on the True branch
                                    tb = [b for (b, lab) in cfg.succ[tnode.id] if lab is True]
                                    if any(b == n.id or cfg.can_reach(b, n.id) for b in tb) and \
                                            not any((b == n.id or cfg.can_reach(b, n.id, avoid={tnode.id})) for (b, lab) in cfg.succ[tnode.id] if lab is False):
                                        guards.append(tnode)
                r4.require(bool(guards), fi, "zero-suffix check before add",
                           "an identifier is added to the result without the check that the decrypted slot ends in param_lambda zero bytes "
                           "(slots of other keywords and dummy slots would be returned)", n.stmt)


# ----------------------------------------------------------------------------- self-test variants
from ..selftest import V  # noqa: E402

_PB = "schemes/CJJ14/PiBas/construction.py"
VARIANTS = [
    V("sse1-get-to-subscript", "fire", "R2.1", [("schemes/CGKO06/SSE1/construction.py", "SSE1._Search", "theta = T.get(gamma)", "theta = T[gamma]")]),
    V("anss16-hts-get-to-subscript", "fire", "R2.1", [("schemes/ANSS16/Scheme3/construction.py", "Pi._Search", "ni_prime = HT_S.get(li_prime)", "ni_prime = HT_S[li_prime]")]),
    V("ct14-none-test-removed", "fire", "R2.1", [("schemes/CT14/Pi/construction.py", "Pi._Search", "            if d is not None:", "            if True:")]),
    V("pibas-none-test-inverted", "fire", "R2.", [(_PB, "PiBas._Search", "            if cipher is None:", "            if cipher is not None:")]),
    V("pibas-sentinel-on-miss", "fire", "R2.2", [(_PB, "PiBas._Search", "            if cipher is None:\n                break", "            if cipher is None:\n                result.append(b'')\n                break")]),
    V("sse2-continue-after-miss", "fire", "R2.2", [("schemes/CGKO06/SSE2/construction.py", "SSE2._Search", "            if identifier is None:\n                break", "            if identifier is None:\n                continue")]),
    V("dp17-except-removed", "fire", "R2.4", [("schemes/DP17/Pi/construction.py", "Pi._Search",
      "                    try:\n                        plaintext = self.config.rnd.Decrypt(etag, e)\n                        if plaintext[-self.config.param_lambda:] == b\"\\x00\" * self.config.param_lambda:\n                            identifier = plaintext[:-self.config.param_lambda]\n                            result.add(identifier)\n                    except ValueError:\n                        continue",
      "                    plaintext = self.config.rnd.Decrypt(etag, e)\n                    if plaintext[-self.config.param_lambda:] == b\"\\x00\" * self.config.param_lambda:\n                        identifier = plaintext[:-self.config.param_lambda]\n                        result.add(identifier)")]),
    V("dp17-zero-suffix-check-removed", "fire", "R2.4", [("schemes/DP17/Pi/construction.py", "Pi._Search",
      "                        if plaintext[-self.config.param_lambda:] == b\"\\x00\" * self.config.param_lambda:", "                        if True:")]),
    V("pi2lev-membership-test-removed", "fire", "R2.1", [("schemes/CJJ14/Pi2Lev/construction.py", "Pi2Lev._Search",
      "                if any(block_addr not in D for block_addr in prev_level_result):\n                    return Pi2LevResult([])  # the keyword is not in the database\n", "")]),
    V("pi2lev-miss-raises", "fire", "R2.", [("schemes/CJJ14/Pi2Lev/construction.py", "Pi2Lev._Search",
      "                    return Pi2LevResult([])  # the keyword is not in the database", "                    raise KeyError(\"keyword not found\")")]),
    V("anss16-miss-returns-filler", "fire", "R2.2", [("schemes/ANSS16/Scheme3/construction.py", "Pi._Search",
      "        if di is None:\n            return PiResult(result)", "        if di is None:\n            return PiResult([ni_bytes])")]),
    V("benign-membership-form", "silent", None, [(_PB, "PiBas._Search",
      "            cipher = D.get(addr)\n            if cipher is None:\n                break", "            if addr not in D:\n                break\n            cipher = D[addr]")]),
    V("benign-try-keyerror", "silent", None, [("schemes/CGKO06/SSE1/construction.py", "SSE1._Search",
      "        theta = T.get(gamma)\n        if theta is None:\n            return SSE1Result([])", "        try:\n            theta = T[gamma]\n        except KeyError:\n            return SSE1Result([])")]),
    V("benign-truthiness-test", "silent", None, [("schemes/CGKO06/SSE2/construction.py", "SSE2._Search", "            if identifier is None:", "            if not identifier:")]),
]
