"""C14 - symmetric encryption: decrypts, fixed expansion, fresh randomness.

Decides that Encrypt and Decrypt of AESxCBC are structural inverses of each other around the library
cipher (layout, padding, cipher construction, update+finalize), that the IV is fresh per call, and
that the declared length contracts exist.  The cipher itself is outside the source.  See DESIGN.md
section 3, C14.
"""
import ast

from ..core import Rule
from ..contract import describe_alt
from ..pathsum import summarize, stores_params
from ..model import AnalysisError, dotted, unparse, short
from ..cfg import cfg_of
from ..terms import fn_terms, walk, show
from .c08 import guard_contract, raising_ifs
from .c04 import _check_iv

EXPLANATION = ("Use-def terms of AESxCBC.Encrypt / Decrypt are compared position by position: Encrypt returns iv || "
               "encryptor.update(pad(message)) || encryptor.finalize() with iv = os.urandom(AES.block_size // 8) drawn in the call; "
               "Decrypt splits its input at the same offset, feeds the first part to modes.CBC and the rest to the decryptor, "
               "concatenates update and finalize and unpads with the same block size; both build Cipher(algorithms.AES(key), "
               "modes.CBC(iv)); pad/unpad consume update and finalize; no exception of the unpadder is swallowed; six length "
               "guards raise ValueError before any work; the registry maps the three spellings to AESxCBC.")
ASSUMPTIONS = ["`cryptography`'s AES-CBC and PKCS7 are correct (Decrypt(Encrypt(m)) == m as values, expansion formula, wrong-key behaviour)"]

AES = "toolkit/symmetric_encryption/aes.py"
PAD = "toolkit/symmetric_padding.py"

BS = ("ref", "external", "cryptography.hazmat.primitives.ciphers.algorithms.AES.block_size")
IVLEN = ("binop", "FloorDiv", BS, ("const", 8))


def uncont(t):
    """Drop the local-container wrapper (objects with an .update() method look like containers to the term engine)."""
    if isinstance(t, tuple):
        if t and t[0] == "cont":
            return uncont(t[2])
        return tuple(uncont(x) for x in t)
    if isinstance(t, frozenset):
        return frozenset(uncont(x) for x in t)
    return t


def _ret_term(repo, fi):
    ft = fn_terms(repo, fi)
    rets = [n for n in ft.cfg.nodes if n.kind == "return" and n.stmt.value is not None]
    if len(rets) != 1:
        return ft, None
    from ..terms import norm_concat
    return ft, norm_concat(uncont(ft.term(rets[0].stmt.value, rets[0].id)))


def _cipher_ok(t, key_param, iv_term):
    return t[0] == "call" and t[1].endswith("ciphers.Cipher") and len(t[2]) == 2 and \
        t[2][0][0] == "call" and t[2][0][1].endswith("algorithms.AES") and t[2][0][2] == (("param", key_param),) and \
        t[2][1][0] == "call" and t[2][1][1].endswith("modes.CBC") and t[2][1][2] == (iv_term,)


def check(repo):
    r1 = Rule("R14.1", "ciphertext layout agrees: iv || body, split at the same offset")
    r2 = Rule("R14.2", "paired transforms: pad/unpad, cipher construction, update + finalize")
    r3 = Rule("R14.3", "fresh IV per encryption")
    r4 = Rule("R14.4", "length contracts raise ValueError before any work")
    r5 = Rule("R14.5", "registry; padding errors are not swallowed")
    rules = [r1, r2, r3, r4, r5]
    enc, dec = repo.func(AES, "AESxCBC.Encrypt"), repo.func(AES, "AESxCBC.Decrypt")
    fte, te = _ret_term(repo, enc)
    ftd, td = _ret_term(repo, dec)
    kp_e, mp = enc.params[1], enc.params[2]
    kp_d, cp = dec.params[1], dec.params[2]
    if not r1.require(te is not None and td is not None, enc, "single return", "Encrypt/Decrypt no longer have a single return"):
        return rules
    # ---- Encrypt: iv + update(padded) + finalize()
    parts = []

    def chain(t):
        # concatenation, also when it was collected in a bytearray and handed out as bytes(...)
        if t[0] == "binop" and t[1] == "Add":
            chain(t[2])
            chain(t[3])
        elif t[0] == "call" and t[1] in ("bytes", "bytearray") and len(t[2]) == 1 and not t[3]:
            chain(t[2][0])
        else:
            parts.append(t)
    chain(te)
    ok = len(parts) == 3
    iv = parts[0] if ok else None
    r1.require(ok and iv[0] == "call" and iv[1] == "os.urandom" and iv[2] == (IVLEN,), enc, "Encrypt emits iv first",
               "AESxCBC.Encrypt returns %s; expected iv || update || finalize with iv = os.urandom(AES.block_size // 8)" % show(te, maxdepth=3)[:140])
    if ok:
        upd, fin = parts[1], parts[2]
        enc_obj = upd[1] if upd[0] == "mcall" else None
        ok2 = upd[0] == "mcall" and upd[2] == "update" and fin[0] == "mcall" and fin[2] == "finalize" and fin[1] == enc_obj and \
            enc_obj is not None and enc_obj[0] == "mcall" and enc_obj[2] == "encryptor" and _cipher_ok(enc_obj[1], kp_e, iv)
        r2.require(ok2, enc, "Encrypt: Cipher(AES(key), CBC(iv)).encryptor(), update + finalize",
                   "AESxCBC.Encrypt: body is %s + %s" % (show(upd, maxdepth=4)[:120], show(fin, maxdepth=3)[:80]))
        if upd[0] == "mcall" and upd[3]:
            padded = upd[3][0]
            okp = padded[0] == "call" and padded[1].endswith("::pkcs7_pad") and padded[2] == (("param", mp), BS)
            r2.require(okp, enc, "Encrypt pads the message to the AES block size", "AESxCBC.Encrypt encrypts %s instead of pkcs7_pad(message, AES.block_size)" % show(padded, maxdepth=3)[:100])
    # ---- Decrypt: unpad(update(ct[n:]) + finalize(), BS) with iv = ct[:n]
    okd = td[0] == "call" and td[1].endswith("::pkcs7_unpad") and len(td[2]) == 2 and td[2][1] == BS
    r2.require(okd, dec, "Decrypt unpads with the AES block size", "AESxCBC.Decrypt returns %s; expected pkcs7_unpad(plaintext, AES.block_size)" % show(td, maxdepth=3)[:120])
    if okd:
        pt = td[2][0]
        okpt = pt[0] == "binop" and pt[1] == "Add" and pt[2][0] == "mcall" and pt[2][2] == "update" and pt[3][0] == "mcall" and pt[3][2] == "finalize" and pt[2][1] == pt[3][1]
        r2.require(okpt, dec, "Decrypt concatenates update and finalize", "AESxCBC.Decrypt: plaintext is %s (a dropped finalize() loses the last block)" % show(pt, maxdepth=3)[:120])
        if okpt:
            dobj = pt[2][1]
            rest = pt[2][3][0] if pt[2][3] else None
            iv_d = ("slice", ("param", cp), None, IVLEN, None)
            rest_w = ("slice", ("param", cp), IVLEN, None, None)
            r1.require(rest == rest_w, dec, "Decrypt decrypts everything after the IV", "AESxCBC.Decrypt decrypts %s; Encrypt put the body after the first AES.block_size // 8 bytes" % (show(rest, maxdepth=4)[:100] if rest else None))
            okc = dobj[0] == "mcall" and dobj[2] == "decryptor" and _cipher_ok(dobj[1], kp_d, iv_d)
            r1.require(okc, dec, "Decrypt takes the IV from the first block",
                       "AESxCBC.Decrypt builds %s; expected Cipher(AES(key), CBC(cipher_text[:AES.block_size // 8])).decryptor()" % show(dobj, maxdepth=5)[:160])
    # padding helpers
    for name, maker in (("pkcs7_pad", "padder"), ("pkcs7_unpad", "unpadder")):
        fi = repo.func(PAD, name)
        ft, t = _ret_term(repo, fi)
        ok = False
        if t is not None:
            # update(x) + finalize() accumulated
            flat = show(t, maxdepth=8)
            mk = [x for x in walk(t) if isinstance(x, tuple) and x and x[0] == "mcall" and x[2] == maker]
            upd = [x for x in walk(t) if isinstance(x, tuple) and x and x[0] == "mcall" and x[2] == "update" and x[3] == (("param", fi.params[0]),)]
            fin = [x for x in walk(t) if isinstance(x, tuple) and x and x[0] == "mcall" and x[2] == "finalize"]
            pk = [x for x in walk(t) if isinstance(x, tuple) and x and x[0] == "call" and x[1].endswith("padding.PKCS7") and x[2] == (("param", fi.params[1]),)]
            ok = bool(mk) and bool(upd) and bool(fin) and bool(pk) and t[0] == "binop" and t[1] == "Add"
        r2.require(ok, fi, "%s: PKCS7(block_size).%s(), update + finalize" % (name, maker), "%s no longer returns %s.update(x) + %s.finalize() of PKCS7(block_size)" % (name, maker, maker))
        handlers = [h for h in ast.walk(fi.node) if isinstance(h, ast.ExceptHandler)]
        r5.require(not handlers, fi, "no exception swallowed in %s" % name, "%s catches exceptions: a wrong key / corrupted ciphertext would no longer raise" % name)
    handlers = [h for h in ast.walk(dec.node) if isinstance(h, ast.ExceptHandler)]
    r5.require(not handlers, dec, "Decrypt does not swallow padding errors",
               "AESxCBC.Decrypt catches exceptions: DP17's trial decryption relies on the ValueError of a wrong key")
    # ---- R14.3
    _check_iv(repo, r3)
    # ---- R14.4
    for qual, subj, decl in (("AESxCBC.__init__", "key_length", "[16, 24, 32]"), ("AESxCBC.__init__", "cipher_length", "% 16"),
                             ("AESxCBC.Encrypt", "message", "message_length"), ("AESxCBC.Encrypt", "key", "key_length"),
                             ("AESxCBC.Decrypt", "cipher_text", "cipher_length"), ("AESxCBC.Decrypt", "key", "key_length")):
        fi = repo.func(AES, qual)
        refused, bad, F, what = guard_contract(fi, subj, decl)
        if r4.require(bool(refused), fi, "guard %s/%s" % (subj, decl), "%s no longer refuses a %s violating %s with ValueError" % (qual, subj, decl)):
            if bad:
                nid, alt = bad[0]
                r4.fail_fn(fi, F.cfg.nodes[nid].stmt, "guard %s precedes the work" % subj,
                           "%s: the %s check no longer precedes the cipher operations on every path (or no longer examines the caller's %s): %s is reached under [%s]; "
                           "the only escape allowed is the LENGTH_UNLIMITED marker" % (
                               qual, subj, subj, "a result" if F.cfg.nodes[nid].kind == "return" else "the end of the function", describe_alt(alt)))
            else:
                r4.ok({"function": qual, "subject": subj, "declared": decl})
    # the constructor refuses nothing but lengths that cannot be declared, and leaves the declared lengths as they were declared
    init = repo.func(AES, "AESxCBC.__init__")
    from ..facts import facts_of as _facts_of
    allowed = set()
    for subj, decl in (("key_length", "[16, 24, 32]"), ("cipher_length", "% 16")):
        refused, _bad, _F, _what = guard_contract(init, subj, decl)
        allowed |= {getattr(x, "id", x) for x in refused}
    Fi = _facts_of(init)
    extra = [n for n, _name, _f in Fi.raises() if getattr(n, "id", n) not in allowed]
    if extra:
        n0 = extra[0]
        node0 = n0 if hasattr(n0, "stmt") else Fi.cfg.nodes[n0]
        r4.fail_fn(init, node0.stmt, "constructor refuses a declarable configuration",
                   "AESxCBC.__init__ raises on a path that is neither `key_length not in {16, 24, 32}` nor `cipher_length %% 16 != 0` (line %d): declared lengths the property admits "
                   "(any message length, with the cipher length that Encrypt really produces) are refused" % node0.line)
    else:
        r4.ok({"function": "AESxCBC.__init__", "rule": "no refusal besides the two length contracts"})
    for st in ast.walk(init.node):
        tg = st.targets if isinstance(st, ast.Assign) else ([st.target] if isinstance(st, (ast.AugAssign, ast.AnnAssign)) else [])
        for t in tg:
            if isinstance(t, ast.Attribute) and isinstance(t.value, ast.Name) and t.value.id == "self" and t.attr in ("key_length", "message_length", "cipher_length"):
                same = isinstance(st, ast.Assign) and isinstance(st.value, ast.Name) and st.value.id in init.params and st.value.id == t.attr
                r4.require(same, init, "declared %s kept" % t.attr,
                           "AESxCBC.__init__ replaces the declared %s by %s: Encrypt / Decrypt then enforce a length the caller did not declare (the ciphertext of an m-byte message "
                           "has 16 + 16 * (m // 16 + 1) bytes)" % (t.attr, short(getattr(st, "value", st))), st)
    kg = repo.func(AES, "AESxCBC.KeyGen")
    rets = [ps.ret for ps in summarize(kg) if ps.exc is None]
    r4.require(bool(rets) and all(rt == ("call", ("fn", "os.urandom"), (("attr", ("var", "self"), "key_length"),), ()) for rt in rets), kg, "KeyGen length",
               "AESxCBC.KeyGen no longer returns os.urandom(self.key_length)")
    ab = repo.func("toolkit/symmetric_encryption/abstraction.py", "AbstractSymmetricEncryption.__init__")
    r4.require(stores_params(ab, ("cipher_length", "key_length", "message_length")), ab, "declared lengths stored", "AbstractSymmetricEncryption no longer stores the declared lengths")
    # ---- R14.5 registry
    reg = repo.func("toolkit/symmetric_encryption/__init__.py", "get_symmetric_encryption_implementation")
    from .c08 import registry_refuses
    consts = {c.value for c in ast.walk(reg.node) if isinstance(c, ast.Constant) and isinstance(c.value, str)}
    for nm in {x.id for x in ast.walk(reg.node) if isinstance(x, ast.Name)}:
        if nm in reg.module.globals:
            try:
                v = repo.const_value(reg.module, reg.module.globals[nm])
                consts |= {x for x in (v if isinstance(v, (list, tuple, set)) else [v]) if isinstance(x, str)}
            except Exception:
                pass
    names = {n.id for n in ast.walk(reg.node) if isinstance(n, ast.Name)}
    why = registry_refuses(reg)
    ok = {"aes-cbc", "aes_cbc", "aescbc"} <= consts and "AESxCBC" in names and why is None
    r5.require(ok, reg, "registry maps the three spellings", "get_symmetric_encryption_implementation no longer maps aes-cbc / aes_cbc / aescbc to AESxCBC or no longer raises for others%s" % (
        " (%s)" % why if why else ""))
    return rules


# ----------------------------------------------------------------------------- self-test variants
from ..selftest import V  # noqa: E402

VARIANTS = [
    V("zero-iv", "fire", "R14.", [(AES, "AESxCBC.Encrypt", "iv = os.urandom(algorithms.AES.block_size // 8)", "iv = bytes(algorithms.AES.block_size // 8)")]),
    V("short-iv", "fire", "R14.", [(AES, "AESxCBC.Encrypt", "iv = os.urandom(algorithms.AES.block_size // 8)", "iv = os.urandom(8) * 2")]),
    V("iv-not-returned", "fire", "R14.1", [(AES, "AESxCBC.Encrypt", "return iv + encryptor.update(padded_message) + encryptor.finalize()", "return encryptor.update(padded_message) + encryptor.finalize()")]),
    V("pad-block-size-differs", "fire", "R14.2", [(AES, "AESxCBC.Decrypt", "output = pkcs7_unpad(padded_plaintext, algorithms.AES.block_size)", "output = pkcs7_unpad(padded_plaintext, 64)")]),
    V("finalize-dropped", "fire", "R14.2", [(AES, "AESxCBC.Decrypt", "padded_plaintext = decryptor.update(cipher_text) + decryptor.finalize()", "padded_plaintext = decryptor.update(cipher_text)")]),
    V("decrypt-offset-differs", "fire", "R14.1", [(AES, "AESxCBC.Decrypt", "cipher_text[algorithms.AES.\n                                                      block_size // 8:]", "cipher_text[algorithms.AES.\n                                                      block_size // 4:]")]),
    V("key-guard-dropped", "fire", "R14.4", [(AES, "AESxCBC.Encrypt", "        if len(key) != self.key_length:\n            raise ValueError(\"Key length mismatch for AES-CBC.\")\n", "")]),
    V("unpad-error-swallowed", "fire", "R14.5", [(PAD, "pkcs7_unpad", "    output += unpadder.finalize()\n", "    try:\n        output += unpadder.finalize()\n    except ValueError:\n        return b''\n")]),
    V("padder-finalize-dropped", "fire", "R14.2", [(PAD, "pkcs7_pad", "    padded_message += padder.finalize()\n", "")]),
    V("benign-iv-len-name", "silent", None, [(AES, "AESxCBC.Encrypt", "iv = os.urandom(algorithms.AES.block_size // 8)", "n_iv = algorithms.AES.block_size // 8\n        iv = os.urandom(n_iv)")]),
]
