"""C11 - client workflow: steps out of order are refused, the key is write-once.

Abstract interpretation of the six client operations over the exact finite domain of the five
persisted flag bits (relations between the flags at the last server re-synchronisation and the
current flags), plus structural rules: no dropped validity check, key write-once, pure refusals,
flag algebra, persist-after-store, alias registered once.  See DESIGN.md section 3, C11.
"""
import ast

from ..core import Rule
from ..model import AnalysisError, dotted, unparse, short
from ..cfg import cfg_of, calls_in_order
from ..effects import EffectScanner, stmts_in_order
from ..guards import refine_bool
from ..cfg import forward
from .. import frontend as F

EXPLANATION = ("Abstract interpretation of the client's six operations over the exact domain of the five flag bits "
               "(sets of (flags at last server re-sync, current flags) pairs, 1024 elements), interprocedural through "
               "the Service's own methods, with havoc of the upload flags at await points; every durable write, flag "
               "store and send is checked against the prerequisite row of its operation.  Further structural rules: "
               "predicate results are not dropped and the validity check guards service creation, the key file has one "
               "guarded writer and is never deleted, refusal paths are effect-free, the flag getters/setters use matching "
               "bits, every flag store is followed by persistence, the alias is registered once.")
ASSUMPTIONS = ["each operation runs on a Service freshly loaded from disk (as commands.py does)",
               "the echo handlers are the only code that runs concurrently with an awaiting operation",
               "behaviour against a live server (values) is not examined"]

FLAGS = ["config_created", "config_uploaded", "key_created", "db_encrypted", "db_uploaded"]
CC, CU, KC, DE, DU = FLAGS

# operation -> (handler, required-true flags, required-false flags)
ROWS = {
    "create-config": ("handle_create_config", [], [CC]),
    "create-key": ("handle_create_key", [CC], [KC]),
    "encrypt": ("handle_encrypt_database", [CC, KC], [DE]),
    "upload-config": ("handle_upload_config", [CC], [CU]),
    "upload-db": ("handle_upload_encrypted_database", [CU, KC], [DU]),
    "search": ("handle_keyword_search", [DU], []),
}
RESYNC_FN = "update_current_client_service_state_by_server_service_state"


class FlagModel:
    """Bit table and the getter/setter -> bit maps, read from the source (validated by R11.5)."""

    def __init__(self, repo, rule):
        self.repo = repo
        m = repo.module(F.CLI)
        self.module = m
        self.bits = {}
        for nm, v in m.globals.items():
            if nm.startswith("_BIT_"):
                try:
                    self.bits[nm] = repo.const_value(m, v)
                except Exception:
                    raise AnalysisError("bit constant %s not constant" % nm)
        self.cls = repo.cls(F.CLI, "ClientServiceState")
        self.getter_bit = {}
        self.setter_bit = {}
        self._parse(rule)

    def _bit_of(self, node):
        if isinstance(node, ast.Name) and node.id in self.bits:
            return self.bits[node.id]
        try:
            v = self.repo.const_value(self.module, node)
            return v if isinstance(v, int) else None
        except Exception:
            return None

    def _strip_test(self, e):
        """bool(x), x != 0, x > 0, (x) == MASK with the same mask -> x"""
        while True:
            if isinstance(e, ast.Call) and dotted(e.func) in ("bool", "int") and len(e.args) == 1:
                e = e.args[0]
            elif isinstance(e, ast.Compare) and len(e.ops) == 1 and isinstance(e.ops[0], (ast.NotEq, ast.Gt)) and \
                    isinstance(e.comparators[0], ast.Constant) and e.comparators[0].value == 0:
                e = e.left
            elif isinstance(e, ast.Compare) and len(e.ops) == 1 and isinstance(e.ops[0], ast.Eq) and isinstance(e.left, ast.BinOp) and \
                    isinstance(e.left.op, ast.BitAnd) and any(unparse(x) == unparse(e.comparators[0]) for x in (e.left.left, e.left.right)):
                e = e.left
            else:
                return e

    def _bitfn(self, e, p):
        """The expression as a function of the state word p: (A, O) with value (p & A) | O, or None."""
        if e is None:
            return None
        if isinstance(e, ast.Name) and e.id == p:
            return (-1, 0)
        c = self._bit_of(e) if not (isinstance(e, ast.Name) and e.id == p) else None
        if c is not None and not isinstance(c, bool):
            return (0, c)
        if isinstance(e, ast.Call) and dotted(e.func) == "int" and len(e.args) == 1:
            return self._bitfn(e.args[0], p)
        if isinstance(e, ast.UnaryOp) and isinstance(e.op, ast.Invert):
            f = self._bitfn(e.operand, p)
            if f is not None and f[0] == 0:
                return (0, ~f[1])
            return None
        if isinstance(e, ast.BinOp) and isinstance(e.op, (ast.BitOr, ast.BitAnd)):
            l, r = self._bitfn(e.left, p), self._bitfn(e.right, p)
            if l is None or r is None:
                return None
            if isinstance(e.op, ast.BitOr):
                o = l[1] | r[1]
                return (l[0] | r[0], o)
            o = l[1] & r[1]
            return (((l[0] | l[1]) & (r[0] | r[1])) & ~o, o)
        return None

    def _ret_paths(self, fi, flag_param):
        """(value of the flag parameter on the path: True/False/None, returned expression) for every path of a
        branch-on-the-flag function; anything else yields (None, None) so that the caller reports it."""
        from ..model import inline_locals

        def cond_of(test):
            t = test
            neg = False
            while isinstance(t, ast.UnaryOp) and isinstance(t.op, ast.Not):
                neg, t = not neg, t.operand
            if isinstance(t, ast.Call) and dotted(t.func) == "bool" and len(t.args) == 1:
                t = t.args[0]
            if isinstance(t, ast.Compare) and len(t.ops) == 1 and isinstance(t.ops[0], (ast.Is, ast.Eq)) and \
                    isinstance(t.comparators[0], ast.Constant) and t.comparators[0].value in (True, False):
                if t.comparators[0].value is False:
                    neg = not neg
                t = t.left
            if isinstance(t, ast.Name) and flag_param is not None and t.id == flag_param:
                return not neg
            return None

        def expr_paths(e, c):
            if isinstance(e, ast.IfExp):
                k = cond_of(e.test)
                if k is None:
                    yield (None, None)
                    return
                if c in (None, k):
                    yield from expr_paths(e.body, k)
                if c in (None, not k):
                    yield from expr_paths(e.orelse, not k)
                return
            yield (c, inline_locals(fi.node, e))

        def walk(stmts, c):
            """yields paths; returns True when the list always returns"""
            for i, st in enumerate(stmts):
                if isinstance(st, ast.Return):
                    yield from expr_paths(st.value, c)
                    return
                if isinstance(st, ast.If):
                    k = cond_of(st.test)
                    if k is None:
                        yield (None, None)
                        return
                    rest = stmts[i + 1:]
                    if c in (None, k):
                        yield from walk(st.body + rest, k)
                    if c in (None, not k):
                        yield from walk(st.orelse + rest, not k)
                    return
                if isinstance(st, (ast.Expr, ast.Assign, ast.AnnAssign, ast.Pass)):
                    continue
                yield (None, None)
                return
            yield (c, None)
        return list(walk(fi.node.body, None))

    def _parse(self, rule):
        for flag in FLAGS:
            g = self.cls.methods.get("is_" + flag)
            s = self.cls.methods.get("set_" + flag)
            if g is None or s is None:
                raise AnalysisError("ClientServiceState.is_%s/set_%s vanished" % (flag, flag))
            # getter: every path returns a test of one mask of the state word; setter: flag true -> p | BIT, false -> p & ~BIT
            # (decided on the bit functions p -> (p & A) | O of the returned expressions, path by path, not on their spelling)
            gb = None
            gfn = [self._bitfn(self._strip_test(e), g.params[0]) for c, e in self._ret_paths(g, None)]
            if gfn and all(f is not None and f[1] == 0 for f in gfn) and len({f[0] for f in gfn}) == 1:
                gb = gfn[0][0]
            sb_set = sb_clr = None
            p0 = s.params[0]
            p1 = s.params[1] if len(s.params) > 1 else None
            sets, clrs = [], []
            for c, e in self._ret_paths(s, p1):
                f = self._bitfn(e, p0)
                if c in (True, None):
                    sets.append(f)
                if c in (False, None):
                    clrs.append(f)
            if sets and all(f is not None and (f[0] | f[1]) == -1 and f[1] > 0 for f in sets) and len({f[1] for f in sets}) == 1:
                sb_set = sets[0][1]
            if clrs and all(f is not None and f[1] == 0 and f[0] < 0 for f in clrs) and len({f[0] for f in clrs}) == 1:
                sb_clr = ~clrs[0][0]
            desc = {"flag": flag, "getter_bit": gb, "set_bit": sb_set, "clear_bit": sb_clr}
            if gb is not None and gb == sb_set == sb_clr and gb > 0 and (gb & (gb - 1)) == 0:
                rule.ok(desc)
            else:
                rule.fail_fn(s if gb is not None else g, None, "flag algebra %s" % flag,
                             "is_%s/set_%s do not use one and the same single bit (getter %s, set %s, clear %s)" % (
                                 flag, flag, gb, sb_set, sb_clr), witness=desc)
            self.getter_bit[flag] = gb
            self.setter_bit[flag] = (sb_set, sb_clr)
        vals = [v for v in self.getter_bit.values() if v]
        rule.require(len(set(vals)) == len(FLAGS), self.cls.methods["is_" + FLAGS[0]], "flag bits distinct",
                     "two flags share a bit: %s" % self.getter_bit)
        self.flag_bit = dict(self.getter_bit)
        self.width = 0
        for v in vals:
            self.width |= v


class Interp:
    """Interprocedural abstract interpreter over sets of (pre, cur) flag pairs."""

    def __init__(self, repo, fm, scanner):
        self.repo, self.fm, self.scanner = repo, fm, scanner
        self.cls = repo.cls(F.CLI, "Service")
        self.records = []  # (fi, cfgnode, effect, state, chain)
        self.memo = {}
        allbits = sorted(set(v for v in fm.flag_bit.values() if v))
        self.universe = []
        n = len(allbits)
        for mask in range(1 << n):
            v = 0
            for i, b in enumerate(allbits):
                if mask & (1 << i):
                    v |= b
            self.universe.append(v)

    # -- expressions -----------------------------------------------------------
    def is_read(self, e):
        return F.is_state_read(self.repo, None, e)

    def eval_state_expr(self, e, s, loc=()):
        """Concrete evaluation of a flag expression for current flags s (and the flag values `loc` held by locals);
        None if not understood."""
        if self.is_read(e):
            return s
        if isinstance(e, ast.Name) and isinstance(e.ctx, ast.Load):
            for k, v in loc:
                if k == e.id:
                    return v
            return None
        if isinstance(e, ast.Call):
            d = dotted(e.func) or ""
            parts = d.split(".")
            if len(parts) >= 2 and parts[-2] == "ClientServiceState" and parts[-1].startswith("set_") and len(e.args) == 2:
                flag = parts[-1][4:]
                inner = self.eval_state_expr(e.args[0], s, loc)
                if inner is None or flag not in self.fm.setter_bit:
                    return None
                sb, cb = self.fm.setter_bit[flag]
                if isinstance(e.args[1], ast.Constant) and sb and cb:
                    return (inner | sb) if e.args[1].value else (inner & ~cb)
                return None
        if isinstance(e, ast.BinOp):
            l, r = self.eval_state_expr(e.left, s, loc), self.eval_state_expr(e.right, s, loc)
            if l is None or r is None:
                return None
            if isinstance(e.op, ast.BitOr):
                return l | r
            if isinstance(e.op, ast.BitAnd):
                return l & r
        if isinstance(e, ast.UnaryOp) and isinstance(e.op, ast.Invert):
            v = self.eval_state_expr(e.operand, s, loc)
            return None if v is None else ~v
        try:
            v = self.repo.const_value(self.fm.module, e)
            return v if isinstance(v, int) else None
        except Exception:
            return None

    def atom(self, expr, truth, st):
        # ClientServiceState.is_X(<read>)  /  <read> & BIT  / comparisons of those with 0
        flagbit = None
        if isinstance(expr, ast.Call):
            d = dotted(expr.func) or ""
            parts = d.split(".")
            if len(parts) >= 2 and parts[-2] == "ClientServiceState" and parts[-1].startswith("is_") and len(expr.args) == 1 \
                    and self.is_read(expr.args[0]):
                flagbit = self.fm.getter_bit.get(parts[-1][3:])
            elif len(parts) >= 2 and parts[-2] == "ClientServiceState" and parts[-1].startswith("is_") and len(expr.args) == 1 \
                    and isinstance(expr.args[0], ast.Name):
                # the predicate applied to a local that holds a flag word read earlier: it tests *that* value (which may be stale after an await)
                bit = self.fm.getter_bit.get(parts[-1][3:])
                nm = expr.args[0].id
                if bit and all(any(k == nm for k, _v in l) for (_p, _s, _w, l) in st):
                    res = frozenset(x for x in st if bool(dict(x[3])[nm] & bit) == truth)
                    return res or None
        elif isinstance(expr, ast.BinOp) and isinstance(expr.op, ast.BitAnd):
            for side, other in ((expr.left, expr.right), (expr.right, expr.left)):
                if self.is_read(other):
                    b = self.fm._bit_of(side)
                    if b:
                        flagbit = b
        elif isinstance(expr, ast.Compare) and len(expr.ops) == 1 and isinstance(expr.comparators[0], ast.Constant) \
                and expr.comparators[0].value == 0 and isinstance(expr.ops[0], (ast.Eq, ast.NotEq)):
            inner = self.atom(expr.left, truth if isinstance(expr.ops[0], ast.NotEq) else not truth, st)
            return inner
        if not flagbit:
            if isinstance(expr, ast.Compare) and len(expr.ops) == 1 and dotted(expr.left) == "self.websocket" and \
                    isinstance(expr.comparators[0], ast.Constant) and expr.comparators[0].value is None and \
                    isinstance(expr.ops[0], (ast.Is, ast.IsNot, ast.Eq, ast.NotEq)):
                want_none = truth if isinstance(expr.ops[0], (ast.Is, ast.Eq)) else not truth
                res = frozenset(x for x in st if (x[2] == 0) == want_none)
                return res or None
            return st
        res = frozenset(x for x in st if bool(x[1] & flagbit) == truth)
        return res or None

    @staticmethod
    def join(a, b):
        return a | b

    # -- statements ------------------------------------------------------------
    def run(self, fi, entry, resync=False, chain=(), depth=0):
        """Analyse fi from abstract state `entry`; returns state at normal exit (or entry if nothing reaches it)."""
        key = (fi.key, entry, resync)
        if key in self.memo:
            st, recs = self.memo[key]
            self.records.extend((a, b, c, d, chain + e) for (a, b, c, d, e) in recs)
            return st
        cfg = cfg_of(fi.node)
        local_records = []

        def transfer(node, st, record=False):
            return self.node_transfer(fi, node, st, resync, chain, depth, local_records if record else None)

        def refine(node, label, st):
            if node.kind == "test" and isinstance(label, bool):
                return refine_bool(node.ast, label, st, self.atom, self.join)
            return st
        ins, outs = forward(cfg, entry, lambda n, s: transfer(n, s), self.join, refine)
        for nid in sorted(ins):
            transfer(cfg.nodes[nid], ins[nid], record=True)
        exit_state = ins.get(cfg.exit, frozenset())
        self.memo[key] = (exit_state, [(a, b, c, d, e[len(chain):]) for (a, b, c, d, e) in local_records])
        self.records.extend(local_records)
        return exit_state

    def node_transfer(self, fi, node, st, resync, chain, depth, rec):
        if node.stmt is None or node.ast is None or node.kind == "except":
            return st
        exprs = [node.ast] if node.kind == "test" else None
        stmt = node.stmt
        from ..cfg import header_exprs
        for e in (exprs if exprs is not None else header_exprs(stmt)):
            if e is None:
                continue
            for call in calls_in_order(e):
                st = self.call_transfer(fi, node, call, st, resync, chain, depth, rec)
        # direct store self.service_meta["state"] = expr
        if node.kind == "stmt" and isinstance(stmt, ast.Assign):
            for t in stmt.targets:
                if isinstance(t, ast.Subscript) and dotted(t.value) == "self.service_meta" and \
                        isinstance(t.slice, ast.Constant) and t.slice.value == "state":
                    st = self.store(fi, node, stmt, stmt.value, st, resync, chain, rec)
                if dotted(t) == "self.websocket":
                    isnone = isinstance(stmt.value, ast.Constant) and stmt.value.value is None
                    st = frozenset((p, s, 0 if isnone else 1, l) for (p, s, w, l) in st)
        bound = set()
        roots = [stmt] if node.kind in ("stmt", "return") else [getattr(stmt, "target", None)] + [it_.optional_vars for it_ in getattr(stmt, "items", [])]
        for r_ in roots if node.kind in ("stmt", "for", "with") else []:
            if r_ is None:
                continue
            for x in ast.walk(r_):
                if isinstance(x, ast.Name) and isinstance(x.ctx, (ast.Store, ast.Del)):
                    bound.add(x.id)
        if bound:
            single = stmt.targets[0].id if node.kind == "stmt" and isinstance(stmt, ast.Assign) and len(stmt.targets) == 1 and \
                isinstance(stmt.targets[0], ast.Name) else None
            new = set()
            for (p, s, w, l) in st:
                l2 = frozenset((k, v) for (k, v) in l if k not in bound)
                if single is not None:
                    v = self.eval_state_expr(stmt.value, s, l)
                    if v is not None and not isinstance(stmt.value, ast.Constant):
                        l2 = l2 | {(single, v & self.fm.width)}
                new.add((p, s, w, l2))
            st = frozenset(new)
        if node.has_await:
            # the echo handlers may run while this coroutine is suspended: they set the upload flags
            cu, du = self.fm.flag_bit[CU], self.fm.flag_bit[DU]
            st = frozenset((p | x, s | x, w, l) for (p, s, w, l) in st for x in (0, cu, du, cu | du))
        return st

    def store(self, fi, node, where, expr, st, resync, chain, rec):
        out = set()
        unknown = False
        for (p, s, w, l) in st:
            v = self.eval_state_expr(expr, s, l)
            if v is None:
                unknown = True
                break
            v &= self.fm.width
            out.add((v, v, w, l) if resync else (p, v, w, l))
        if rec is not None:
            rec.append((fi, node, ("flag_store", where, expr, resync, unknown), st, chain))
        if unknown:
            return frozenset((p, u, w, l) for (p, s, w, l) in st for u in self.universe)
        return frozenset(out)

    def call_transfer(self, fi, node, call, st, resync, chain, depth, rec):
        d = dotted(call.func) or ""
        if d == "self.set_current_service_state" and len(call.args) == 1:
            return self.store(fi, node, call, call.args[0], st, resync, chain, rec)
        target = self.repo.resolve_call(fi, call)
        effs = self.scanner.classify_call(fi, call, depth=99)  # no expansion: we recurse ourselves
        for e in effs:
            if e.kind in ("fm", "send") and rec is not None:
                rec.append((fi, node, e, st, chain))
        if hasattr(target, "module") and target.module.rel == F.CLI and target.cls is not None \
                and target.cls.name == "Service" and depth < 5 and target.qual not in chain and target.key != fi.key:
            sub_resync = resync or target.name == RESYNC_FN
            if target.name == RESYNC_FN and getattr(self, "resync_model", None) is not None:
                out = set()
                for (p, s0, w, l) in st:
                    for k in (0, 1, 2):
                        for v in self.resync_model.run_all(k, s0) or ():
                            out.add((v, v, w, l))
                if rec is not None:
                    rec.append((fi, node, ("flag_store", call, call, True, False), st, chain))
                return frozenset(out)
            # the callee has its own locals: analyse it once per valuation of the caller's flag-holding locals
            groups = {}
            for (p, s, w, l) in st:
                groups.setdefault(l, set()).add((p, s, w, frozenset()))
            res = set()
            for l, part in sorted(groups.items(), key=lambda kv: sorted(kv[0])):
                ex = self.run(target, frozenset(part), sub_resync, chain + (target.qual,), depth + 1)
                res |= {(p, s, w, l) for (p, s, w, _l) in (ex or part)}
            return frozenset(res)
        return st


class ResyncModel:
    """Constant-propagating evaluation of the re-synchronisation function for a concrete server state k
    and concrete current flags s.  Returns the resulting flags, or None when a construct is not understood."""

    class _Unknown(Exception):
        pass

    def __init__(self, repo, fm):
        self.repo, self.fm = repo, fm
        self.fi = repo.func(F.CLI, "Service." + RESYNC_FN)
        self.param = self.fi.params[1] if len(self.fi.params) > 1 else None

    def run(self, k, s):
        """The resulting flags when every outcome agrees, None when a construct is not understood.  `run_all` gives the set."""
        outs = self.run_all(k, s)
        if outs is None or len(outs) != 1:
            return None
        return next(iter(outs))

    def run_all(self, k, s):
        """All flag vectors the function can leave, a test the evaluator cannot decide (`self.edb is None`) being taken both ways."""
        results, stack, runs = set(), [[]], 0
        while stack:
            pre = stack.pop()
            runs += 1
            if runs > 256:
                return None
            self.choices, self.made, self.depth = list(pre), [], 0
            env = {self.param: k}
            self.cur = s
            try:
                self._block(self.fi.node.body, env)
            except ResyncModel._Unknown:
                return None
            except _Return:
                pass
            results.add(self.cur & self.fm.width)
            for i in range(len(pre), len(self.made)):
                stack.append(self.made[:i] + [True])
        return results

    def _choose(self):
        i = len(self.made)
        v = self.choices[i] if i < len(self.choices) else False
        self.made.append(v)
        return v

    def _test(self, e, env):
        if isinstance(e, ast.BoolOp):
            for v in e.values:
                t = self._test(v, env)
                if isinstance(e.op, ast.And) and not t:
                    return False
                if isinstance(e.op, ast.Or) and t:
                    return True
            return isinstance(e.op, ast.And)
        if isinstance(e, ast.UnaryOp) and isinstance(e.op, ast.Not):
            return not self._test(e.operand, env)
        try:
            return bool(self._ev(e, env))
        except ResyncModel._Unknown:
            # a condition on something else than the flags and the reported state: both outcomes are possible,
            # provided evaluating it cannot itself store flags
            for c in ast.walk(e):
                if isinstance(c, ast.Call) and not F.is_state_read(self.repo, None, c):
                    d = dotted(c.func) or ""
                    if not (d.split(".")[-1].startswith(("is_", "has_", "exists", "isinstance", "len")) or d in ("isinstance", "len", "bool")):
                        raise
            return self._choose()

    def _method(self, name):
        cls = self.fi.qual.rsplit(".", 1)[0]
        try:
            return self.repo.func(F.CLI, cls + "." + name)
        except Exception:
            return None

    def _block(self, stmts, env):
        for st in stmts:
            if isinstance(st, ast.Expr) and isinstance(st.value, ast.Constant):
                continue
            if isinstance(st, ast.Pass):
                continue
            if isinstance(st, ast.Return):
                if st.value is not None:
                    raise _Return(self._ev(st.value, env))
                raise _Return()
            if isinstance(st, ast.Assign) and len(st.targets) == 1 and isinstance(st.targets[0], ast.Name):
                env[st.targets[0].id] = self._ev(st.value, env)
                continue
            if isinstance(st, ast.Assign) and len(st.targets) == 1 and isinstance(st.targets[0], (ast.Tuple, ast.List)) and \
                    isinstance(st.value, (ast.Tuple, ast.List)) and len(st.value.elts) == len(st.targets[0].elts) and \
                    all(isinstance(x, ast.Name) for x in st.targets[0].elts):
                vals = [self._ev(v, env) for v in st.value.elts]
                for x, v in zip(st.targets[0].elts, vals):
                    env[x.id] = v
                continue
            if isinstance(st, ast.Assign) and len(st.targets) == 1 and isinstance(st.targets[0], ast.Subscript) and \
                    dotted(st.targets[0].value) == "self.service_meta":
                self.cur = self._ev(st.value, env)
                continue
            if isinstance(st, ast.Expr) and isinstance(st.value, ast.Call):
                if (dotted(st.value.func) or "").split(".")[0] in ("logger", "logging", "print"):
                    continue
                self._ev(st.value, env)
                continue
            if isinstance(st, ast.If):
                if self._test(st.test, env):
                    self._block(st.body, env)
                else:
                    self._block(st.orelse, env)
                continue
            raise ResyncModel._Unknown()

    def _ev(self, e, env):
        U = ResyncModel._Unknown
        if isinstance(e, ast.Constant):
            return e.value
        if isinstance(e, ast.Name):
            if e.id in env:
                return env[e.id]
            raise U()
        if F.is_state_read(self.repo, None, e):
            return self.cur
        if isinstance(e, ast.Call):
            d = dotted(e.func) or ""
            parts = d.split(".")
            if d == "self.set_current_service_state" and len(e.args) == 1:
                self.cur = self._ev(e.args[0], env)
                return None
            if len(parts) >= 2 and parts[-2] == "ClientServiceState" and len(e.args) >= 1:
                a0 = self._ev(e.args[0], env)
                if parts[-1].startswith("is_") and parts[-1][3:] in self.fm.getter_bit and self.fm.getter_bit[parts[-1][3:]]:
                    return bool(a0 & self.fm.getter_bit[parts[-1][3:]])
                if parts[-1].startswith("set_") and parts[-1][4:] in self.fm.setter_bit and len(e.args) == 2:
                    sb, cb = self.fm.setter_bit[parts[-1][4:]]
                    if not sb or not cb:
                        raise U()
                    return (a0 | sb) if self._ev(e.args[1], env) else (a0 & ~cb)
            if d == "bool" and len(e.args) == 1:
                return bool(self._ev(e.args[0], env))
            if len(parts) == 2 and parts[0] == "self" and not e.keywords and self.depth < 4:
                # another method of the service called from the re-synchronisation: evaluated in place
                m = self._method(parts[1])
                if m is not None and len(m.params) == len(e.args) + 1 and not isinstance(m.node, ast.AsyncFunctionDef):
                    env2 = {p: self._ev(a, env) for p, a in zip(m.params[1:], e.args)}
                    self.depth += 1
                    try:
                        self._block(m.node.body, env2)
                    except _Return as r:
                        return r.args[0] if r.args else None
                    finally:
                        self.depth -= 1
                    return None
            raise U()
        if isinstance(e, ast.Compare):
            left = self._ev(e.left, env)
            for op, c in zip(e.ops, e.comparators):
                right = self._ev(c, env)
                t = type(op)
                if t in (ast.Eq, ast.Is):
                    ok = left == right
                elif t in (ast.NotEq, ast.IsNot):
                    ok = left != right
                elif t is ast.Lt:
                    ok = left < right
                elif t is ast.LtE:
                    ok = left <= right
                elif t is ast.Gt:
                    ok = left > right
                elif t is ast.GtE:
                    ok = left >= right
                elif t is ast.In:
                    ok = left in right
                elif t is ast.NotIn:
                    ok = left not in right
                else:
                    raise U()
                if not ok:
                    return False
                left = right
            return True
        if isinstance(e, ast.BoolOp):
            vals = [self._ev(v, env) for v in e.values]
            return all(vals) if isinstance(e.op, ast.And) else any(vals)
        if isinstance(e, ast.UnaryOp):
            v = self._ev(e.operand, env)
            if isinstance(e.op, ast.Not):
                return not v
            if isinstance(e.op, ast.Invert):
                return ~v
            raise U()
        if isinstance(e, ast.BinOp):
            l, r = self._ev(e.left, env), self._ev(e.right, env)
            if isinstance(e.op, ast.BitOr):
                return l | r
            if isinstance(e.op, ast.BitAnd):
                return l & r
            raise U()
        if isinstance(e, ast.IfExp):
            return self._ev(e.body if self._ev(e.test, env) else e.orelse, env)
        if isinstance(e, (ast.Tuple, ast.List, ast.Set)):
            return [self._ev(x, env) for x in e.elts]
        try:
            return self.repo.const_value(self.fm.module, e)
        except Exception:
            raise U()


class _Return(Exception):
    pass


def _check_resync(repo, rule, fm, it):
    """After re-synchronisation with server state k the upload flags are exactly (k >= 1, k == 2), other flags unchanged."""
    rm = ResyncModel(repo, fm)
    cu, du = fm.flag_bit[CU], fm.flag_bit[DU]
    states = F.service_states(repo, F.CLI)
    ks = sorted(set(states.values()))
    rule.require(ks == [0, 1, 2], rm.fi, "client SERVICE_STATE constants", "the client's SERVICE_STATE constants are %s, expected 0,1,2" % ks)
    srv = sorted(set(F.service_states(repo, F.SRV).values()))
    rule.require(srv == ks, rm.fi, "SERVICE_STATE agreement", "client and server disagree on the SERVICE_STATE constants: %s vs %s" % (ks, srv))
    understood = True
    for k in (0, 1, 2):
        for s in it.universe:
            outs = rm.run_all(k, s)
            if outs is None:
                understood = False
                break
            want = (s & ~(cu | du)) | (cu if k >= 1 else 0) | (du if k == 2 else 0)
            bad = sorted(o for o in outs if o != want)
            out = bad[0] if bad else want
            if out != want:
                rule.fail_fn(rm.fi, rm.fi.node, "resync result for server state %d" % k,
                             "re-synchronising with server state %d from flags [%s] yields [%s], expected [%s] "
                             "(config_uploaded = state >= 1, db_uploaded = state == 2, other flags untouched)" % (
                                 k, _names(fm, s), _names(fm, out), _names(fm, want)))
                return rm, True
        if not understood:
            break
    if understood:
        rule.ok({"function": rm.fi.qual, "evaluated": "3 server states x %d flag vectors" % len(it.universe)})
    else:
        rule.note("re-synchronisation function uses constructs the constant evaluator does not model; falling back to the abstract interpreter")
        # what can still be said without evaluating: nothing reachable from the re-synchronisation applies the setter of another flag
        seen, todo = set(), [rm.fi]
        while todo:
            f = todo.pop()
            if f.key in seen:
                continue
            seen.add(f.key)
            for c in ast.walk(f.node):
                if not isinstance(c, ast.Call):
                    continue
                parts = (dotted(c.func) or "").split(".")
                if len(parts) >= 2 and parts[-2] == "ClientServiceState" and parts[-1].startswith("set_") and parts[-1][4:] in fm.setter_bit:
                    sb, cb = fm.setter_bit[parts[-1][4:]]
                    rule.require(bool(sb) and not ((sb | (cb or 0)) & ~(cu | du)), f, "setter applied during re-synchronisation",
                                 "the re-synchronisation with the server's state applies %s: only the two upload flags may follow the server, the steps done locally stay done" % parts[-1], c)
                if len(parts) == 2 and parts[0] == "self":
                    m = rm._method(parts[1])
                    if m is not None and len(seen) < 12:
                        todo.append(m)
    # the re-synchronisation runs on every successful connect, for every reported state (0 is falsy!)
    lw = repo.func(F.CLI, "Service.load_websocket")
    cfg = cfg_of(lw.node)
    sync_nodes = {n.id for n in cfg.nodes if n.ast is not None and n.stmt is not None and any(
        dotted(c.func) == "self." + RESYNC_FN for c in calls_in_order(n.stmt if n.kind != "test" else n.ast))}
    conn = [n.id for n in cfg.nodes if n.kind == "stmt" and isinstance(n.stmt, ast.Assign) and any(unparse(t) == "self.websocket" for t in n.stmt.targets)
            and not (isinstance(n.stmt.value, ast.Constant) and n.stmt.value.value is None)]
    ok = bool(sync_nodes) and bool(conn) and all(cfg.must_pass(cn, sync_nodes) or cn in sync_nodes for cn in conn)
    rule.require(ok, lw, "resync on every successful connect",
                 "load_websocket can finish a successful connect without re-synchronising the upload flags from the server's state (e.g. skipped when the reported state is 0): "
                 "stale upload flags then survive a server that lost or never had the service")
    for n in sync_nodes:
        for c in calls_in_order(cfg.nodes[n].stmt):
            if dotted(c.func) == "self." + RESYNC_FN and c.args and isinstance(c.args[0], ast.Name):
                defs = [st for st in ast.walk(lw.node) if isinstance(st, ast.Assign) and any(isinstance(t, ast.Name) and t.id == c.args[0].id for t in st.targets)]
                src_ok = bool(defs) and all(isinstance(d.value, ast.Call) and isinstance(d.value.func, ast.Attribute) and d.value.func.attr == "get" and d.value.args and
                                            isinstance(d.value.args[0], ast.Constant) and d.value.args[0].value == "state" for d in defs)
                rule.require(src_ok, lw, "resync uses the reported state", "load_websocket re-synchronises with something other than the 'state' field of the init echo")
    return rm, understood


def _pred(fm, req_true, req_false):
    tb = [fm.flag_bit[f] for f in req_true]
    fb = [fm.flag_bit[f] for f in req_false]

    def ok(p):
        return all(p & b for b in tb) and not any(p & b for b in fb)
    return ok


def _names(fm, v):
    return "+".join(f for f in FLAGS if fm.flag_bit[f] and v & fm.flag_bit[f]) or "none"


def check(repo):
    rules = []
    r5 = Rule("R11.5", "flag algebra: getters and setters use one distinct bit per flag")
    rules.append(r5)
    fm = FlagModel(repo, r5)
    scanner = EffectScanner(repo)
    svc = repo.cls(F.CLI, "Service")
    mt = F.msg_types(repo)

    r1 = Rule("R11.1", "effects only under the prerequisite flags of their operation")
    r4 = Rule("R11.4", "refusal paths are pure")
    r6 = Rule("R11.6", "every flag store is followed by persistence; loader reads what was persisted")
    rules += [r1, r4, r6]
    it0 = Interp(repo, fm, scanner)
    r8 = Rule("R11.8", "server re-synchronisation restores exactly the two upload flags")
    rules.append(r8)
    resync_model, understood = _check_resync(repo, r8, fm, it0)
    expected_send = {"upload-config": mt.get("CONFIG"), "upload-db": mt.get("UPLOAD_DB"), "search": mt.get("TOKEN")}
    expected_writes = {"create-config": {"create_sid_folder", "write_service_config", "write_service_meta"},
                       "create-key": {"write_key", "write_service_meta"},
                       "encrypt": {"write_encrypted_database", "write_service_meta"}}
    expected_flag = {"create-config": CC, "create-key": KC, "encrypt": DE}
    for op, (hname, req_t, req_f) in ROWS.items():
        fi = svc.methods.get(hname)
        if fi is None:
            raise AnalysisError("client handler vanished: %s" % hname)
        it = Interp(repo, fm, scanner)
        it.resync_model = resync_model if understood else None
        entry = frozenset((v, v, w, frozenset()) for v in it.universe for w in (0, 1))
        it.run(fi, entry)
        pred = _pred(fm, req_t, req_f)
        seen_fm, seen_send, seen_flags = set(), set(), set()
        for (f, node, e, st, chain) in it.records:
            in_resync = any(c.endswith("." + RESYNC_FN) for c in chain) or f.name == RESYNC_FN
            if isinstance(e, tuple) and e[0] == "flag_store":
                _, where, expr, resync, unknown = e
                if resync or in_resync:
                    continue
                if unknown:
                    r1.fail_fn(f, where, "flag store not understood", "flag store with a value the analysis cannot evaluate: %s" % short(where))
                    continue
                # which flags does it change?
                changed = set()
                for (p, s, w, l) in st:
                    v = it.eval_state_expr(expr, s, l)
                    if v is None:
                        continue
                    diff = (v ^ s) & fm.width
                    for fl in FLAGS:
                        if diff & fm.flag_bit[fl]:
                            changed.add((fl, bool(v & fm.flag_bit[fl])))
                seen_flags |= changed
                what = "flag store %s" % sorted(changed)
                for (fl, val) in changed:
                    if not val:
                        r1.fail_fn(f, where, "flag %s cleared" % fl, "%s clears the %s flag outside the server re-synchronisation" % (hname, fl))
                    elif op in expected_flag and fl != expected_flag[op]:
                        r1.fail_fn(f, where, "flag %s set by %s" % (fl, op), "operation %s sets the foreign flag %s" % (op, fl))
                    elif op not in expected_flag:
                        r1.fail_fn(f, where, "flag %s set by %s" % (fl, op), "operation %s must not set flags itself (the echo handlers do)" % op)
            elif e.kind == "fm":
                if e.name.startswith(("read_", "check_")):
                    continue
                seen_fm.add(e.name)
                what = "FileManager.%s" % e.name
                if op in expected_writes and e.name not in expected_writes[op]:
                    r1.fail_fn(f, e.node, "%s in %s" % (e.name, op), "operation %s performs the foreign durable write %s" % (op, e.name))
                    continue
                if op not in expected_writes and e.name != "write_service_meta":
                    r1.fail_fn(f, e.node, "%s in %s" % (e.name, op), "operation %s performs the durable write %s" % (op, e.name))
                    continue
            elif e.kind == "send":
                seen_send.add(e.name)
                what = "send %r" % (e.name,)
                if e.name != expected_send.get(op):
                    r1.fail_fn(f, e.node, "send %r in %s" % (e.name, op), "operation %s sends message type %r, expected %r" % (op, e.name, expected_send.get(op)))
                    continue
            else:
                continue
            bad = sorted({p for (p, s, w, l) in st if not pred(p)})
            desc = {"operation": op, "in": f.qual, "effect": what, "line": getattr(node.stmt, "lineno", 0),
                    "states": len(st), "requires": {"true": req_t, "false": req_f}}
            if bad:
                r1.fail_fn(f, node.stmt, "%s unguarded in %s" % (what, op),
                           "%s can execute although the prerequisites of %s (%s set, %s clear) do not hold, e.g. with flags [%s]" % (
                               what, op, req_t, req_f, _names(fm, bad[0])), witness=desc)
                r1.instance(desc)
            else:
                r1.ok(desc)
        # the flag is set only after the durable steps of the operation (which can still refuse - the directory of an existing service,
        # a full disk): a refused step otherwise leaves this client object claiming the step is done, and the next operation passes its guard
        if op in expected_flag:
            hcfg = cfg_of(fi.node)
            store_nodes = [node.id for (f, node, e, st, chain) in it.records if f.key == fi.key and not chain and isinstance(e, tuple) and e[0] == "flag_store" and not e[3]]
            data_nodes = [(node.id, e.name) for (f, node, e, st, chain) in it.records if f.key == fi.key and not isinstance(e, tuple) and e.kind == "fm" and
                          not e.name.startswith(("read_", "check_")) and e.name != "write_service_meta"]
            late = [(sn, wn, nm) for sn in store_nodes for (wn, nm) in data_nodes if sn != wn and hcfg.can_reach(sn, wn)]
            if late:
                sn, wn, nm = late[0]
                r6.fail_fn(fi, hcfg.nodes[sn].stmt, "flag set before %s" % nm,
                           "%s sets its flag (line %d) before FileManager.%s (line %d): if that step refuses or fails, the exception leaves this client object with the flag set "
                           "for a step that did not happen, and the following operation on the same object is let through (e.g. a key generated into an existing service)" % (
                               fi.name, hcfg.nodes[sn].line, nm, hcfg.nodes[wn].line))
            else:
                r6.ok({"operation": op, "rule": "flag store after the durable data steps"})
        # presence rows
        for w in expected_writes.get(op, ()):
            r1.require(w in seen_fm, fi, "presence %s" % w, "operation %s no longer performs %s" % (op, w))
        if op in expected_flag:
            r1.require((expected_flag[op], True) in seen_flags, fi, "presence flag %s" % expected_flag[op],
                       "operation %s no longer sets the %s flag" % (op, expected_flag[op]))
        if op in expected_send:
            r1.require(expected_send[op] in seen_send, fi, "presence send", "operation %s no longer sends %r" % (op, expected_send[op]))
        if op == "upload-db":
            _check_edb_loaded_before_send(repo, r1, fi)

        _check_refusal_paths(repo, r4, fi, scanner, it)
        _check_persist_after_store(repo, r6, fi)

    # echo handlers: flag set only on ok, then persisted
    for hname, flag in (("handle_upload_config_echo", CU), ("handle_upload_encrypted_database_echo", DU)):
        fi = svc.methods.get(hname)
        if fi is None:
            raise AnalysisError("client echo handler vanished: %s" % hname)
        _check_echo_handler(repo, r1, fm, fi, flag)
        _check_persist_after_store(repo, r6, fi)
    _check_client_loader(repo, r6)
    bad_w, n_w = F.writers_persist_unconditionally(repo, F.CLI_FM)
    r6.require(n_w >= 4, repo.func(F.CLI, "Service._store_service_meta"), "artifact writers found", "only %d artifact writers found in the client file manager" % n_w)
    for wfi, why in bad_w:
        r6.fail_fn(wfi, wfi.node, "%s skips the write" % wfi.name,
                   "%s returns without writing its argument although the service directory exists (path taken under [%s]): the step is recorded as done, "
                   "but the key / index / flags it produced are not what is on disk" % (wfi.name, why))
    if not bad_w:
        r6.ok({"file_manager": F.CLI_FM, "writers": n_w})
    # a service directory comes into being through create-service only: a writer that makes the directory itself turns a refused
    # operation on an unknown sid (whose close still stores the state) into a phantom service that later blocks the real creation
    mk = F.directory_creators(repo, F.CLI_FM)
    for wfi, call in mk:
        r4.fail_fn(wfi, call, "%s creates directories" % wfi.name,
                   "%s creates the service directory itself (%s): operations that are refused for an unknown service id then still leave files behind, and "
                   "a directory that exists makes the later creation of that service fail" % (wfi.name, short(call)))
    if not mk:
        r4.ok({"file_manager": F.CLI_FM, "rule": "only create_sid_folder creates directories"})
    sw, _n = F.creation_failures_swallowed(repo, F.CLI_FM)
    for wfi, call, names in sw:
        r4.fail_fn(wfi, call, "%s swallows a failed creation" % wfi.name,
                   "%s swallows %s around %s: when the service directory cannot be created the creation goes on, the writers find no directory and "
                   "write nothing, and a service is reported as created of which nothing is on disk" % (wfi.name, "/".join(names), short(call)))

    r2 = Rule("R11.2", "no dropped check: predicate results are used; validity check guards creation")
    rules.append(r2)
    _check_dropped_predicates(repo, r2)
    _check_validity_guard(repo, r2)

    r3 = Rule("R11.3", "key write-once")
    rules.append(r3)
    _check_key_write_once(repo, r3, fm)

    r9 = Rule("R11.9", "creating a service never overwrites an existing service directory")
    rules.append(r9)
    _check_create_refuses_existing(repo, r9)

    r7 = Rule("R11.7", "service alias registered once")
    rules.append(r7)
    _check_alias(repo, r7)
    return rules


def _check_edb_loaded_before_send(repo, rule, fi):
    cfg = cfg_of(fi.node)
    sends = [n.id for n in cfg.nodes if n.ast is not None and any(dotted(c.func) == "self._send_message" for c in calls_in_order(n.stmt if n.kind != "test" else n.ast))]
    loads = {n.id for n in cfg.nodes if n.ast is not None and any(dotted(c.func) == "self._load_sse_encrypted_database" for c in calls_in_order(n.stmt if n.kind != "test" else n.ast))}
    for s in sends:
        rule.require(bool(loads) and not cfg.can_reach(cfg.entry, s, avoid=loads), fi, "edb loaded before upload",
                     "the index upload can be sent without _load_sse_encrypted_database() having verified the local index", cfg.nodes[s].stmt)


def _check_refusal_paths(repo, r4, fi, scanner, it):
    cfg = cfg_of(fi.node)
    paths = cfg.paths(ends=[cfg.raise_exit])
    for p in paths:
        # only explicit raises of the handler
        if cfg.nodes[p[-2]].kind != "raise_stmt":
            continue
        bad = []
        for nid in p:
            n = cfg.nodes[nid]
            if n.stmt is None or n.ast is None:
                continue
            for e in scanner.node_effects(fi, n):
                if e.kind == "fm" and not e.name.startswith(("read_", "check_")):
                    bad.append(e)
                if e.kind == "send":
                    bad.append(e)
                if e.kind == "call" and e.name.endswith("set_current_service_state") and not any(RESYNC_FN in c for c in e.chain):
                    bad.append(e)
                if e.kind == "item_store" and e.info.get("base") == "service_meta" and not any(RESYNC_FN in c for c in e.chain) \
                        and not any(c.endswith("set_current_service_state") for c in e.chain):
                    bad.append(e)
        lines = [cfg.nodes[n].line for n in p if cfg.nodes[n].line]
        if bad:
            for e in bad:
                r4.fail_fn(fi, e.node, "refusal-path effect %s" % e.describe(),
                           "a refused operation performs %s before raising (lines %s)" % (e.describe(), sorted(set(lines))))
        else:
            r4.ok({"handler": fi.qual, "raise_line": cfg.nodes[p[-2]].line})


def _flag_store_nodes(cfg):
    out = []
    for n in cfg.nodes:
        if n.ast is None or n.stmt is None:
            continue
        for c in calls_in_order(n.stmt if n.kind != "test" else n.ast):
            if dotted(c.func) == "self.set_current_service_state":
                out.append(n.id)
        if isinstance(n.stmt, ast.Assign) and n.kind == "stmt":
            for t in n.stmt.targets:
                if isinstance(t, ast.Subscript) and dotted(t.value) == "self.service_meta":
                    out.append(n.id)
    return sorted(set(out))


def _persist_nodes(cfg):
    out = set()
    for n in cfg.nodes:
        if n.ast is None or n.stmt is None:
            continue
        for c in calls_in_order(n.stmt if n.kind != "test" else n.ast):
            d = dotted(c.func) or ""
            if d == "self._store_service_meta":
                out.add(n.id)
            if d.endswith("FileManager.write_service_meta") and len(c.args) >= 2 and dotted(c.args[0]) == "self.sid" \
                    and dotted(c.args[1]) == "self.service_meta":
                out.add(n.id)
    return out


def _check_persist_after_store(repo, r6, fi):
    cfg = cfg_of(fi.node)
    stores = _flag_store_nodes(cfg)
    pers = _persist_nodes(cfg)
    for s in stores:
        ok = bool(pers) and cfg.must_pass(s, pers)
        r6.require(ok, fi, "persist after flag store",
                   "a flag store at line %d can reach the end of %s without _store_service_meta()" % (cfg.nodes[s].line, fi.name),
                   cfg.nodes[s].stmt)
    # _store_service_meta itself persists (self.sid, self.service_meta)
    sm = repo.func(F.CLI, "Service._store_service_meta")
    good = any(isinstance(c, ast.Call) and (dotted(c.func) or "").endswith("write_service_meta") and len(c.args) >= 2
               and dotted(c.args[0]) == "self.sid" and dotted(c.args[1]) == "self.service_meta" for c in ast.walk(sm.node))
    r6.require(good, sm, "_store_service_meta writes the flags", "_store_service_meta no longer writes (self.sid, self.service_meta)")


def _check_client_loader(repo, r6):
    init = repo.func(F.CLI, "Service.__init__")
    got_read, got_default = F.loader_state_sources(repo, init, "check_sid_local_file_valid")
    r6.require(got_read, init, "loader reads persisted flags", "client Service.__init__ no longer loads service_meta from disk")
    r6.require(got_default, init, "loader default flags", "client Service.__init__ no longer starts an unknown service with no flags")
    m = repo.module(F.CLI_FM)
    from .c10 import _path_constants
    for art in ("service_config", "service_meta", "encrypted_database", "key"):
        rd = m.functions.get("read_" + art)
        wr = m.functions.get("write_" + art)
        if rd is None or wr is None:
            raise AnalysisError("client file_manager read/write pair for %s vanished" % art)
        a, b = _path_constants(rd), _path_constants(wr)
        finals = {x for x in b if not x.endswith(".tmp")}
        r6.require(bool(a) and a == finals, wr, "artifact name %s" % art,
                   "read_%s reads %s but write_%s produces %s" % (art, sorted(a), art, sorted(b)))


def _check_echo_handler(repo, r1, fm, fi, flag):
    """The flag is set only when the reply says ok."""
    cfg = cfg_of(fi.node)
    stores = _flag_store_nodes(cfg)
    r1.require(len(stores) >= 1, fi, "presence flag %s" % flag, "%s no longer records the acknowledged upload" % fi.name)

    # feasibility under "reply is a refusal": content.get('ok', ...) is falsy
    def atom_val(e):
        if isinstance(e, ast.Call) and isinstance(e.func, ast.Attribute) and e.func.attr == "get" and e.args \
                and isinstance(e.args[0], ast.Constant) and e.args[0].value == "ok":
            return False
        if isinstance(e, ast.Subscript) and isinstance(e.slice, ast.Constant) and e.slice.value == "ok":
            return False
        return None

    def ev(e):
        if isinstance(e, ast.UnaryOp) and isinstance(e.op, ast.Not):
            v = ev(e.operand)
            return None if v is None else not v
        if isinstance(e, ast.BoolOp):
            vals = [ev(v) for v in e.values]
            if isinstance(e.op, ast.Or):
                return True if any(v is True for v in vals) else (False if all(v is False for v in vals) else None)
            return False if any(v is False for v in vals) else (True if all(v is True for v in vals) else None)
        return atom_val(e)
    seen = {cfg.entry}
    stack = [cfg.entry]
    while stack:
        a = stack.pop()
        for b, lab in cfg.succ[a]:
            n = cfg.nodes[a]
            if n.kind == "test" and isinstance(lab, bool):
                v = ev(n.ast)
                if v is not None and v != lab:
                    continue
            if b not in seen:
                seen.add(b)
                stack.append(b)
    for s in stores:
        r1.require(s not in seen, fi, "flag %s set on refusal" % flag,
                   "%s sets the %s flag even when the server's reply is not ok" % (fi.name, flag), cfg.nodes[s].stmt)
    # the value stored sets exactly this flag
    it_ok = False
    for n in stores:
        for c in calls_in_order(cfg.nodes[n].stmt):
            d = dotted(c.func) or ""
            if d.endswith("ClientServiceState.set_" + flag) and len(c.args) == 2 and isinstance(c.args[1], ast.Constant) and c.args[1].value is True:
                it_ok = True
    r1.require(it_ok, fi, "echo sets %s" % flag, "%s does not set the %s flag" % (fi.name, flag))


def _is_predicate(fi):
    rets = [n for n in ast.walk(fi.node) if isinstance(n, ast.Return) and
            __import__("sa.model", fromlist=["enclosing_function"]).enclosing_function(n) is fi.node]
    if not rets:
        return False
    for r in rets:
        v = r.value
        if v is None:
            return False
        if isinstance(v, ast.Constant) and isinstance(v.value, bool):
            continue
        if isinstance(v, (ast.Compare, ast.BoolOp)):
            continue
        if isinstance(v, ast.UnaryOp) and isinstance(v.op, ast.Not):
            continue
        if isinstance(v, ast.Call) and isinstance(v.func, ast.Name) and v.func.id in ("bool", "isinstance", "all", "any"):
            continue
        if isinstance(v, ast.Call) and isinstance(v.func, ast.Attribute) and v.func.attr in ("exists", "is_file", "is_dir", "startswith", "endswith"):
            continue
        return False
    return True


def _check_dropped_predicates(repo, r2):
    n = 0
    for rel, m in repo.modules.items():
        for fi in m.all_functions():
            for st in stmts_in_order(fi.node):
                if isinstance(st, ast.Expr) and isinstance(st.value, (ast.Call, ast.Await)):
                    call = st.value.value if isinstance(st.value, ast.Await) else st.value
                    if not isinstance(call, ast.Call):
                        continue
                    tgt = repo.resolve_call(fi, call)
                    if hasattr(tgt, "module") and _is_predicate(tgt):
                        n += 1
                        r2.fail_fn(fi, st, "dropped result of %s" % tgt.qual,
                                   "the boolean result of %s is computed and discarded" % tgt.qual)
    preds = sum(1 for m in repo.modules.values() for fi in m.all_functions() if _is_predicate(fi))
    r2.instance({"predicate_functions": preds, "dropped_results": n})
    r2.require(preds >= 10, repo.func(F.CLI, "_check_config_valid"), "predicate floor",
               "fewer predicate functions recognised (%d) than confirmed by hand (>= 10): matcher broken" % preds)
    if not n:
        r2.ok()


def _check_validity_guard(repo, r2):
    chk = repo.func(F.CLI, "_check_config_valid")
    fi = repo.func(F.CLI, "Service.handle_create_config")
    # (a) the checker really instantiates the scheme's config inside a try and reports failure as False
    cfgc = cfg_of(chk.node)
    param = chk.params[0]
    inst = [n.id for n in cfgc.nodes if n.ast is not None and any(
        isinstance(c.func, ast.Attribute) and c.func.attr == "SSEConfig" and c.args and isinstance(c.args[0], ast.Name) and c.args[0].id == param
        for c in calls_in_order(n.stmt if n.kind != "test" else n.ast))]
    true_rets = [n.id for n in cfgc.nodes if n.kind == "return" and isinstance(n.stmt.value, ast.Constant) and n.stmt.value.value is True]
    false_rets = [n for n in cfgc.nodes if n.kind == "return" and isinstance(n.stmt.value, ast.Constant) and n.stmt.value.value is False]
    ok = bool(inst) and bool(true_rets) and all(not cfgc.can_reach(cfgc.entry, t, avoid=set(inst)) for t in true_rets)
    r2.require(ok, chk, "validity check instantiates the config",
               "_check_config_valid can return True without instantiating <scheme>.SSEConfig(config)")
    in_handler = False
    for n in false_rets:
        for h in ast.walk(chk.node):
            if isinstance(h, ast.ExceptHandler) and any(x is n.stmt for b in h.body for x in ast.walk(b)):
                in_handler = True
    raises_in_handler = any(isinstance(h, ast.ExceptHandler) and any(isinstance(x, ast.Raise) for b in h.body for x in ast.walk(b))
                            for h in ast.walk(chk.node))
    r2.require(in_handler or raises_in_handler, chk, "validity check reports failure",
               "_check_config_valid no longer reports an un-instantiable configuration (no `return False`/raise in the handler)")
    # (b) in handle_create_config the False outcome cannot reach create_sid_folder
    cfg = cfg_of(fi.node)
    alias = set()
    for st in ast.walk(fi.node):
        if isinstance(st, ast.Assign) and isinstance(st.value, ast.Call) and dotted(st.value.func) == "_check_config_valid":
            for t in st.targets:
                if isinstance(t, ast.Name):
                    alias.add(t.id)

    def atom_val(e):
        if isinstance(e, ast.Call) and dotted(e.func) == "_check_config_valid":
            return False
        if isinstance(e, ast.Name) and e.id in alias:
            return False
        return None

    def ev(e):
        if isinstance(e, ast.UnaryOp) and isinstance(e.op, ast.Not):
            v = ev(e.operand)
            return None if v is None else not v
        if isinstance(e, ast.BoolOp):
            vals = [ev(v) for v in e.values]
            if isinstance(e.op, ast.Or):
                return True if any(v is True for v in vals) else (False if all(v is False for v in vals) else None)
            return False if any(v is False for v in vals) else (True if all(v is True for v in vals) else None)
        if isinstance(e, ast.Compare) and len(e.ops) == 1 and isinstance(e.comparators[0], ast.Constant) \
                and isinstance(e.comparators[0].value, bool):
            v = ev(e.left)
            if v is None:
                return None
            eq = (v == e.comparators[0].value)
            return eq if isinstance(e.ops[0], (ast.Eq, ast.Is)) else (not eq)
        return atom_val(e)
    called = any(isinstance(c, ast.Call) and dotted(c.func) == "_check_config_valid" for c in ast.walk(fi.node))
    if not r2.require(called, fi, "validity check called", "handle_create_config no longer calls _check_config_valid"):
        return
    seen = {cfg.entry}
    stack = [cfg.entry]
    while stack:
        a = stack.pop()
        for b, lab in cfg.succ[a]:
            n = cfg.nodes[a]
            if n.kind == "test" and isinstance(lab, bool):
                v = ev(n.ast)
                if v is not None and v != lab:
                    continue
            if b not in seen:
                seen.add(b)
                stack.append(b)
    creates = [n for n in cfg.nodes if n.ast is not None and n.stmt is not None and any(
        (dotted(c.func) or "").endswith(("create_sid_folder", "write_service_config")) for c in calls_in_order(n.stmt if n.kind != "test" else n.ast))]
    r2.require(bool(creates), fi, "creation site", "handle_create_config has no create_sid_folder/write_service_config site")
    for n in creates:
        r2.require(n.id not in seen, fi, "creation reachable for invalid config",
                   "create_sid_folder/write_service_config is reachable when _check_config_valid(config) is False "
                   "(its result does not guard the creation)", n.stmt)


def _check_key_write_once(repo, r3, fm):
    sites = []
    for rel, m in repo.modules.items():
        if not rel.startswith("frontend/") and rel != "run_client.py":
            continue
        for fi in m.all_functions():
            for c in ast.walk(fi.node):
                if isinstance(c, ast.Call):
                    d = dotted(c.func) or ""
                    if d.endswith("write_key") and not (fi.module.rel == F.CLI_FM and fi.name == "write_key"):
                        sites.append((fi, c))
                    if d.endswith("ClientServiceState.set_key_created") and len(c.args) == 2 and \
                            not (isinstance(c.args[1], ast.Constant) and c.args[1].value is True):
                        r3.fail_fn(fi, c, "key flag cleared", "the key-created flag can be cleared: %s" % short(c))
                    if d.endswith("delete_sid_folder") and rel.startswith("frontend/client"):
                        r3.fail_fn(fi, c, "call of delete_sid_folder", "the client deletes a service directory (and its key)")
    r3.require(len(sites) == 1 and sites[0][0].qual == "Service.handle_create_key", sites[0][0] if sites else repo.func(F.CLI, "Service.handle_create_key"),
               "single writer of the key", "write_key must have exactly one call site, in handle_create_key; found %s" % [s[0].qual for s in sites])
    for fi, c in sites[1:] if sites and sites[0][0].qual == "Service.handle_create_key" else [s for s in sites if s[0].qual != "Service.handle_create_key"]:
        r3.fail_fn(fi, c, "extra writer of the key", "write_key is also called from %s" % fi.qual)
    # the written bytes come from a freshly generated key, written under this sid
    if sites and sites[0][0].qual == "Service.handle_create_key":
        fi, c = sites[0]
        ok = len(c.args) >= 2 and dotted(c.args[0]) == "self.sid"
        r3.require(ok, fi, "write_key target", "write_key is not applied to this service's sid", c)
        # after the write, on every normal path: kc flag store then persistence
        cfg = cfg_of(fi.node)
        wn = cfg.node_of_expr(c)
        # flag stores of the handler that set the key-created bit whatever the flags were (abstract interpretation of the
        # handler, so a store through a temporary counts as well)
        it = Interp(repo, fm, EffectScanner(repo))
        it.run(fi, frozenset((v, v, w, frozenset()) for v in it.universe for w in (0, 1)))
        stores = set()
        for (f, node, e, st, chain) in it.records:
            if f.key == fi.key and isinstance(e, tuple) and e[0] == "flag_store" and not e[3] and not e[4] and st:
                vals = [it.eval_state_expr(e[2], s_, l_) for (_p, s_, _w, l_) in st]
                if all(v is not None and (v & fm.flag_bit[KC]) for v in vals):
                    stores.add(node.id)
        pers = _persist_nodes(cfg)
        for w in wn:
            r3.require(bool(stores) and cfg.must_pass(w, stores), fi, "key flag after key write",
                       "after write_key the key-created flag is not stored on every path", c)
        for s in stores:
            r3.require(bool(pers) and cfg.must_pass(s, pers), fi, "key flag persisted",
                       "the key-created flag is not persisted on every path", cfg.nodes[s].stmt)
    # nothing in the client file manager unlinks / overwrites the key except write_key
    m = repo.module(F.CLI_FM)
    from .c10 import _path_constants
    for fn in m.functions.values():
        consts = _path_constants(fn)
        mutates = any(isinstance(c, ast.Call) and ((dotted(c.func) or "").split(".")[-1] in ("unlink", "rmtree", "remove", "rename", "replace", "write_bytes", "write_text")
                                                    or ((dotted(c.func) or "") == "open" and _writes(c))) for c in ast.walk(fn.node))
        if "key" in consts and mutates and fn.name != "write_key":
            r3.fail_fn(fn, fn.node, "key file mutated by %s" % fn.name, "%s can modify or delete the key file" % fn.name)
        else:
            r3.ok()
    dele = m.functions.get("delete_encrypted_database")
    if dele is not None:
        r3.require(_path_constants(dele) == {"edb"}, dele, "delete_encrypted_database target",
                   "delete_encrypted_database removes %s, expected only 'edb'" % sorted(_path_constants(dele)))


def _check_create_refuses_existing(repo, r9):
    """handle_create_config resets config, flags (and thereby the key) of the sid it computes.  The sid is
    a digest of the salted config, and a config that already carries a salt keeps it - so the same sid can
    come back.  The only thing that refuses this is create_sid_folder raising on an existing directory."""
    csf = repo.func(F.CLI_FM, "create_sid_folder")
    mk = [c for c in ast.walk(csf.node) if isinstance(c, ast.Call) and isinstance(c.func, ast.Attribute) and c.func.attr in ("mkdir", "makedirs")]
    hc = repo.func(F.CLI, "Service.handle_create_config")
    # an explicit refusal in the handler also counts: a test on directory existence whose true branch raises
    explicit = False
    for st in ast.walk(hc.node):
        if isinstance(st, ast.If) and any(isinstance(c, ast.Call) and ((dotted(c.func) or "").endswith(("check_sid_local_file_valid", "exists")))
                                           for c in ast.walk(st.test)) and any(isinstance(x, ast.Raise) for b in st.body for x in ast.walk(b)):
            explicit = True
    for st in ast.walk(csf.node):
        if isinstance(st, ast.If) and any(isinstance(c, ast.Call) and isinstance(c.func, ast.Attribute) and c.func.attr == "exists" for c in ast.walk(st.test)) \
                and any(isinstance(x, ast.Raise) for b in st.body for x in ast.walk(b)):
            explicit = True
    tolerant = [c for c in mk if any(k.arg == "exist_ok" and not (isinstance(k.value, ast.Constant) and k.value.value is False) for k in c.keywords)]
    tolerant += [c for c in mk if c not in tolerant and F.tolerates_existing(c)]
    skipping = any(isinstance(st, ast.If) and any(isinstance(c, ast.Call) and isinstance(c.func, ast.Attribute) and c.func.attr == "exists" for c in ast.walk(st.test))
                   and not any(isinstance(x, ast.Raise) for b in st.body for x in ast.walk(b)) for st in ast.walk(csf.node))
    r9.require(bool(mk), csf, "client create_sid_folder mkdir", "client create_sid_folder no longer creates the directory")
    r9.require(explicit or (not tolerant and not skipping), csf, "create over existing service",
               "client create_sid_folder tolerates an existing directory and handle_create_config has no explicit refusal: creating a "
               "service from a configuration that already carries a salt (e.g. the stored config of an existing service) silently "
               "resets that service's flags, after which its key is regenerated and the uploaded index becomes unsearchable")
    # the sid is derived from the config content, after salting
    # (roles, not names: the salting is a call - or an inline store - that puts fresh random bytes under a constant key of the
    # configuration; the derivation is the call whose result becomes self.sid and whose callee hashes its argument; either callee
    # may live in another module)
    def _callee(c):
        try:
            t = repo.resolve_call(hc, c)
        except Exception:
            t = None
        return t if hasattr(t, "node") else None

    def _salts(fn_node):
        return any(isinstance(st, ast.Assign) and any(isinstance(t, ast.Subscript) and isinstance(t.slice, ast.Constant) and isinstance(t.slice.value, str) for t in st.targets)
                   and any(isinstance(c, ast.Call) and (dotted(c.func) or "").split(".")[-1] in ("urandom", "token_bytes", "token_hex", "randbytes") for c in ast.walk(st.value))
                   for st in ast.walk(fn_node))

    def _hashes(fn_node):
        return any(isinstance(c, ast.Call) and ((dotted(c.func) or "").startswith("hashlib.") or (dotted(c.func) or "").split(".")[-1] in ("sha256", "sha1", "sha512", "blake2b", "digest", "hexdigest"))
                   for c in ast.walk(fn_node))
    sid_stores = [st for st in ast.walk(hc.node) if isinstance(st, ast.Assign) and any(unparse(t) == "self.sid" for t in st.targets)]
    derive = [st for st in sid_stores if isinstance(st.value, ast.Call) and ((_callee(st.value) is not None and _hashes(_callee(st.value).node)) or _hashes(st.value))]
    order = {}

    def _number(n):
        order[id(n)] = len(order)       # source order of the (possibly expanded) body: line numbers of expanded helpers are foreign
        for ch in ast.iter_child_nodes(n):
            _number(ch)
    _number(hc.node)
    salt_pos = [order[id(c)] for c in ast.walk(hc.node) if isinstance(c, ast.Call) and _callee(c) is not None and _salts(_callee(c).node)]
    salt_pos += [order[id(st)] for st in ast.walk(hc.node) if isinstance(st, ast.Assign) and _salts(st)]
    hash_pos = [order[id(c)] for c in ast.walk(hc.node) if isinstance(c, ast.Call) and (_hashes(c) or (_callee(c) is not None and _hashes(_callee(c).node)))]
    if not derive and len(sid_stores) == 1 and hash_pos and isinstance(sid_stores[0].value, (ast.Name, ast.Call, ast.Attribute)) and min(hash_pos) < order[id(sid_stores[0])]:
        derive = sid_stores         # the derivation was expanded in place: the digest is computed before the store
    first_hash = min(hash_pos) if hash_pos else -1
    names = {"salting": len(salt_pos), "sid derivations": len(derive), "stores of self.sid": len(sid_stores)}
    r9.require(len(sid_stores) == 1 and len(derive) == 1 and bool(salt_pos) and min(salt_pos) < first_hash, hc, "salt then sid",
               "handle_create_config no longer salts the configuration before deriving the sid from it (found %s)" % names)


def _writes(call):
    mode = None
    if len(call.args) > 1 and isinstance(call.args[1], ast.Constant):
        mode = call.args[1].value
    for k in call.keywords:
        if k.arg == "mode" and isinstance(k.value, ast.Constant):
            mode = k.value.value
    return isinstance(mode, str) and any(ch in mode for ch in "wax+")


def _check_alias(repo, r7):
    fi = repo.func(F.CLI_SNH, "record_sname_id_pair")
    cfg = cfg_of(fi.node)
    p_name, p_sid = fi.params[0], fi.params[1]
    stores = [n for n in cfg.nodes if n.kind == "stmt" and isinstance(n.stmt, ast.Assign) and any(
        isinstance(t, ast.Subscript) and isinstance(t.slice, ast.Name) and t.slice.id == p_name for t in n.stmt.targets)]
    if not r7.require(len(stores) >= 1, fi, "alias store", "record_sname_id_pair no longer stores mapping[sname]"):
        return

    def ev(e):
        if isinstance(e, ast.UnaryOp) and isinstance(e.op, ast.Not):
            v = ev(e.operand)
            return None if v is None else not v
        if isinstance(e, ast.Compare) and len(e.ops) == 1 and isinstance(e.left, ast.Name) and e.left.id == p_name:
            if isinstance(e.ops[0], ast.In):
                return True
            if isinstance(e.ops[0], ast.NotIn):
                return False
        return None
    seen = {cfg.entry}
    stack = [cfg.entry]
    while stack:
        a = stack.pop()
        for b, lab in cfg.succ[a]:
            n = cfg.nodes[a]
            if n.kind == "test" and isinstance(lab, bool):
                v = ev(n.ast)
                if v is not None and v != lab:
                    continue
            if b not in seen:
                seen.add(b)
                stack.append(b)
    for s in stores:
        r7.require(s.id not in seen, fi, "alias overwritten",
                   "an alias that is already registered can be overwritten (no `sname in mapping` refusal before the store)", s.stmt)
    r7.require(cfg.raise_exit in seen, fi, "alias refusal raises", "registering an existing alias does not raise")
    # the mapping is persisted after the store
    wr = [n.id for n in cfg.nodes if n.ast is not None and n.stmt is not None and any((dotted(c.func) or "") == "write_service_mapping"
                                                                                   for c in calls_in_order(n.stmt if n.kind != "test" else n.ast))]
    for s in stores:
        r7.require(bool(wr) and cfg.must_pass(s.id, wr), fi, "alias persisted", "the alias table is not written after the store", s.stmt)


# ----------------------------------------------------------------------------- self-test variants
from ..selftest import V  # noqa: E402

_C = F.CLI
VARIANTS = [
    V("validity-result-dropped", "fire", "R11.2", [(_C, "Service.handle_create_config",
      "        if not _check_config_valid(config):\n            raise ValueError(\"The configuration cannot be used to instantiate the chosen scheme.\")\n",
      "        _check_config_valid(config)\n")]),
    V("validity-check-always-true", "fire", "R11.2", [(_C, "_check_config_valid",
      "        module_loader.SSEConfig(config)\n        return True", "        return True")]),
    V("key-guard-deleted", "fire", "R11.1", [(_C, "Service.handle_create_key",
      "if ClientServiceState.is_key_created(self.get_current_service_state()):", "if False:")]),
    V("key-config-guard-inverted", "fire", "R11.1", [(_C, "Service.handle_create_key",
      "if not ClientServiceState.is_config_created(self.get_current_service_state()):", "if ClientServiceState.is_config_created(self.get_current_service_state()):")]),
    V("encrypt-rewrites-key", "fire", "R11.", [(_C, "Service.handle_encrypt_database",
      "        self._load_sse_key()\n", "        self._load_sse_key()\n        FileManager.write_key(self.sid, self.key.serialize())\n")]),
    V("resync-clears-key-flag", "fire", "R11.3", [(_C, "Service." + RESYNC_FN,
      "        if service_state == SERVICE_STATE.NOT_EXISTS:\n",
      "        if service_state == SERVICE_STATE.NOT_EXISTS:\n            self.set_current_service_state(\n                ClientServiceState.set_key_created(self.get_current_service_state(), False))\n")]),
    V("persist-before-flag", "fire", "R11.6", [(_C, "Service.handle_create_key",
      "        self.set_current_service_state(ClientServiceState.set_key_created(self.get_current_service_state(), True))\n        self._store_service_meta()",
      "        self._store_service_meta()\n        self.set_current_service_state(ClientServiceState.set_key_created(self.get_current_service_state(), True))")]),
    V("getter-wrong-bit", "fire", "R11.5", [(_C, "ClientServiceState.is_key_created",
      "return bool(state_bit_set & _BIT_KEY_CREATED)", "return bool(state_bit_set & _BIT_DB_ENCRYPTED)")]),
    V("search-guard-removed", "fire", "R11.1", [(_C, "Service.handle_keyword_search",
      "if not ClientServiceState.is_db_uploaded(self.get_current_service_state()):", "if False:")]),
    V("upload-db-key-guard-removed", "fire", "R11.1", [(_C, "Service.handle_upload_encrypted_database",
      "if not ClientServiceState.is_key_created(self.get_current_service_state()):", "if False:")]),
    V("echo-sets-flag-on-refusal", "fire", "R11.1", [(_C, "Service.handle_upload_config_echo",
      "        if not content.get(\"ok\", False):", "        if content.get(\"ok\", False):")]),
    V("alias-overwrite", "fire", "R11.7", [(F.CLI_SNH, "record_sname_id_pair",
      "    if sname in mapping:\n        raise KeyError(f\"The service name {sname} already exists.\")\n", "")]),
    V("refusal-after-write", "fire", "R11.", [(_C, "Service.handle_encrypt_database",
      "        if ClientServiceState.is_db_encrypted(self.get_current_service_state()):  # todo should allow re-create\n",
      "        self._store_service_meta()\n        if ClientServiceState.is_db_encrypted(self.get_current_service_state()):  # todo should allow re-create\n")]),
    V("benign-inline-bit-test", "silent", None, [(_C, "Service.handle_create_key",
      "if ClientServiceState.is_key_created(self.get_current_service_state()):", "if self.get_current_service_state() & _BIT_KEY_CREATED:")]),
    V("benign-guards-folded", "silent", None, [(_C, "Service.handle_keyword_search",
      "if not ClientServiceState.is_db_uploaded(self.get_current_service_state()):",
      "if not (ClientServiceState.is_db_uploaded(self.get_current_service_state()) and True):")]),
    V("benign-validity-alias", "silent", None, [(_C, "Service.handle_create_config",
      "        if not _check_config_valid(config):\n", "        valid = _check_config_valid(config)\n        if not valid:\n")]),
]
