"""C05 - index size and layout reveal only the scheme's public size parameter.

Decides that real and filler entries of every container have symbolically equal lengths, that the
fill counts depend only on public quantities, that every padded container still has its filler and
that the padding of the database precedes the level loop.  See DESIGN.md section 3, C05.
"""
import ast

from ..core import Rule
from ..model import AnalysisError, dotted, unparse, short
from ..cfg import cfg_of, calls_in_order
from ..terms import fn_terms, walk, show
from ..schemes import discover, flatten, is_urandom, is_builder
from ..symlen import Lengths, Poly
from .c02 import shape_of

EXPLANATION = ("Symbolic length analysis: every key and value term stored into a container of the encrypted database (use-def "
               "reconstruction of _Enc) gets a byte length as a polynomial over the configuration parameters, with ENC(n) for a "
               "ciphertext of an n-byte message and configuration slots expanded through _parse_config.  Within one container all "
               "labels must have one length and all values one unit length (level factors 2^i stripped), real and filler alike; "
               "fill counts must not depend on keywords or individual list lengths; each container the property lists as padded "
               "must still receive os.urandom fillers; database padding must dominate the level loop.")
ASSUMPTIONS = ["identifiers have exactly param_identifier_size bytes (the property's valid-database domain)",
               "len(ske.Encrypt(k, m)) depends only on len(m) (C14)"]

PADDED = {"CGKO06.SSE1": ["A", "T"], "CT14.Pi": ["HT_list"], "ANSS16.Scheme3": ["HT_S", "HT_L_list"], "DP17.Pi": ["HT", "A_dict"]}


def _int_valued(t):
    return t[0] == "call" and (t[1] == "int" or t[1].endswith("::int_from_bytes")) or t[0] in ("counter", "rangevar")


def unit(p):
    return p.strip_factors(lambda a: a.startswith(("pow2(", "count(")))


def _db_content_dependent(t, dbparam):
    """The term depends on keywords / individual lists, not only on the total size or the number of keywords."""
    def rec(x, depth=0):
        if not isinstance(x, (tuple, frozenset)) or depth > 50:
            return False
        if isinstance(x, frozenset):
            return any(rec(y, depth + 1) for y in x)
        if not x:
            return False
        if x == ("param", dbparam):
            return True
        if not isinstance(x[0], str):
            return any(rec(y, depth + 1) for y in x if isinstance(y, (tuple, frozenset)))
        if x[0] == "call" and x[1].endswith("::get_total_size"):
            return False
        if x[0] == "cont":
            return rec(x[2], depth + 1)
        return any(rec(y, depth + 1) for y in x[1:] if isinstance(y, (tuple, frozenset)))
    return rec(t)


def check(repo):
    r1 = Rule("R5.1", "real and filler entries of a container have equal symbolic lengths")
    r2 = Rule("R5.2", "fill counts depend only on public quantities")
    r3 = Rule("R5.3", "every padded container still receives random fillers")
    r4 = Rule("R5.4", "database / list padding precedes the level loop and the encryption")
    rules = [r1, r2, r3, r4]
    schemes = discover(repo)
    n_cont = 0
    for s in schemes:
        enc = s.method("_Enc")
        ft = fn_terms(repo, enc)
        L = Lengths(repo, s)
        pos = s.ctor_positional(s.edb_cls)
        dbp = enc.params[2]
        seen_filler = set()
        filler_nodes = set()
        for n in ft.cfg.nodes:
            if n.kind != "return" or n.stmt.value is None:
                continue
            t = ft.term(n.stmt.value, n.id)
            groups = []
            if t[0] == "call" and t[1].endswith("EncryptedDatabase.__init__"):
                groups = [(pos[i] if i < len(pos) else None, a) for i, a in enumerate(t[2])]
            elif t[0] == "call" and is_builder(repo, t[1]):
                groups = [(pos[0] if pos else "D", t)]
            for attr, a in groups:
                if attr is None:
                    continue
                kind = shape_of(a)[0]
                leaves = [lf for lf in flatten(repo, a)]
                keys, vals = {}, {}
                n_cont += 1
                for lf in leaves:
                    line = ft.cfg.nodes[lf.node].line if lf.node is not None else n.line
                    v = lf.value
                    if v == ("const", None) or (v[0] in ("tuple", "list") and not v[1]):
                        continue
                    if ":init" in lf.via and v[0] == "const":
                        continue  # placeholder cells, replaced by the filler loop (presence checked by R5.3)
                    filler = is_urandom(v) or (lf.key is not None and is_urandom(lf.key))
                    if v[0] == "mcall" and v[2] == "join" and v[3] and v[3][0][0] == "cont":
                        # a bucket: every slot written into the joined list must have one length
                        els = {}
                        for m in v[3][0][3]:
                            if m[0] == "append" and m[2]:
                                p = L.length(m[2][0])
                                els.setdefault(p.canon(), []).append((m[2][0], m[4]))
                                if is_urandom(m[2][0]):
                                    seen_filler.add(attr)
                                    filler_nodes.add(m[4])
                        desc = {"scheme": s.name, "container": attr, "slot_lengths": sorted(els)}
                        if len(els) == 1:
                            r1.ok(desc)
                        else:
                            r1.fail(enc.module.rel, enc.qual, line, "slot lengths differ in %s" % attr,
                                    "%s: slots of %s have different lengths %s: real and dummy slots are distinguishable" % (s.name, attr, sorted(els)), witness=desc)
                        continue
                    if filler:
                        seen_filler.add(attr)
                        if lf.node is not None:
                            filler_nodes.add(lf.node)
                        elif ":init" in lf.via:
                            # fillers produced by the comprehension the container is initialised with: the statement that binds it
                            cname = lf.via.split(":")[0].split("[")[0]
                            for n2 in ft.cfg.nodes:
                                if n2.kind == "stmt" and isinstance(n2.stmt, ast.Assign) and any(isinstance(t2, ast.Name) and t2.id == cname for t2 in n2.stmt.targets) and \
                                        isinstance(n2.stmt.value, (ast.ListComp, ast.DictComp, ast.SetComp, ast.GeneratorExp)):
                                    filler_nodes.add(n2.id)
                    dict_leaf = kind == "dict" or any(b in lf.via for b in ("create_hash_table", "build_from_list", "create_dictionary_from_list"))
                    if lf.key is not None and dict_leaf and not _int_valued(lf.key):
                        p = L.length(lf.key)
                        keys.setdefault(p.canon(), []).append((lf, line, filler))
                    p = unit(L.length(v))
                    vals.setdefault(p.canon(), []).append((lf, line, filler))
                for what, groups_ in (("label", keys), ("value", vals)):
                    if not groups_:
                        continue
                    desc = {"scheme": s.name, "container": attr, what + "_lengths": sorted(groups_)}
                    if len(groups_) == 1:
                        r1.ok(desc)
                    else:
                        # report at a filler site if there is one, else at the minority site
                        order = sorted(groups_.items(), key=lambda kv: (not any(f for _, _, f in kv[1]), len(kv[1])))
                        lf, line, filler = order[0][1][0]
                        others = [k for k in groups_ if k != order[0][0]]
                        r1.fail(enc.module.rel, enc.qual, line, "%s lengths differ in %s" % (what, attr),
                                "%s: %s %ss have lengths {%s}: the %s entry written at line %d has %s bytes while other entries have %s - entries are "
                                "distinguishable by length" % (s.name, attr, what, "; ".join(sorted(groups_)), "filler" if filler else "real", line, order[0][0], " / ".join(others)),
                                witness=desc)
                # ------------------------------------------------------------- R5.2 fill counts
                for lf in leaves:
                    pass
        for attr in PADDED.get(s.name, []):
            r3.require(attr in seen_filler, enc, "filler of %s" % attr,
                       "%s: container %s no longer receives random filler entries: its size and entry lengths now depend on the data" % (s.name, attr))
        _check_fill_counts(repo, r2, s, enc, ft, dbp, filler_nodes)
        if s.name in ("CT14.Pi", "ANSS16.Scheme3"):
            _check_padding_order(repo, r4, s, enc, ft)
        if s.name in ("CJJ14.PiPack", "CJJ14.PiPtr", "CJJ14.Pi2Lev"):
            _check_blocks_padded(repo, r4, s, enc, ft, L)
    # ------------------------------------------------------------------ R5.5 the public size parameter is ceil(log2 N)
    r5 = Rule("R5.5", "the level count is ceil(log2(total size)), the public size parameter")
    rules.append(r5)
    for s in schemes:
        if s.name not in ("CT14.Pi", "ANSS16.Scheme3", "DP17.Pi"):
            continue
        enc = s.method("_Enc")
        ft = fn_terms(repo, enc)
        # the level count is recognised by what it is computed from - a logarithm / bit length of the total size - not by its name
        N = ("call", "toolkit/database_utils.py::get_total_size", (("param", enc.params[2]),), ())
        from ..terms import walk as _walk

        def _log_of_total(tt):
            for x in _walk(tt):
                if isinstance(x, tuple) and x and ((x[0] == "call" and x[1] in ("math.log2", "math.log", "log2")) or (x[0] == "mcall" and x[2] == "bit_length")):
                    if any(y == N for y in _walk(x)):
                        return True
            return False
        defs = []
        for d in ft.defs:
            if d.kind != "assign" or d.path:
                continue
            try:
                if _log_of_total(ft.def_term(d)) and not any(_log_of_total(ft.def_term(o)) for o in defs if o.var == d.var and o.stmt is d.stmt):
                    defs.append(d)
            except Exception:
                continue
        # a value derived from an earlier level count (s = ceil(l * ratio), p = ceil(l / s)) is not itself the level count
        firsts = [d for d in defs if not any(o is not d and ("var", o.var) != ("var", d.var) and ft.def_term(o) != ft.def_term(d) and
                                              any(y == ft.def_term(o) for y in _walk(ft.def_term(d))) for o in defs)]
        defs = firsts or defs
        var = defs[0].var if defs else ("l" if s.name == "DP17.Pi" else "t")
        if not r5.require(len(defs) >= 1, enc, "level count", "%s._Enc no longer computes the level count (ceil(log2(total size)))" % s.name):
            continue
        for d in defs[:1]:
            tt = ft.def_term(d)
            ok1 = tt == ("call", "math.ceil", (("call", "math.log2", (N,), ()),), ())
            ok2 = tt[0] == "mcall" and tt[2] == "bit_length" and tt[1] == ("binop", "Sub", N, ("const", 1))
            r5.require(ok1 or ok2, enc, "level count formula",
                       "%s: the level count is %s, expected ceil(log2(N)) of the total size: databases with the same public size parameter get "
                       "different shapes" % (s.name, show(tt, maxdepth=5)[:120]), d.stmt)
            if ok1 or ok2:
                r5.instance({"scheme": s.name, "level_count": show(tt, maxdepth=5)})

    r1.require(n_cont >= 14, schemes[0].method("_Enc"), "containers floor", "only %d containers analysed (expected >= 14)" % n_cont)
    # Pi2Lev's array is sized before it is filled: a slot that is reserved but never written stays None (an entry of another "length"),
    # a slot that is written but not reserved is missing.  The agreement of reservation and case split is R1.3's; its findings count here.
    # a level table that is not padded because a level loop stops one short, and hidden state that carries one database's bucket
    # occupancy into the next set-up, change the shape: the rules that establish them (R1.4 level coverage, R7.2 no hidden state) count here
    r7 = Rule("R5.7", "every level table is padded (level loops cover t + 1 levels); set-up keeps nothing from an earlier database")
    rules.append(r7)
    from . import c01 as _c01b, c07 as _c07
    tmp4 = Rule("R1.4", "")
    _c01b._check_capacity(repo, tmp4, [s_ for s_ in schemes if s_.name in ("CT14.Pi", "ANSS16.Scheme3")])
    r7.obligations += tmp4.obligations
    r7.discharged += tmp4.discharged
    for f in tmp4.findings:
        if "covers t+1 levels" in f.construct:
            f.rule = "R5.7"
            r7.findings.append(f)
        else:
            r7.discharged += 1
    for rr in _c07.check(repo):
        if rr.id == "R7.2":
            r7.obligations += rr.obligations
            r7.discharged += rr.discharged
            for f in rr.findings:
                if f.file.startswith("schemes/") and "construction" in f.file:
                    f.rule = "R5.7"
                    f.message = "set-up carries state from one database to the next, so the second index's shape depends on the first (%s)" % f.message
                    r7.findings.append(f)
                else:
                    r7.discharged += 1
    r6 = Rule("R5.6", "Pi2Lev reserves exactly the array slots that the medium / large cases fill")
    rules.append(r6)
    from . import c01 as _c01
    for s_ in schemes:
        if s_.name != "CJJ14.Pi2Lev":
            continue
        tmp = Rule("R1.3", "")
        _c01._check_pi2lev_split(repo, tmp, s_)
        r6.obligations += tmp.obligations
        r6.discharged += tmp.discharged
        for f in tmp.findings:
            if "reserv" in f.construct or "reserv" in f.message:
                f.rule = "R5.6"
                r6.findings.append(f)
            else:
                r6.discharged += 1
    _check_partition_pads(repo, r4)
    for s_ in schemes:
        if s_.name == "DP17.Pi":
            check_dp17_bucket_bookkeeping(repo, r2, s_, s_.method("_Enc"), fn_terms(repo, s_.method("_Enc")))
    return rules


def _check_fill_counts(repo, r2, s, enc, ft, dbp, filler_nodes):
    """The loop / comprehension around every statement that stores os.urandom filler must have a public trip count."""
    from ..model import ancestors
    for nid in sorted(filler_nodes):
        n = ft.cfg.nodes[nid]
        st = n.stmt
        comps = [g for g in ast.walk(st) if isinstance(g, (ast.GeneratorExp, ast.ListComp, ast.SetComp, ast.DictComp)) and any(
            isinstance(c, ast.Call) and dotted(c.func) == "os.urandom"
            for part in ([g.key, g.value] if isinstance(g, ast.DictComp) else [g.elt]) for c in ast.walk(part))]
        iters = [(g.generators[0].iter, "comprehension") for g in comps]
        if not iters:
            for a in ancestors(st):
                if isinstance(a, ast.For):
                    iters.append((a.iter, "loop"))
                    break
        for it_expr, what in iters:
            it = ft.term(it_expr, nid)
            dep = _db_content_dependent(it, dbp)
            desc = {"scheme": s.name, what: short(it_expr), "line": n.line}
            if not dep and s.name in ("CT14.Pi", "ANSS16.Scheme3") and _uses_unpadded_total(it):
                r2.fail_fn(enc, st, "fill count uses the unpadded total size",
                           "%s: the number of filler entries produced by the %s over %s is computed from the real total size N, which the scheme does not reveal (only "
                           "ceil(log2 N) is public): the count has to come from the padded size - the variable the database-padding loop advances to 2^t" % (
                               s.name, what, short(it_expr)), witness=desc)
                continue
            if dep:
                r2.fail_fn(enc, st, "fill count depends on the data",
                           "%s: the number of filler entries produced by the %s over %s depends on keywords or individual list lengths" % (s.name, what, short(it_expr)), witness=desc)
            else:
                r2.ok(desc)


def _uses_unpadded_total(t):
    """get_total_size(database) occurs in the term outside log2(...) while nothing in the term is carried by a loop (the padded size
    is what the `while N < 2 ** t` loop leaves in its variable, so its term contains a loop-carried `rec` node)."""
    def recs(x, depth=0):
        if not isinstance(x, (tuple, frozenset)) or depth > 60:
            return False
        if isinstance(x, frozenset):
            return any(recs(y, depth + 1) for y in x)
        if not x:
            return False
        if isinstance(x[0], str) and x[0] == "rec":
            return True
        if isinstance(x[0], str) and x[0] == "cont":
            return False
        return any(recs(y, depth + 1) for y in x if isinstance(y, (tuple, frozenset)))
    has_rec = recs(t)

    def plain(x, under_log=False, depth=0):
        if not isinstance(x, (tuple, frozenset)) or depth > 60:
            return False
        if isinstance(x, frozenset):
            return any(plain(y, under_log, depth + 1) for y in x)
        if not x:
            return False
        if isinstance(x[0], str) and x[0] == "call" and isinstance(x[1], str) and x[1].endswith("::get_total_size"):
            return not under_log
        ul = under_log or (isinstance(x[0], str) and x[0] == "call" and x[1] in ("math.log2", "math.log"))
        if isinstance(x[0], str) and x[0] == "cont":
            return False      # sizes of local containers are judged at their own fill sites
        return any(plain(y, ul, depth + 1) for y in x if isinstance(y, (tuple, frozenset)))
    return plain(t) and not has_rec


def _bounded_by_container(it):
    # range(len(A)) over a local container / remaining-count tables
    return it[0] == "call" and it[1] == "range"


def _is_db_padding(ft, st, n, dbp):
    """The statement pads (a copy of) the database itself (dummy identifiers up to a public bound)."""
    txt = unparse(st)
    return "padded_database" in txt or "random_id_list" in txt


def _check_padding_order(repo, r4, s, enc, ft):
    cfg = ft.cfg
    # while N < 2 ** t: ... padded_database[...] = ...
    from ..model import inline_locals as _il
    pad_loops = [n for n in cfg.nodes if n.kind == "test" and isinstance(n.stmt, ast.While) and any(
        isinstance(x, ast.BinOp) and isinstance(x.op, ast.Pow) for x in ast.walk(_il(enc.node, n.stmt.test)))]
    dbp = enc.params[2]
    level_loops = [n for n in cfg.nodes if n.kind == "for" and any(
        isinstance(c, ast.Call) and isinstance(c.func, ast.Attribute) and c.func.attr == "Encrypt" for b in n.stmt.body for c in ast.walk(b))
        and not any(isinstance(a, ast.For) for a in __import__("sa.model", fromlist=["ancestors"]).ancestors(n.stmt))
        and ft.term(n.stmt.iter, n.id)[0] in ("cont", "param", "mcall")]
    if not r4.require(bool(pad_loops), enc, "database padded to a power of two",
                      "%s: the database is no longer padded with dummy keyword/identifier pairs up to 2^t" % s.name):
        return
    r4.require(bool(level_loops), enc, "level loop", "%s: no loop encrypting the posting lists found" % s.name)
    for lv in level_loops:
        ok = all(cfg.dominates(p.id, lv.id) for p in pad_loops)
        r4.require(ok, enc, "padding before level loop", "%s: the posting lists are processed before the database has been padded to 2^t" % s.name, lv.stmt)
        # the level loop iterates the padded copy, not the input
        it = ft.term(lv.stmt.iter, lv.id)
        while it[0] == "mcall" and it[2] in ("items", "keys", "values") and not it[3]:
            it = it[1]  # iterating the views of a dict iterates the dict
        padded = it[0] == "cont" and any(m[0] == "setitem" for m in it[3])
        r4.require(padded, enc, "level loop iterates the padded database",
                   "%s: the level loop iterates %s, not the padded copy of the database: dummy entries never reach the tables" % (s.name, show(it, maxdepth=2)[:60]), lv.stmt)
    # padding loop condition N < 2 ** t with N updated inside
    for p in pad_loops:
        w = p.stmt
        upd = any(isinstance(x, ast.AugAssign) and isinstance(x.op, ast.Add) for b in w.body for x in ast.walk(b))
        r4.require(upd, enc, "padding loop advances", "%s: the padding loop does not advance the total size" % s.name, w)
    if s.name == "ANSS16.Scheme3":
        # per-list padding to 2^p precedes the encryption of that list
        from ..model import inline_locals
        body_nodes = [n for n in cfg.nodes if n.kind == "stmt" and n.stmt is not None]

        def is_db(t, depth=0):
            if depth > 4:
                return False
            if t == ("param", dbp):
                return True
            if t[0] == "cont":
                return is_db(t[2], depth + 1)
            if t[0] == "call" and t[1].split(".")[-1] in ("deepcopy", "copy", "dict") and t[2]:
                return is_db(t[2][0], depth + 1)
            return False

        def is_posting_list(t):
            while t[0] == "cont":
                t = t[2]      # a local name for the list: the mutation is on the object it was taken from
            return t[0] == "sub" and is_db(t[1])
        ext = []
        for n in body_nodes:
            for c in ast.walk(n.stmt):
                if isinstance(c, ast.Call) and isinstance(c.func, ast.Attribute) and c.func.attr == "extend" and c.args and \
                        is_posting_list(ft.term(c.func.value, n.id)) and any(isinstance(x, ast.Call) and dotted(x.func) == "os.urandom" for x in ast.walk(c.args[0])):
                    ext.append((n, c))
        encs = [n for n in body_nodes if any(isinstance(c, ast.Call) and isinstance(c.func, ast.Attribute) and c.func.attr == "Encrypt" for c in ast.walk(n.stmt))
                and any(isinstance(g, (ast.ListComp, ast.GeneratorExp)) for g in ast.walk(n.stmt))]
        if r4.require(bool(ext), enc, "per-list padding", "ANSS16: posting lists are no longer padded with dummy identifiers to 2^p before encryption"):
            for e in encs:
                r4.require(any(cfg.dominates(x.id, e.id) for x, _c in ext), enc, "per-list padding before encryption",
                           "ANSS16: a posting list is encrypted before it has been padded to 2^p", e.stmt)
            # pad count 2**pi - ni
            for x, c in ext:
                ok = False
                for r_ in ast.walk(c.args[0]):
                    if isinstance(r_, ast.Call) and dotted(r_.func) == "range" and len(r_.args) == 1:
                        b_ = inline_locals(enc.node, r_.args[0])
                        if isinstance(b_, ast.BinOp) and isinstance(b_.op, ast.Sub) and isinstance(b_.left, ast.BinOp) and isinstance(b_.left.op, ast.Pow) and \
                                isinstance(b_.left.left, ast.Constant) and b_.left.left.value == 2:
                            ok = True
                r4.require(ok, enc, "per-list pad count", "ANSS16: the per-list padding no longer fills up to 2^p - n entries", x.stmt)


def _check_blocks_padded(repo, r4, s, enc, ft, L):
    """Zero-padded blocks: every value encrypted into D / A has a length free of per-list quantities."""
    for n in ft.cfg.nodes:
        if n.kind != "return" or n.stmt.value is None:
            continue
        t = ft.term(n.stmt.value, n.id)
        for lf in flatten(repo, t):
            v = lf.value
            if v[0] == "prim" and v[2] == "Encrypt" and len(v[3]) >= 2:
                p = L.length(v[3][1])
                bad = [a for a in p.atoms() if a.startswith(("len(", "count(", "blocks", "phi{"))]
                line = ft.cfg.nodes[lf.node].line if lf.node is not None else n.line
                desc = {"scheme": s.name, "plaintext_block_length": p.canon(), "line": line}
                if bad:
                    r4.fail(enc.module.rel, enc.qual, line, "block not padded to a fixed size",
                            "%s: a block is encrypted with a length that depends on the list (%s): blocks are no longer zero-padded to the fixed block size" % (s.name, p.canon()[:140]), witness=desc)
                else:
                    r4.ok(desc)


def check_dp17_bucket_bookkeeping(repo, rule, s, enc, ft):
    """Every chunk placed into a bucket is deducted from that bucket's remaining capacity in the same iteration of the chunk loop:
    the number of dummy entries appended later is the remaining capacity, so a missed deduction over-fills the bucket and its
    length depends on how the lists were split."""
    from ..model import ancestors
    places, deducts = [], []
    for name, ms in ft.mutations().items():
        for (mn, kind, payload, subs) in ms:
            if kind in ("append", "extend") and len(subs) == 2:
                places.append((name, mn, payload, subs))
            if kind == "augitem" and len(subs) == 1:
                tt, st = payload
                if isinstance(st, ast.AugAssign) and isinstance(st.op, ast.Sub) and isinstance(tt, ast.Subscript):
                    deducts.append((name, mn, st, list(subs) + [tt.slice]))
    if not rule.require(bool(places) and bool(deducts), enc, "DP17 bucket bookkeeping", "DP17._Enc no longer deducts placed chunks from the remaining capacity of their bucket"):
        return

    def loops(node_ast):
        return [a for a in ancestors(node_ast) if isinstance(a, (ast.For, ast.While))]
    for (_n, _mn, call, subs) in places:
        lp = loops(call)       # innermost first: [identifier loop,] chunk loop, keyword loop
        ok = False
        for (_dn, _dmn, st, dsubs) in deducts:
            dl = loops(st)
            same_idx = [unparse(x) for x in dsubs] == [unparse(x) for x in subs]
            if same_idx and dl and any(dl[0] is x for x in lp[:2]) and len(dl) >= len(lp) - 1:
                ok = True
        rule.require(ok, enc, "DP17 deduction per chunk",
                     "DP17._Enc places a chunk into bucket [%s] but the deduction from the bucket's remaining capacity is not made in the same iteration of the chunk loop: "
                     "chunks that are not deducted are padded over with dummy entries, and bucket lengths then depend on the list-length distribution" % ", ".join(unparse(x) for x in subs), call)


def _check_partition_pads(repo, r4):
    """Every block that partition yields has the fixed block size (shared with C17/R17.1: unpadded blocks leave only when
    they are known to be block_size long, padded ones are <data> + zero bytes * (block_size - len(<data>)))."""
    from .c17 import _check_partition
    _check_partition(repo, r4)


# ----------------------------------------------------------------------------- self-test variants
from ..selftest import V  # noqa: E402

_S1 = "schemes/CGKO06/SSE1/construction.py"
_CT = "schemes/CT14/Pi/construction.py"
_AN = "schemes/ANSS16/Scheme3/construction.py"
_DP = "schemes/DP17/Pi/construction.py"
VARIANTS = [
    V("anss16-size-table-filler-plain", "fire", "R5.1", [(_AN, "Pi._Enc", "os.urandom(ni_prime_len))", "os.urandom(math.ceil((t + 1) / 8)))")]),
    V("sse1-array-filler-loop-deleted", "fire", "R5.3", [(_S1, "SSE1._Enc",
      "        for i in range(len(A)):\n            if A[i] == b'\\x00':\n                A[i] = os.urandom(existing_entry_size)  # the same size as the existing s' entries of A\n", "")]),
    V("sse1-array-filler-key-sized", "fire", "R5.1", [(_S1, "SSE1._Enc", "A[i] = os.urandom(existing_entry_size)", "A[i] = os.urandom(self.config.param_k)")]),
    V("sse1-table-filler-label-short", "fire", "R5.1", [(_S1, "SSE1._Enc", "T[os.urandom(self.config.param_l)] =", "T[os.urandom(self.config.param_l - 1)] =")]),
    V("ct14-filler-label-short", "fire", "R5.1", [(_CT, "Pi._Enc", "((os.urandom(self.config.param_l), os.urandom(d_len))", "((os.urandom(self.config.param_l - 1), os.urandom(d_len))")]),
    V("ct14-level-filler-deleted", "fire", "R5.3", [(_CT, "Pi._Enc",
      "            L_list[i].extend(\n                ((os.urandom(self.config.param_l), os.urandom(d_len)) for _ in range((2 ** (t - i)) - len(L_list[i]))))\n", "            pass\n")]),
    V("dp17-table-fill-count-by-keywords", "fire", "R5.2", [(_DP, "Pi._Enc", "for _ in range(N - len(HT)):", "for _ in range(len(database) - len(HT) % len(database)):")]),
    V("dp17-dummy-slot-short", "fire", "R5.1", [(_DP, "Pi._Enc", "cipher_list.append(os.urandom(self.config.param_identifier_cipher_len))", "cipher_list.append(os.urandom(self.config.param_identifier_size))")]),
    V("dp17-table-filler-deleted", "fire", "R5.3", [(_DP, "Pi._Enc",
      "        for _ in range(N - len(HT)):\n            HT[os.urandom(self.config.param_hash_h_digest_size)] = os.urandom(self.config.param_hash_h_digest_size)\n", "")]),
    V("pi2lev-medium-block-not-padded", "fire", "R5.", [("schemes/CJJ14/Pi2Lev/construction.py", "Pi2Lev._Enc",
      "                index_of_A_block_bytes += b'\\x00' * (dict_block_size - len(index_of_A_block_bytes))\n", "")]),
    V("ct14-levels-before-padding", "fire", "R5.4", [(_CT, "Pi._Enc", "        for keyword in padded_database:", "        for keyword in database:")]),
    V("anss16-list-padding-dropped", "fire", "R5.4", [(_AN, "Pi._Enc",
      "            padded_database[keyword].extend((os.urandom(self.config.param_identifier_size) for _ in range((2 ** pi) - ni)))\n", "")]),
    V("partition-no-padding", "fire", "R5.4", [("toolkit/database_utils.py", "partition_identifiers_to_blocks",
      "        if len(block) < block_size_bytes:\n            block += b'\\x00' * (block_size_bytes - len(block))\n", "")]),
    V("benign-hoist-dlen", "silent", None, [(_CT, "Pi._Enc",
      "            d_len = (2 ** i) * len(self.config.ske.Encrypt(b\"\\x00\" * self.config.param_k_prime,\n                                                           b\"\\x00\" * self.config.param_identifier_size))",
      "            unit_len = len(self.config.ske.Encrypt(b\"\\x00\" * self.config.param_k_prime, b\"\\x00\" * self.config.param_identifier_size))\n            d_len = (2 ** i) * unit_len")]),
    V("benign-sse1-filler-constant-name", "silent", None, [(_S1, "SSE1._Enc", "A[i] = os.urandom(existing_entry_size)", "n_fill = existing_entry_size\n                A[i] = os.urandom(n_fill)")]),
]
