"""C16 - PRF and hash wrappers: deterministic, exact output length, standard-conformant.

Decides that the source implements the documented recurrences (TLS P_hash of RFC 5246 section 5;
counter-mode expansion / native XOF), returns exactly the requested number of bytes, uses all of its
inputs and no other state.  See DESIGN.md section 3, C16.
"""
import ast

from ..core import Rule
from ..model import AnalysisError, dotted, unparse, short
from ..cfg import cfg_of
from .. import straight as S
from .c08 import find_guard, raising_ifs

EXPLANATION = ("State-transformer reconstruction of the expansion loops: _tls_p_hash must initialise A(1) = HMAC(key, message) and "
               "each iteration must map (res, A) to (res || HMAC(key, A || message), HMAC(key, A)) for ceil(output_len / hash_len) "
               "iterations with hash_len the digest size of the same hash, returning res[:output_len] (RFC 5246 section 5); "
               "_ctr_expand must append hash(message || I2B(c)) for c = 1, 2, ... until long enough and truncate; the XOF branch "
               "must ask for exactly output_length bytes; HmacPRF.__call__ must pass its declared output length and hash; no "
               "randomness, time or mutable state is read (determinism); the length guards and name registries must refuse.")
ASSUMPTIONS = ["hmac / hashlib are deterministic and implement HMAC and the named hashes",
               "equality with an independent implementation on concrete inputs is not computed"]

PRF = "toolkit/prf/hmac_prf.py"
HASH = "toolkit/hash.py"

H = lambda k, m: ("call", ("method", ("call", ("fn", "hash_func"), (k, m), ()), "digest"), (), ())  # noqa: E731


def _var(n):
    return ("var", n)


def check(repo):
    r1 = Rule("R16.1", "P_hash recurrence of RFC 5246")
    r2 = Rule("R16.2", "exactly the requested number of bytes")
    r3 = Rule("R16.3", "all inputs used, nothing else read: deterministic")
    r4 = Rule("R16.4", "counter-mode expansion of the hash wrapper")
    r5 = Rule("R16.5", "length contracts and registries")
    rules = [r1, r2, r3, r4, r5]

    p = repo.func(PRF, "_tls_p_hash")
    body = p.node.body
    loop = next((st for st in body if isinstance(st, ast.While)), None)
    if not r1.require(loop is not None, p, "expansion loop", "_tls_p_hash lost its expansion loop"):
        return rules
    # hash_func = functools.partial(hmac.new, digestmod=hash_func_name)
    hf = next((st for st in body if isinstance(st, ast.Assign) and unparse(st.targets[0]) == "hash_func"), None)
    ok = hf is not None and isinstance(hf.value, ast.Call) and dotted(hf.value.func) == "functools.partial" and hf.value.args and \
        dotted(hf.value.args[0]) == "hmac.new" and any(k.arg == "digestmod" and unparse(k.value) == p.params[3] for k in hf.value.keywords)
    r1.require(ok, p, "H is HMAC with the named hash", "_tls_p_hash: hash_func is no longer functools.partial(hmac.new, digestmod=<hash name parameter>)")
    pre = [st for st in body[:body.index(loop)] if isinstance(st, (ast.Assign, ast.AugAssign))]
    try:
        env0 = S.run([st for st in pre if not (isinstance(st, ast.Assign) and unparse(st.targets[0]) == "hash_func")])
        env1 = S.run(loop.body)
    except S.NotStraight as e:
        r1.fail_fn(p, loop, "loop body not straight-line", str(e))
        return rules
    key, msg, outlen = p.params[0], p.params[1], p.params[2]
    a0 = env0.get("a")
    r1.require(a0 == H(_var(key), _var(msg)), p, "A(1) = HMAC(key, message)",
               "_tls_p_hash starts the chain with %s; RFC 5246 defines A(1) = HMAC(secret, A(0)) with A(0) = seed" % (S.show(a0) if a0 else None))
    r1.require(env0.get("res") == ("const", b""), p, "empty accumulator", "_tls_p_hash no longer starts from an empty result")
    res1, a1 = env1.get("res"), env1.get("a")
    want_res = ("op", "Add", _var("res"), H(_var(key), ("op", "Add", _var("a"), _var(msg))))
    want_a = H(_var(key), _var("a"))
    r1.require(res1 == want_res, p, "output block = HMAC(key, A(i) || message)",
               "_tls_p_hash appends %s per iteration; P_hash appends HMAC(secret, A(i) + seed)" % (S.show(res1)[:140] if res1 else None))
    r1.require(a1 == want_a, p, "A(i+1) = HMAC(key, A(i))", "_tls_p_hash updates A with %s; P_hash uses A(i+1) = HMAC(secret, A(i))" % (S.show(a1)[:120] if a1 else None))
    r1.instance({"A1": S.show(a0) if a0 else None, "res'": S.show(res1) if res1 else None, "A'": S.show(a1) if a1 else None})
    # iteration count
    n0 = env0.get("n")
    hl = env0.get("hash_len")
    want_hl = ("attr", ("call", ("fn", "hash_func"), (_var(key), ("const", b"")), ()), "digest_size")
    ok_hl = hl is not None and hl[0] == "attr" and hl[2] == "digest_size" and hl[1][0] == "call" and hl[1][1] == ("fn", "hash_func")
    r2.require(ok_hl, p, "hash_len is the digest size of the same hash", "_tls_p_hash computes hash_len as %s" % (S.show(hl) if hl else None))
    want_n = ("op", "FloorDiv", ("op", "Sub", ("op", "Add", _var(outlen), hl), ("const", 1)), hl) if hl else None
    alt_n = ("call", ("fn", "math.ceil"), (("op", "Div", _var(outlen), hl),), ()) if hl else None
    r2.require(n0 in (want_n, alt_n), p, "ceil(output_len / hash_len) blocks",
               "_tls_p_hash produces %s blocks; ceil(output_len / hash_len) are needed to cover the requested length" % (S.show(n0) if n0 else None))
    r2.require(unparse(loop.test) == "n > 0" and env1.get("n") == ("op", "Sub", _var("n"), ("const", 1)), p, "loop runs n times",
               "_tls_p_hash: loop condition %s / counter update %s do not run the body exactly n times" % (unparse(loop.test), S.show(env1.get("n")) if env1.get("n") else None))
    rets = [x for x in ast.walk(p.node) if isinstance(x, ast.Return)]
    r2.require(len(rets) == 1 and unparse(rets[0].value) == "res[:%s]" % outlen, p, "result truncated to output_len",
               "_tls_p_hash returns %s instead of res[:output_len]" % (unparse(rets[0].value) if rets else None))
    g = [st for st, exc in raising_ifs(p) if exc == "ValueError" and "algorithms_available" in unparse(st.test)]
    r5.require(bool(g), p, "unknown hash refused", "_tls_p_hash no longer refuses an unknown hash name")

    # HmacPRF.__call__
    call = repo.func(PRF, "HmacPRF.__call__")
    rets = [x for x in ast.walk(call.node) if isinstance(x, ast.Return)]
    ok = len(rets) == 1 and unparse(rets[0].value).replace("\n", "").replace(" ", "") == "_tls_p_hash(key,message,self.output_length,self.hash_func_name)"
    r2.require(ok, call, "PRF passes its declared output length and hash", "HmacPRF.__call__ returns %s" % (short(rets[0].value) if rets else None))
    init = repo.func(PRF, "HmacPRF.__init__")
    src = unparse(init.node)
    r2.require("if output_length == LENGTH_NOT_GIVEN" in src and "digest_size" in src and "self.hash_func_name = hash_func_name" in src, init, "default output length is the digest size",
               "HmacPRF.__init__ no longer defaults the output length to the digest size / no longer records the hash name")
    for subj, decl in (("key", "key_length"), ("message", "message_length")):
        gd = find_guard(call, subj, decl)
        if r5.require(gd is not None, call, "guard %s" % subj, "HmacPRF.__call__ no longer refuses a %s of the wrong length" % subj):
            cfg = cfg_of(call.node)
            r5.require(all(cfg.dominates(cfg.nodes_of(gd)[0], n.id) for n in cfg.nodes if n.kind == "return"), call, "guard %s dominates" % subj,
                       "HmacPRF.__call__: the %s check does not precede the computation" % subj, gd)
    ab = repo.func("toolkit/prf/abstraction.py", "AbstractPRF.__init__")
    s_ab = unparse(ab.node)
    r5.require(all(("self.%s = %s" % (x, x)) in s_ab for x in ("output_length", "message_length", "key_length")), ab, "declared lengths stored",
               "AbstractPRF.__init__ no longer stores the declared lengths")

    # ---------------------------------------------------------------- hash wrapper
    ce = repo.func(HASH, "HashlibHashVariableOutputLengthWrapper._ctr_expand")
    loop2 = next((st for st in ce.node.body if isinstance(st, ast.While)), None)
    if r4.require(loop2 is not None, ce, "expansion loop", "_ctr_expand lost its loop"):
        pre2 = [st for st in ce.node.body[:ce.node.body.index(loop2)] if isinstance(st, ast.Assign)]
        e0 = S.run(pre2)
        e1 = S.run(loop2.body)
        r4.require(e0.get("c") == ("const", 1) and e0.get("result") == ("const", b""), ce, "counter starts at 1", "_ctr_expand: counter/result start at %s / %s" % (
            S.show(e0.get("c")) if e0.get("c") else None, S.show(e0.get("result")) if e0.get("result") else None))
        want = ("op", "Add", _var("result"), ("call", ("method", ("call", ("fn", "self.hash_func"), (("op", "Add", _var(ce.params[1]), ("call", ("fn", "int_to_bytes"), (_var("c"),), ())),), ()), "digest"), (), ()))
        r4.require(e1.get("result") == want, ce, "block = hash(message || I2B(counter))", "_ctr_expand appends %s" % (S.show(e1.get("result"))[:140] if e1.get("result") else None))
        r4.require(e1.get("c") == ("op", "Add", _var("c"), ("const", 1)), ce, "counter step 1", "_ctr_expand advances the counter by %s" % (S.show(e1.get("c")) if e1.get("c") else None))
        r2.require(unparse(loop2.test) == "len(result) < self.output_length", ce, "expands until long enough", "_ctr_expand stops when %s" % unparse(loop2.test))
        rets = [x for x in ast.walk(ce.node) if isinstance(x, ast.Return)]
        r2.require(len(rets) == 1 and unparse(rets[0].value) == "result[:self.output_length]", ce, "truncated to output_length", "_ctr_expand returns %s" % (unparse(rets[0].value) if rets else None))
    hc = repo.func(HASH, "HashlibHashVariableOutputLengthWrapper.__call__")
    src = unparse(hc.node)
    r4.require("self.hash_func(message).digest(self.output_length)" in src and "'shake_128'" in src and "'shake_256'" in src and "return self._ctr_expand(message)" in src, hc,
               "XOF branch / counter branch", "hash wrapper __call__ no longer uses native XOF output for shake_* and counter expansion otherwise")
    hi = repo.func(HASH, "HashlibHashVariableOutputLengthWrapper.__init__")
    srci = unparse(hi.node)
    r2.require("functools.partial(hashlib.new, hash_func_name)" in srci and "self.output_length = hash_func(b'').digest_size" in srci, hi, "hash bound by name; default length",
               "hash wrapper __init__ no longer binds hashlib.new(hash_func_name) / defaults the output length to the digest size")
    r5.require(any(exc == "ValueError" and "algorithms_available" in unparse(st.test) for st, exc in raising_ifs(hi)), hi, "unknown hash refused", "hash wrapper no longer refuses unknown hash names")

    # ---------------------------------------------------------------- determinism
    for fi in (p, call, ce, hc, repo.func("toolkit/symmetric_encryption/fpe.py", "BitwiseFFX.round")):
        bad = []
        for c in ast.walk(fi.node):
            if isinstance(c, ast.Call):
                d = dotted(c.func) or ""
                if d.split(".")[0] in ("os", "random", "time", "secrets", "uuid", "datetime") or d in ("id", "input"):
                    bad.append(d)
            if isinstance(c, (ast.Global, ast.Nonlocal)):
                bad.append("global")
        stores = [st for st in ast.walk(fi.node) if isinstance(st, (ast.Assign, ast.AugAssign)) and any(
            isinstance(t, ast.Attribute) for t in (st.targets if isinstance(st, ast.Assign) else [st.target]))]
        r3.require(not bad and not stores, fi, "no hidden inputs or state in %s" % fi.name, "%s reads %s / stores attributes: output no longer depends only on (key, message)" % (fi.qual, bad))
        r3.require(not any(x in d for d in fi.decorators for x in ("cache",)), fi, "not memoised", "%s is memoised" % fi.qual)
    # inputs are used as given: parameters are never rebound (a pre-hashed key or a normalised message changes the function)
    for fi in (p, call, ce, hc):
        rebound = []
        for st in ast.walk(fi.node):
            tg = st.targets if isinstance(st, ast.Assign) else ([st.target] if isinstance(st, (ast.AugAssign, ast.AnnAssign)) else [])
            for t in tg:
                for nm in ast.walk(t):
                    if isinstance(nm, ast.Name) and nm.id in fi.params and nm.id not in ("self",) and isinstance(nm.ctx, ast.Store):
                        rebound.append((nm.id, st))
        keep = [(n_, st) for n_, st in rebound if n_ in fi.params[:2] or n_ in ("key", "message")]
        r3.require(not keep, fi, "inputs used as given in %s" % fi.name,
                   "%s rebinds its input %s (%s): the value fed to the MAC/hash is no longer the caller's" % (fi.qual, keep[0][0] if keep else "", short(keep[0][1]) if keep else ""),
                   keep[0][1] if keep else None)
    # both inputs reach the MAC
    uses = unparse(p.node)
    r3.require("hash_func(key, a + message)" in uses and "hash_func(key, message)" in uses and "hash_func(key, a)" in uses, p, "key and message in every MAC", "_tls_p_hash: a MAC call no longer binds both key and message/chain value")

    # registries
    for rel, fn in (("toolkit/prf/__init__.py", "get_prf_implementation"), (HASH, "get_hash_implementation")):
        fi = repo.func(rel, fn)
        last = fi.node.body[-1]
        r5.require(isinstance(last, ast.Raise) and isinstance(last.exc, ast.Call) and dotted(last.exc.func) == "ValueError", fi, "registry refuses unknown names", "%s no longer raises ValueError" % fn)
    gp = repo.func("toolkit/prf/__init__.py", "get_prf_implementation")
    r5.require("HmacPRF" in unparse(gp.node) and "'hmacprf'" in unparse(gp.node), gp, "HmacPRF registered", "get_prf_implementation no longer maps 'hmacprf' to HmacPRF")
    return rules


# ----------------------------------------------------------------------------- self-test variants
from ..selftest import V  # noqa: E402

VARIANTS = [
    V("phash-block-without-seed", "fire", "R16.1", [(PRF, "_tls_p_hash", "res += hash_func(key, a + message).digest()", "res += hash_func(key, a).digest()")]),
    V("phash-seed-order", "fire", "R16.1", [(PRF, "_tls_p_hash", "res += hash_func(key, a + message).digest()", "res += hash_func(key, message + a).digest()")]),
    V("phash-a1-wrong", "fire", "R16.1", [(PRF, "_tls_p_hash", "a = hash_func(key, message).digest()  # A(1)", "a = message  # A(0)")]),
    V("phash-chain-not-rekeyed", "fire", "R16.1", [(PRF, "_tls_p_hash", "        a = hash_func(key, a).digest()\n", "        a = hashlib.new(hash_func_name, a).digest()\n")]),
    V("phash-untruncated", "fire", "R16.2", [(PRF, "_tls_p_hash", "return res[:output_len]", "return res")]),
    V("phash-floor-blocks", "fire", "R16.2", [(PRF, "_tls_p_hash", "n = (output_len + hash_len - 1) // hash_len", "n = output_len // hash_len")]),
    V("prf-ignores-declared-length", "fire", "R16.2", [(PRF, "HmacPRF.__call__", "return _tls_p_hash(key, message, self.output_length,", "return _tls_p_hash(key, message, 32,")]),
    V("ctr-from-zero", "fire", "R16.4", [(HASH, "HashlibHashVariableOutputLengthWrapper._ctr_expand", "        c = 1\n", "        c = 0\n")]),
    V("ctr-ignores-message-after-first", "fire", "R16.4", [(HASH, "HashlibHashVariableOutputLengthWrapper._ctr_expand",
      "result += self.hash_func(message + int_to_bytes(c)).digest()", "result += self.hash_func((message if c == 1 else result) + int_to_bytes(c)).digest()")]),
    V("prf-salted-with-time", "fire", "R16.3", [(PRF, "_tls_p_hash", "    res = b\"\"\n", "    import time\n    res = b\"\"\n    message = message + str(time.time()).encode()\n")]),
    V("prf-message-guard-dropped", "fire", "R16.5", [(PRF, "HmacPRF.__call__",
      "        if self.message_length != LENGTH_UNLIMITED and len(\n                message) != self.message_length:\n            raise ValueError(\n                \"The message length of the PRF does not meet the definition\")\n", "")]),
    V("key-prehashed-at-block-size", "fire", "R16.3", [(PRF, "_tls_p_hash", "    res = b\"\"\n", "    if len(key) >= 64:\n        key = hashlib.new(hash_func_name, key).digest()\n    res = b\"\"\n")]),
    V("benign-ceil-form", "silent", None, [(PRF, "_tls_p_hash", "n = (output_len + hash_len - 1) // hash_len", "import math\n    n = math.ceil(output_len / hash_len)")]),
]
