"""C16 - PRF and hash wrappers: deterministic, exact output length, standard-conformant.

Decides that the source implements the documented recurrences (TLS P_hash of RFC 5246 section 5;
counter-mode expansion / native XOF), returns exactly the requested number of bytes, uses all of its
inputs and no other state.  See DESIGN.md section 3, C16.
"""
import ast

from ..core import Rule
from ..model import AnalysisError, dotted, unparse, short
from ..cfg import cfg_of
from .. import straight as S
from .. import shape
from ..facts import facts_of
from ..contract import refusals, member
from ..pathsum import summarize
from .c08 import guard_contract, raising_ifs
from ..contract import describe_alt

EXPLANATION = ("State-transformer reconstruction of the expansion loops: _tls_p_hash must initialise A(1) = HMAC(key, message) and "
               "each iteration must map (res, A) to (res || HMAC(key, A || message), HMAC(key, A)) for ceil(output_len / hash_len) "
               "iterations with hash_len the digest size of the same hash, returning res[:output_len] (RFC 5246 section 5); "
               "_ctr_expand must append hash(message || I2B(c)) for c = 1, 2, ... until long enough and truncate; the XOF branch "
               "must ask for exactly output_length bytes; HmacPRF.__call__ must pass its declared output length and hash; no "
               "randomness, time or mutable state is read (determinism); the length guards and name registries must refuse.")
ASSUMPTIONS = ["hmac / hashlib are deterministic and implement HMAC and the named hashes",
               "equality with an independent implementation on concrete inputs is not computed"]

PRF = "toolkit/prf/hmac_prf.py"
HASH = "toolkit/hash.py"

H = lambda k, m: ("call", ("method", ("call", ("fn", "hash_func"), (k, m), ()), "digest"), (), ())  # noqa: E731


def _var(n):
    return ("var", n)


def _refuses_unknown_hash(fi, name_param):
    """A ValueError is raised when <name> (possibly lower-cased) is not in hashlib.algorithms_available."""
    F = facts_of(fi)

    def pred(k, t):
        return k[0] == "in" and not t and k[2].endswith("algorithms_available") and (name_param in k[1])
    return bool(refusals(F, pred))


def _without_branch(fi, pred):
    """Copy of the function in which the top-level `if <fact pred>: ...return` has been taken out (what runs when the fact
    does not hold), or None when the body does not have that form."""
    from ..facts import atom_facts
    from ..model import clone
    body = list(fi.node.body)
    for i, st in enumerate(body):
        if not isinstance(st, ast.If):
            continue
        e, pol = st.test, True
        while isinstance(e, ast.UnaryOp) and isinstance(e.op, ast.Not):
            e, pol = e.operand, not pol
        try:
            facts = atom_facts(fi, e, True, ())
        except Exception:
            facts = []
        hit = [t for (k, t) in facts if pred(k, True) or pred(k, False)]
        if len(facts) != 1 or not hit:
            continue
        holds_in_body = (hit[0] is True) == pol
        taken, other = (st.body, st.orelse) if holds_in_body else (st.orelse, st.body)
        if not taken or not isinstance(taken[-1], (ast.Return, ast.Raise)):
            return None
        new = clone(fi.node)
        new.body = [clone(x) for x in body[:i]] + [clone(x) for x in other] + [clone(x) for x in body[i + 1:]]
        if not new.body:
            return None
        ast.fix_missing_locations(new)
        from ..model import set_parents
        set_parents(new)
        return new
    return None


def _bound_args(t, fn, params):
    """{parameter: term} of a call term to `fn`, or None."""
    if t is None or t[0] != "call" or t[1] != fn:
        return None
    out = {}
    for i, a in enumerate(t[2]):
        if i >= len(params):
            return None
        out[params[i]] = a
    for k, v in t[3]:
        if k in out:
            return None
        out[k] = v
    return out


def _check_init_defaults(repo, init, name_param, mac_fn, callable_attr=None):
    """Constructor: self.hash_func_name = <name>; when output_length is LENGTH_NOT_GIVEN, self.output_length becomes the digest
    size of an instance of that very hash.  -> None or the reason."""
    try:
        not_given = repo.const_value(init.module, ast.parse("LENGTH_NOT_GIVEN", mode="eval").body)
    except Exception:
        return "LENGTH_NOT_GIVEN is no longer a constant here"
    nm = ("var", name_param)
    seen_default = False
    for ps in summarize(init):
        if ps.exc is not None:
            continue
        if ps.store("hash_func_name") != nm:
            return "hash name not recorded on a path [%s]" % describe_alt(ps.facts)
        if callable_attr is not None:
            probe = ("var", "__probe__")
            applied = S.canon(("call", ("fnval", ps.store(callable_attr)), (probe,), ())) if ps.store(callable_attr) is not None else None
            if applied != ("call", mac_fn, (nm, probe), ()):
                return "self.%s is %s" % (callable_attr, S.show(ps.store(callable_attr))[:80] if ps.store(callable_attr) else None)
        is_default = ps.has(lambda k, t: k[0] == "==" and repr(not_given) in k[1:] and ("output_length__entry" in k[1:]) and t)
        if is_default:
            seen_default = True
            ol = ps.store("output_length")
            ok = ol is not None and ol[0] == "attr" and ol[2] == "digest_size" and ol[1][0] == "call" and ol[1][1] == mac_fn
            if ok and mac_fn == ("fn", "hmac.new"):
                ok = dict(ol[1][3]).get("digestmod") in (nm,)
            if ok and mac_fn == ("fn", "hashlib.new"):
                ok = ol[1][2][:1] == (nm,)
            if not ok:
                return "default output length is %s" % (S.show(ol)[:100] if ol else None)
    if not seen_default:
        return "no path handles output_length == LENGTH_NOT_GIVEN"
    return None


def _subterms(t):
    stack = [t]
    while stack:
        x = stack.pop()
        if isinstance(x, tuple):
            yield x
            stack.extend(y for y in x if isinstance(y, tuple))


def check(repo):
    r1 = Rule("R16.1", "P_hash recurrence of RFC 5246")
    r2 = Rule("R16.2", "exactly the requested number of bytes")
    r3 = Rule("R16.3", "all inputs used, nothing else read: deterministic")
    r4 = Rule("R16.4", "counter-mode expansion of the hash wrapper")
    r5 = Rule("R16.5", "length contracts and registries")
    rules = [r1, r2, r3, r4, r5]

    p = repo.func(PRF, "_tls_p_hash")

    def _phash():
        key, msg, outlen, hname = (("var", x) for x in p.params[:4])
        try:
            sm = shape.summary(shape.bytes_accumulators(p.node))
        except shape.NoShape as e:
            r1.fail_fn(p, p.node, "expansion loop", "_tls_p_hash is no longer <prefix>; <one expansion loop>; return (%s)" % e)
            return

        def HM(k, m):
            return ("call", ("method", ("call", ("fn", "hmac.new"), (k, m), (("digestmod", hname),)), "digest"), (), ())
        A, RES = S.mv("A"), S.mv("RES")
        eqs = [
            (HM(key, msg), lambda asg: sm.init.get(asg["A"])),                                   # A(1) = HMAC(key, A(0) = message)
            (("const", b""), lambda asg: sm.init.get(asg["RES"])),                                # empty accumulator
            (("cat", (RES, HM(key, ("cat", (A, msg))))), lambda asg: sm.step.get(asg["RES"])),    # res' = res || HMAC(key, A || message)
            (HM(key, A), lambda asg: sm.step.get(asg["A"])),                                      # A' = HMAC(key, A)
        ]
        found = S.match_all(eqs, ["A", "RES"], sm.carried)
        if found is None:
            # say which equation has no witness
            why = []
            for nm, (pat, _g) in zip(("A(1) = HMAC(key, message)", "empty accumulator", "output block = HMAC(key, A(i) || message)", "A(i+1) = HMAC(key, A(i))"), eqs):
                vals = list(sm.init.values()) if nm in ("A(1) = HMAC(key, message)", "empty accumulator") else list(sm.step.values())
                if not any(S.unify(pat, v, {}) for v in vals):
                    why.append(nm)
            r1.fail_fn(p, sm.loop, "P_hash recurrence",
                       "_tls_p_hash no longer computes the P_hash recurrence of RFC 5246 (A(1) = HMAC(secret, seed); per block: output += HMAC(secret, A(i) + seed), "
                       "A(i+1) = HMAC(secret, A(i)), all with HMAC over the named hash and the caller's key): no variable satisfies %s; loop-carried state: %s" % (
                           " / ".join(why) or "all four equations consistently", {k: S.show(v)[:90] for k, v in sm.step.items()}))
            return
        asg, _b = found
        r1.ok({"A": asg["A"], "RES": asg["RES"], "A1": S.show(sm.init[asg["A"]])[:100], "res'": S.show(sm.step[asg["RES"]])[:140], "A'": S.show(sm.step[asg["A"]])[:100]})
        r1.ok({"check": "H is HMAC with the named hash", "hash": p.params[3]})
        # iteration count: ceil(output_len / hash_len) with hash_len the digest size of the same HMAC, or 'until long enough'
        hl_pat = ("attr", ("call", ("fn", "hmac.new"), (S.mv("K"), S.mv("M")), (("digestmod", hname),)), "digest_size")
        tm = shape.times(sm, None)

        def is_hl(t):
            return S.unify(hl_pat, t, {})
        ok_n, n_txt = False, S.show(tm[1])[:120] if tm and tm[1] is not None else None
        if tm and tm[0] == "count" and tm[1] is not None:
            n0 = tm[1]
            # (output_len + hash_len - 1) // hash_len  |  math.ceil(output_len / hash_len)  |  -(-output_len // hash_len)
            if n0[0] == "op" and n0[1] == "FloorDiv" and is_hl(n0[3]):
                num = n0[2]
                parts = list(num[2:]) if num[0] == "op" and num[1] == "Sub" else None
                if parts and parts[1] == ("const", 1) and parts[0][0] == "cat" and sorted(map(repr, parts[0][1])) == sorted(map(repr, (outlen, n0[3]))):
                    ok_n = True
                if num[0] == "cat" and len(num[1]) == 3 and outlen in num[1] and n0[3] in num[1] and ("const", -1) in num[1]:
                    ok_n = True
            if n0[0] == "call" and n0[1] == ("fn", "math.ceil") and len(n0[2]) == 1 and n0[2][0][0] == "op" and n0[2][0][1] == "Div" and \
                    n0[2][0][2] == outlen and is_hl(n0[2][0][3]):
                ok_n = True
            if n0[0] == "un" and n0[1] == "USub" and n0[2][0] == "op" and n0[2][1] == "FloorDiv" and n0[2][2] == ("un", "USub", outlen) and is_hl(n0[2][3]):
                ok_n = True
        elif tm and tm[0] == "until":
            c = tm[1]
            # while len(res) < output_len
            if c[0] == "cmp" and len(c[1]) == 1:
                l, r_ = c[2]
                ln = ("call", ("fn", "len"), (("var", asg["RES"]),), ())
                ok_n = (c[1][0] == "Lt" and l == ln and r_ == outlen) or (c[1][0] == "Gt" and r_ == ln and l == outlen)
                n_txt = S.show(c)
        r2.require(ok_n, p, "ceil(output_len / hash_len) blocks",
                   "_tls_p_hash produces %s blocks; ceil(output_len / hash_len) are needed to cover the requested length (hash_len = digest size of the same HMAC)" % n_txt, sm.loop)
        want_ret = ("slice", ("var", asg["RES"]), None, outlen)
        r2.require(sm.ret == want_ret, p, "result truncated to output_len",
                   "_tls_p_hash returns %s instead of the accumulated blocks cut to output_len" % (S.show(sm.ret) if sm.ret else None))

    _phash()
    r5.require(_refuses_unknown_hash(p, p.params[3]), p, "unknown hash refused", "_tls_p_hash no longer refuses an unknown hash name")

    # HmacPRF.__call__: every result is P_hash(key, message, declared output length, declared hash)
    call = repo.func(PRF, "HmacPRF.__call__")
    want = {p.params[0]: ("var", call.params[1]), p.params[1]: ("var", call.params[2]),
            p.params[2]: ("attr", ("var", "self"), "output_length"), p.params[3]: ("attr", ("var", "self"), "hash_func_name")}
    rets = [ps for ps in summarize(call) if ps.exc is None]
    okc = bool(rets)
    shown = None
    for ps in rets:
        got = _bound_args(ps.ret, ("fn", "_tls_p_hash"), p.params) if ps.returned else None
        if got != want:
            okc, shown = False, ps.ret
    r2.require(okc, call, "PRF passes its declared output length and hash", "HmacPRF.__call__ returns %s" % (S.show(shown)[:120] if shown else None))
    # HmacPRF.__init__: records the hash name; a missing output length defaults to the digest size of that hash
    init = repo.func(PRF, "HmacPRF.__init__")
    oi = _check_init_defaults(repo, init, "hash_func_name", ("fn", "hmac.new"))
    r2.require(oi is None, init, "default output length is the digest size",
               "HmacPRF.__init__ no longer defaults the output length to the digest size / no longer records the hash name (%s)" % oi)
    for subj, decl in (("key", "key_length"), ("message", "message_length")):
        refused, bad, F, what = guard_contract(call, subj, decl)
        if r5.require(bool(refused), call, "guard %s" % subj, "HmacPRF.__call__ no longer refuses a %s of the wrong length" % subj):
            if bad:
                nid, alt = bad[0]
                r5.fail_fn(call, F.cfg.nodes[nid].stmt, "guard %s dominates" % subj,
                           "HmacPRF.__call__: the %s check does not precede the computation on every path: a result is produced under [%s]" % (subj, describe_alt(alt)))
            else:
                r5.ok({"function": "HmacPRF.__call__", "subject": subj, "declared": decl})
    ab = repo.func("toolkit/prf/abstraction.py", "AbstractPRF.__init__")
    from ..pathsum import stores_params
    r5.require(stores_params(ab, ("output_length", "message_length", "key_length")), ab, "declared lengths stored",
               "AbstractPRF.__init__ no longer stores the declared lengths")

    # ---------------------------------------------------------------- hash wrapper
    hc = repo.func(HASH, "HashlibHashVariableOutputLengthWrapper.__call__")
    is_xof = member("self.hash_func_name", {"shake_128", "shake_256"})
    ce = hc.cls.methods.get("_ctr_expand") if hc.cls is not None else None
    inlined = ce is None
    ce_node = ce.node if ce is not None else None
    if inlined:
        # no separate helper: the counter expansion is expected in __call__ itself, as what remains of its body once the
        # shake_* branch (which must return on its own) is taken out
        ce = hc
        ce_node = _without_branch(hc, is_xof)
    cmsg = ("var", ce.params[1])
    olen = ("attr", ("var", "self"), "output_length")
    sm2 = None
    if ce_node is None:
        r4.fail_fn(hc, hc.node, "expansion loop", "the counter-mode expansion (result += hash(message || I2B(c)), c = 1, 2, ...) is found neither in _ctr_expand nor "
                   "in the part of __call__ that handles the hashes without native variable-length output")
    else:
        try:
            sm2 = shape.summary(shape.bytes_accumulators(ce_node))
        except shape.NoShape as e:
            r4.fail_fn(ce, ce.node, "expansion loop", "%s is no longer <prefix>; <one expansion loop>; return (%s)" % ("_ctr_expand" if not inlined else "the counter branch of __call__", e))
    if sm2 is not None:
        RES = S.mv("RES")
        ctr = shape.counter_of(sm2)
        f2 = None
        Cv = None
        if ctr is not None and ctr[1] == ("const", 1) and ctr[2] == ("const", 1):
            Cv = ("var", ctr[0])
        elif ctr is not None and ctr[1] == ("const", 0) and ctr[2] == ("const", 1):
            # a count of the blocks produced so far (0, 1, 2, ...), the block counter being that count + 1
            for cand in (("cat", (("var", ctr[0]), ("const", 1))), ("cat", (("const", 1), ("var", ctr[0])))):
                if any(cand in list(_subterms(v)) for v in sm2.step.values()):
                    Cv = cand
        if Cv is not None:
            blk = ("call", ("method", ("call", ("fn", "self.hash_func"), (("cat", (cmsg, ("call", ("fn", "int_to_bytes"), (Cv,), ()))),), ()), "digest"), (), ())
            eqs2 = [(("const", b""), lambda asg: sm2.init.get(asg["RES"])),
                    (("cat", (RES, blk)), lambda asg: sm2.step.get(asg["RES"]))]
            f2 = S.match_all(eqs2, ["RES"], [v for v in sm2.carried if v != ctr[0]])
        if f2 is None:
            r4.fail_fn(ce, sm2.loop, "counter-mode recurrence" if ctr is not None and ctr[1] == ("const", 1) else "counter starts at 1",
                       "_ctr_expand no longer expands as result += hash(message || I2B(c)) for c = 1, 2, ... (block = hash(message || I2B(counter))): counter %s; per iteration "
                       "it computes %s" % ("%s from %s step %s" % (ctr[0], S.show(ctr[1]), S.show(ctr[2])) if ctr else "not found", {k: S.show(v)[:100] for k, v in sm2.step.items()}))
        else:
            asg2, _ = f2
            r4.ok({"C": ctr[0], "RES": asg2["RES"], "res'": S.show(sm2.step[asg2["RES"]])[:140]})
            ln = ("call", ("fn", "len"), (("var", asg2["RES"]),), ())
            cc = shape.continue_condition(sm2)
            oku = cc == (("Lt", ln, olen), True)
            if not oku and cc is not None and cc[1] is True and cc[0][0] == "Lt" and cc[0][2] == olen and cc[0][1][0] == "var":
                # a running total kept beside the result: starts at 0 and grows by the length of exactly what is appended to the result
                Lv = cc[0][1][1]
                rs = sm2.step.get(asg2["RES"])
                app = rs[1][1] if rs is not None and rs[0] == "cat" and len(rs[1]) == 2 and rs[1][0] == ("var", asg2["RES"]) else None
                if app is not None and sm2.init.get(Lv) == ("const", 0) and sm2.step.get(Lv) in (
                        ("cat", (("var", Lv), ("call", ("fn", "len"), (app,), ()))), ("cat", (("call", ("fn", "len"), (app,), ()), ("var", Lv)))):
                    oku = True
            r2.require(oku, ce, "expands until long enough", "_ctr_expand keeps expanding while %s; expected while len(result) < output_length" % (cc,), sm2.loop)
            r2.require(sm2.ret == ("slice", ("var", asg2["RES"]), None, olen), ce, "truncated to output_length", "_ctr_expand returns %s" % (S.show(sm2.ret) if sm2.ret else None))
    hmsg = ("var", hc.params[1])
    xof = ("call", ("method", ("call", ("fn", "self.hash_func"), (hmsg,), ()), "digest"), (olen,), ())
    ctr = ("call", ("fn", "self._ctr_expand"), (hmsg,), ())
    okx, seen_x, seen_c = True, False, False
    for ps in summarize(hc):
        if ps.exc is not None:
            continue
        if ps.has(lambda k, t: is_xof(k, True) and t):
            seen_x = True
            okx = okx and ps.ret == xof
        elif ps.has(lambda k, t: is_xof(k, True) and not t):
            seen_c = True
            # (with the expansion written out in __call__ itself, its loop was examined above as the rest of the body)
            okx = okx and (ps.ret == ctr if not inlined else sm2 is not None)
        else:
            okx = False
    r4.require(okx and seen_x and seen_c, hc, "XOF branch / counter branch", "hash wrapper __call__ no longer uses native XOF output for shake_* and counter expansion otherwise")
    hi = repo.func(HASH, "HashlibHashVariableOutputLengthWrapper.__init__")
    oh = _check_init_defaults(repo, hi, "hash_func_name", ("fn", "hashlib.new"), callable_attr="hash_func")
    r2.require(oh is None, hi, "hash bound by name; default length",
               "hash wrapper __init__ no longer binds hashlib.new(hash_func_name) / defaults the output length to the digest size (%s)" % oh)
    r5.require(_refuses_unknown_hash(hi, "hash_func_name"), hi, "unknown hash refused", "hash wrapper no longer refuses unknown hash names")

    # ---------------------------------------------------------------- determinism
    for fi in (p, call, ce, hc, repo.func("toolkit/symmetric_encryption/fpe.py", "BitwiseFFX.round")):
        bad = []
        for c in ast.walk(fi.node):
            if isinstance(c, ast.Call):
                d = dotted(c.func) or ""
                if d.split(".")[0] in ("os", "random", "time", "secrets", "uuid", "datetime") or d in ("id", "input"):
                    bad.append(d)
            if isinstance(c, (ast.Global, ast.Nonlocal)):
                bad.append("global")
        stores = [st for st in ast.walk(fi.node) if isinstance(st, (ast.Assign, ast.AugAssign)) and any(
            isinstance(t, ast.Attribute) for t in (st.targets if isinstance(st, ast.Assign) else [st.target]))]
        r3.require(not bad and not stores, fi, "no hidden inputs or state in %s" % fi.name, "%s reads %s / stores attributes: output no longer depends only on (key, message)" % (fi.qual, bad))
        r3.require(not any(x in d for d in fi.decorators for x in ("cache",)), fi, "not memoised", "%s is memoised" % fi.qual)
    # inputs are used as given: parameters are never rebound (a pre-hashed key or a normalised message changes the function)
    for fi in (p, call, ce, hc):
        rebound = []
        for st in ast.walk(fi.node):
            tg = st.targets if isinstance(st, ast.Assign) else ([st.target] if isinstance(st, (ast.AugAssign, ast.AnnAssign)) else [])
            for t in tg:
                for nm in ast.walk(t):
                    if isinstance(nm, ast.Name) and nm.id in fi.params and nm.id not in ("self",) and isinstance(nm.ctx, ast.Store):
                        rebound.append((nm.id, st))
        keep = [(n_, st) for n_, st in rebound if n_ in fi.params[:2] or n_ in ("key", "message")]
        r3.require(not keep, fi, "inputs used as given in %s" % fi.name,
                   "%s rebinds its input %s (%s): the value fed to the MAC/hash is no longer the caller's" % (fi.qual, keep[0][0] if keep else "", short(keep[0][1]) if keep else ""),
                   keep[0][1] if keep else None)

    # registries
    from .c08 import registry_refuses
    for rel, fn in (("toolkit/prf/__init__.py", "get_prf_implementation"), (HASH, "get_hash_implementation")):
        fi = repo.func(rel, fn)
        why = registry_refuses(fi)
        r5.require(why is None, fi, "registry refuses unknown names", "%s no longer raises ValueError for unknown names or can return without an implementation (%s)" % (fn, why))
    gp = repo.func("toolkit/prf/__init__.py", "get_prf_implementation")
    r5.require("HmacPRF" in unparse(gp.node) and "'hmacprf'" in unparse(gp.node), gp, "HmacPRF registered", "get_prf_implementation no longer maps 'hmacprf' to HmacPRF")
    return rules


# ----------------------------------------------------------------------------- self-test variants
from ..selftest import V  # noqa: E402

VARIANTS = [
    V("phash-block-without-seed", "fire", "R16.1", [(PRF, "_tls_p_hash", "res += hash_func(key, a + message).digest()", "res += hash_func(key, a).digest()")]),
    V("phash-seed-order", "fire", "R16.1", [(PRF, "_tls_p_hash", "res += hash_func(key, a + message).digest()", "res += hash_func(key, message + a).digest()")]),
    V("phash-a1-wrong", "fire", "R16.1", [(PRF, "_tls_p_hash", "a = hash_func(key, message).digest()  # A(1)", "a = message  # A(0)")]),
    V("phash-chain-not-rekeyed", "fire", "R16.1", [(PRF, "_tls_p_hash", "        a = hash_func(key, a).digest()\n", "        a = hashlib.new(hash_func_name, a).digest()\n")]),
    V("phash-untruncated", "fire", "R16.2", [(PRF, "_tls_p_hash", "return res[:output_len]", "return res")]),
    V("phash-floor-blocks", "fire", "R16.2", [(PRF, "_tls_p_hash", "n = (output_len + hash_len - 1) // hash_len", "n = output_len // hash_len")]),
    V("prf-ignores-declared-length", "fire", "R16.2", [(PRF, "HmacPRF.__call__", "return _tls_p_hash(key, message, self.output_length,", "return _tls_p_hash(key, message, 32,")]),
    V("ctr-from-zero", "fire", "R16.4", [(HASH, "HashlibHashVariableOutputLengthWrapper._ctr_expand", "        c = 1\n", "        c = 0\n")]),
    V("ctr-ignores-message-after-first", "fire", "R16.4", [(HASH, "HashlibHashVariableOutputLengthWrapper._ctr_expand",
      "result += self.hash_func(message + int_to_bytes(c)).digest()", "result += self.hash_func((message if c == 1 else result) + int_to_bytes(c)).digest()")]),
    V("prf-salted-with-time", "fire", "R16.3", [(PRF, "_tls_p_hash", "    res = b\"\"\n", "    import time\n    res = b\"\"\n    message = message + str(time.time()).encode()\n")]),
    V("prf-message-guard-dropped", "fire", "R16.5", [(PRF, "HmacPRF.__call__",
      "        if self.message_length != LENGTH_UNLIMITED and len(\n                message) != self.message_length:\n            raise ValueError(\n                \"The message length of the PRF does not meet the definition\")\n", "")]),
    V("key-prehashed-at-block-size", "fire", "R16.3", [(PRF, "_tls_p_hash", "    res = b\"\"\n", "    if len(key) >= 64:\n        key = hashlib.new(hash_func_name, key).digest()\n    res = b\"\"\n")]),
    V("benign-ceil-form", "silent", None, [(PRF, "_tls_p_hash", "n = (output_len + hash_len - 1) // hash_len", "import math\n    n = math.ceil(output_len / hash_len)")]),
]
