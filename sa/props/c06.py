"""C06 - index layout does not encode the order in which the database was supplied.

Decides the two mechanisms the property names: label-addressed tables are built from label-sorted
pairs, and array positions come from a random / pseudo-random source, not from processing order.
See DESIGN.md section 3, C06.
"""
import ast

from ..core import Rule
from ..model import AnalysisError, dotted, unparse, short, ancestors
from ..cfg import cfg_of, calls_in_order
from ..terms import fn_terms, walk, show
from ..schemes import discover, flatten, is_urandom, is_builder
from .c02 import shape_of

EXPLANATION = ("(1) For CJJ14.{PiBas,PiPack,PiPtr,Pi2Lev}, CT14.Pi and ANSS16.Scheme3 every dictionary of the encrypted "
               "database must come from a builder in which a sort by the pair's first component dominates the dict "
               "construction from that same list, and _Enc must obtain the dictionary from that builder (use-def term of the "
               "EDB constructor arguments).  (2) For every store into a list-kind container (PiPtr, Pi2Lev, SSE1) the index "
               "term must derive from an accepted source: an element popped from random.sample over the whole free range, or "
               "a keyed PRP of a counter; for DP17 the bucket is drawn by random.choice and each bucket is shuffled before "
               "it is encrypted.  A loop counter, len(), enumerate index or an ordered list as the slot is a violation.")
ASSUMPTIONS = ["statistical quality of `random` and of the PRP is not examined"]

SORTED_SCHEMES = {"CJJ14.PiBas", "CJJ14.PiPack", "CJJ14.PiPtr", "CJJ14.Pi2Lev", "CT14.Pi", "ANSS16.Scheme3"}


def _first_component_key(node, fi=None):
    """key=lambda p: p[0] / operator.itemgetter(0) / a named function returning its argument's first component / None"""
    if node is None:
        return True
    if isinstance(node, ast.Name) and fi is not None:
        g = fi.module.functions.get(node.id) or getattr(fi, "nested", {}).get(node.id)
        if g is not None and len(g.params) == 1:
            body = [st for st in g.node.body if not (isinstance(st, ast.Expr) and isinstance(st.value, ast.Constant))]
            if len(body) == 1 and isinstance(body[0], ast.Return):
                b = body[0].value
                return isinstance(b, ast.Subscript) and isinstance(b.value, ast.Name) and b.value.id == g.params[0] and \
                    isinstance(b.slice, ast.Constant) and b.slice.value == 0
        return False
    if isinstance(node, ast.Lambda) and len(node.args.args) == 1:
        b = node.body
        return isinstance(b, ast.Subscript) and isinstance(b.value, ast.Name) and b.value.id == node.args.args[0].arg and \
            isinstance(b.slice, ast.Constant) and b.slice.value == 0
    if isinstance(node, ast.Call) and (dotted(node.func) or "").endswith("itemgetter") and len(node.args) == 1 and \
            isinstance(node.args[0], ast.Constant) and node.args[0].value == 0:
        return True
    return False


def check_builder(repo, rule, fi):
    """In the builder classmethod a sort of the pair list by label dominates the dict construction from that list."""
    cfg = cfg_of(fi.node)
    params = [p for p in fi.params if p not in ("cls", "self")]
    if not params:
        rule.fail_fn(fi, fi.node, "builder without list parameter", "%s takes no pair list" % fi.qual)
        return
    lst = params[0]
    sorted_names = set()  # names holding a sorted version
    sort_nodes = {}
    for n in cfg.nodes:
        if n.stmt is None or n.ast is None:
            continue
        for c in calls_in_order(n.stmt if n.kind != "test" else n.ast):
            if isinstance(c.func, ast.Attribute) and c.func.attr == "sort" and isinstance(c.func.value, ast.Name) and c.func.value.id == lst:
                key = next((k.value for k in c.keywords if k.arg == "key"), None)
                if _first_component_key(key, fi):
                    sort_nodes.setdefault(lst, set()).add(n.id)
                else:
                    rule.fail_fn(fi, c, "sort key", "%s sorts the pairs by something other than the label: %s" % (fi.qual, short(c)))
            if isinstance(c.func, ast.Name) and c.func.id == "sorted" and c.args and isinstance(c.args[0], ast.Name) and c.args[0].id == lst:
                key = next((k.value for k in c.keywords if k.arg == "key"), None)
                if _first_component_key(key, fi):
                    st = n.stmt
                    if isinstance(st, ast.Assign) and len(st.targets) == 1 and isinstance(st.targets[0], ast.Name):
                        sort_nodes.setdefault(st.targets[0].id, set()).add(n.id)
                    else:
                        sort_nodes.setdefault("<inline>", set()).add(n.id)
                else:
                    rule.fail_fn(fi, c, "sort key", "%s sorts the pairs by something other than the label: %s" % (fi.qual, short(c)))
    # dict constructions
    builds = []
    for n in cfg.nodes:
        if n.stmt is None or n.ast is None:
            continue
        root = n.ast if n.kind == "test" else n.stmt
        for x in ast.walk(root):
            src = None
            if isinstance(x, ast.DictComp) and x.generators:
                src = x.generators[0].iter
            elif isinstance(x, ast.Call) and isinstance(x.func, ast.Name) and x.func.id in ("dict", "OrderedDict") and x.args:
                src = x.args[0]
            if src is None:
                continue
            inline_sorted = isinstance(src, ast.Call) and isinstance(src.func, ast.Name) and src.func.id == "sorted" and \
                _first_component_key(next((k.value for k in src.keywords if k.arg == "key"), None), fi)
            builds.append((n, x, src, inline_sorted))
    # explicit loop:  for k, v in <pairs>: D[k] = v
    for n in cfg.nodes:
        if n.kind == "for" and isinstance(n.stmt.target, (ast.Tuple, ast.List)) and len(n.stmt.target.elts) == 2 and \
                all(isinstance(e, ast.Name) for e in n.stmt.target.elts):
            kname, vname = (e.id for e in n.stmt.target.elts)
            stores = [x for b in n.stmt.body for x in ast.walk(b) if isinstance(x, ast.Assign) and len(x.targets) == 1 and
                      isinstance(x.targets[0], ast.Subscript) and isinstance(x.targets[0].slice, ast.Name) and x.targets[0].slice.id == kname and
                      isinstance(x.value, ast.Name) and x.value.id == vname]
            if stores:
                src = n.stmt.iter
                inline_sorted = isinstance(src, ast.Call) and isinstance(src.func, ast.Name) and src.func.id == "sorted" and \
                    _first_component_key(next((k.value for k in src.keywords if k.arg == "key"), None), fi)
                builds.append((n, n.stmt, src, inline_sorted))
    if not builds:
        rule.fail_fn(fi, fi.node, "builder builds no dict", "%s no longer builds the table from the pair list" % fi.qual)
        return
    for n, x, src, inline_sorted in builds:
        if inline_sorted:
            rule.ok({"builder": fi.key, "form": "dict over sorted(...)", "line": n.line})
            continue
        name = src.id if isinstance(src, ast.Name) else None
        nodes = sort_nodes.get(name, set()) if name else set()
        ok = bool(nodes) and not cfg.can_reach(cfg.entry, n.id, avoid=nodes)
        # no reordering between the sort and the build
        if ok:
            for m in cfg.nodes:
                if m.stmt is None or m.ast is None or m.id in nodes:
                    continue
                for c in calls_in_order(m.stmt if m.kind != "test" else m.ast):
                    d = dotted(c.func) or ""
                    if (d in ("random.shuffle",) or (isinstance(c.func, ast.Attribute) and c.func.attr in ("reverse", "insert", "append", "extend") and
                                                       isinstance(c.func.value, ast.Name) and c.func.value.id == name)) and \
                            any(cfg.can_reach(s, m.id) for s in nodes) and cfg.can_reach(m.id, n.id):
                        if d == "random.shuffle" or c.func.attr != "reverse":
                            ok = False
        if ok:
            rule.ok({"builder": fi.key, "form": "sort dominates dict construction", "line": n.line})
        else:
            rule.fail_fn(fi, x, "table built from unsorted pairs",
                         "%s builds the table from %s without a preceding sort by label: the serialized table keeps the order in which "
                         "keywords were processed" % (fi.qual, short(src)))


def check(repo):
    r1 = Rule("R6.1", "label-addressed tables are built from label-sorted pairs")
    r2 = Rule("R6.2", "array positions come from a random or keyed pseudo-random source")
    r3 = Rule("R6.3", "the random permutation covers exactly the free slots")
    rules = [r1, r2, r3]
    schemes = discover(repo)
    n_tables = 0
    n_sites = 0
    for s in schemes:
        enc = s.method("_Enc")
        ft = fn_terms(repo, enc)
        pos = s.ctor_positional(s.edb_cls)
        rets = [n for n in ft.cfg.nodes if n.kind == "return" and n.stmt.value is not None]
        if not rets:
            raise AnalysisError("%s._Enc has no return" % s.name)
        for n in rets:
            t = ft.term(n.stmt.value, n.id)
            args = []
            if t[0] == "call" and t[1].endswith("EncryptedDatabase.__init__"):
                args = [(pos[i] if i < len(pos) else None, a) for i, a in enumerate(t[2])]
            elif t[0] == "call" and is_builder(repo, t[1]):
                args = [(pos[0] if pos else "D", t)]
            elif t[0] == "cont" and t[2][0] == "call" and (t[2][1].endswith("EncryptedDatabase.__init__") or is_builder(repo, t[2][1])):
                # the index object is filled (mutated) after it was constructed: tables merged in place keep the order in which the
                # pieces were produced, whatever order each piece has
                if s.name in SORTED_SCHEMES:
                    r1.fail_fn(enc, n.stmt, "index filled after construction",
                               "%s._Enc returns an encrypted database that it keeps filling after construction (%s): entries are merged into the table in the order in which "
                               "they were produced, so the table as a whole is not in label order and reflects the order of the input" % (s.name, show(t, maxdepth=2)[:100]))
                continue
            else:
                raise AnalysisError("%s._Enc returns %s, not an encrypted database" % (s.name, show(t)[:80]))
            for attr, a in args:
                if attr is None:
                    continue
                # ------------------------------------------------------------- R6.1
                if s.name in SORTED_SCHEMES:
                    for (kind, where) in _dict_sources(repo, a):
                        n_tables += 1
                        if kind == "builder":
                            r1.ok({"scheme": s.name, "container": attr, "built_by": where})
                        else:
                            r1.fail_fn(enc, n.stmt, "table %s built without the sorting builder" % attr,
                                       "%s: the dictionary %s is %s in _Enc instead of coming from the label-sorting builder" % (s.name, attr, where))
                # ------------------------------------------------------------- R6.2 list-kind containers
                sh = shape_of(a)
                if sh[0] == "list" and s.name in ("CJJ14.PiPtr", "CJJ14.Pi2Lev", "CGKO06.SSE1"):
                    for lf in flatten(repo, a):
                        if "[k]=" not in lf.via or lf.key is None:
                            continue
                        if is_urandom(lf.value):
                            continue  # filler of unused cells
                        n_sites += 1
                        ok, why = _placement_ok(lf.key, enc)
                        desc = {"scheme": s.name, "container": attr, "slot": show(lf.key, maxdepth=5)[:160], "source": why}
                        line = ft.cfg.nodes[lf.node].line if lf.node is not None else enc.node.lineno
                        if ok:
                            r2.ok(desc)
                            if why.startswith("random.sample"):
                                _check_sample(r3, enc, lf.key, s, line)
                        else:
                            r2.fail(enc.module.rel, enc.qual, line, "slot of %s from %s" % (attr, why.split(" (")[0]),
                                    "%s: blocks are stored in %s at positions given by %s: the layout follows the order in which the database "
                                    "was supplied" % (s.name, attr, why), witness=desc)
        if s.name == "DP17.Pi":
            n_sites += _check_dp17(repo, r2, s, enc, ft)
    # key-derived placement (SSE-1): the PRP must really depend on the key of each call
    r4 = Rule("R6.4", "the PRP behind key-derived placement is a function of (key, input): no state kept between calls")
    rules.append(r4)
    from .c15 import check_prp_stateless
    check_prp_stateless(repo, r4)

    # builders themselves
    seen = set()
    for s in schemes:
        if s.name not in SORTED_SCHEMES:
            continue
        for name, fi in s.edb_cls.methods.items():
            if name in ("build_from_list", "create_dictionary_from_list", "create_hash_table"):
                seen.add(s.name)
                check_builder(repo, r1, fi)
    missing = SORTED_SCHEMES - seen
    r1.require(not missing, schemes[0].method("_Enc"), "sorting builders present",
               "label-sorting builder classmethod vanished for %s" % sorted(missing))
    r1.require(n_tables >= 7, schemes[0].method("_Enc"), "tables floor", "only %d label-addressed tables found (expected >= 7)" % n_tables)
    r2.require(n_sites >= 8, schemes[0].method("_Enc"), "placement sites floor", "only %d placement sites found (expected >= 8)" % n_sites)
    # ---------------------------------------------------------------- R6.5 nobody seeds the shared generator
    r5 = Rule("R6.5", "the process-wide generator of `random` (which places blocks and picks buckets) is never seeded or restored by library code")
    rules.append(r5)
    n_mod = 0
    for rel, m in sorted(repo.modules.items()):
        if not rel.startswith(("schemes/", "toolkit/", "data_persistence/", "frontend/")):
            continue
        n_mod += 1
        for fi in m.all_functions():
            for c in ast.walk(fi.node):
                if isinstance(c, ast.Call) and (dotted(c.func) or "") in ("random.seed", "random.setstate"):
                    r5.fail_fn(fi, c, "%s in %s" % (dotted(c.func), fi.qual),
                               "%s calls %s: every later random.sample / random.choice / random.shuffle of the process - the slot permutations of PiPtr, Pi2Lev and SSE-1, the "
                               "bucket choice and in-bucket order of DP17 - becomes a function of that seed, so two set-ups lay their blocks out identically" % (fi.qual, short(c)))
        for c in ast.walk(m.tree):
            if isinstance(c, ast.Call) and (dotted(c.func) or "") in ("random.seed", "random.setstate") and not any(
                    isinstance(a, (ast.FunctionDef, ast.AsyncFunctionDef)) for a in __import__("sa.model", fromlist=["ancestors"]).ancestors(c)):
                r5.fail(rel, "<module>", c.lineno, "%s at import" % dotted(c.func), "%s seeds the shared generator at import time (%s)" % (rel, short(c)))
    r5.ok({"modules": n_mod})
    # ---------------------------------------------------------------- R6.6 key-derived placement: the PRP behind SSE-1's addresses is keyed for every width
    r6 = Rule("R6.6", "SSE-1 places its nodes by a PRP of the counter: the PRP's round function is keyed MAC output of the full requested width (imports R15.4)")
    rules.append(r6)
    from . import c15 as _c15
    for rr in _c15.check(repo):
        if rr.id != "R15.4":
            continue
        r6.obligations += rr.obligations
        r6.discharged += rr.discharged
        r6.instances.append({"imported": "R15.4", "obligations": rr.obligations})
        for f in rr.findings:
            f.message = ("SSE-1's node addresses are psi_K1(ctr); they move with the key only if the Feistel round function is keyed MAC output of the full "
                         "requested width for every half width (R15.4): %s" % f.message)
            f.rule = "R6.6"
            r6.findings.append(f)
    return rules


def _dict_sources(repo, t, depth=0):
    """How the dict(s) inside an EDB argument are produced: [('builder', name) | ('raw', description)]"""
    out = []
    if depth > 8 or not isinstance(t, tuple):
        return out
    if t[0] == "call" and is_builder(repo, t[1]):
        return [("builder", t[1].split("::")[-1])]
    if t[0] == "cont":
        init = t[2]
        if init[0] == "dict" or (init[0] == "call" and init[1] == "dict"):
            return [("raw", "a dict filled by subscript stores")]
        if init[0] == "call" and is_builder(repo, init[1]):
            adds = [mk for (mk, subs, a, b, mn) in t[3] if mk in ("setitem", "update", "setdefault", "nested:setitem", "nested:update")]
            if adds:
                return [("raw", "the table built in label order by %s, extended afterwards by %s (what is added later is stored behind the sorted entries, in "
                                "the order in which the keywords were processed)" % (init[1].split("::")[-1], "/".join(sorted(set(adds)))))]
            return [("builder", init[1].split("::")[-1])]
        for (mk, subs, a, b, mn) in t[3]:
            v = a[0] if mk in ("append", "add") and a else (b if mk == "setitem" else None)
            if isinstance(v, tuple):
                out += _dict_sources(repo, v, depth + 1)
        return out
    if t[0] == "comp" and t[1] == "DictComp":
        return [("raw", "a dict comprehension")]
    if t[0] == "comp":
        return _dict_sources(repo, t[2], depth + 1)
    if t[0] == "call" and t[1] == "dict":
        return [("raw", "dict(...) over a pair list")]
    if t[0] == "phi":
        for x in t[1]:
            out += _dict_sources(repo, x, depth + 1)
    return out


def _placement_ok(key, enc):
    """(ok, description of the source of the slot index)"""
    k = key
    # unwrap int(...)
    while k[0] == "call" and k[1] in ("int", "toolkit/bytes_utils.py::int_from_bytes") and k[2]:
        k = k[2][0]
    if k[0] == "mcall" and k[2] == "pop":
        src = k[1]
        init = src[2] if src[0] == "cont" else src
        if src[0] == "cont":
            ordered = [m for m in src[3] if m[0] in ("sort", "reverse") or (m[0] == "nested:sort")]
            if any(m[0].endswith("sort") for m in ordered):
                return False, "pop() from a list that is sorted in place after it was drawn (%s): from then on the free slots are handed out in ascending order" % show(init, maxdepth=2)[:50]
        if init[0] == "call" and init[1] in ("random.sample", "secrets.SystemRandom.sample"):
            return True, "random.sample(...).pop()"
        if init[0] == "mcall" and init[2] == "sample":
            gen = init[1]
            # a generator object of our own: SystemRandom, or Random() seeded by the OS / with enough entropy
            if gen[0] == "call" and gen[1] in ("random.SystemRandom", "secrets.SystemRandom"):
                return True, "SystemRandom().sample(...).pop()"
            if gen[0] == "call" and gen[1] == "random.Random":
                seed = gen[2][0] if gen[2] else None
                if seed is None:
                    return True, "Random().sample(...).pop() (seeded by the OS)"
                if seed[0] == "call" and seed[1] == "os.urandom" and seed[2] and seed[2][0][0] == "const" and isinstance(seed[2][0][1], int) and seed[2][0][1] >= 16:
                    return True, "Random(os.urandom(>=16)).sample(...).pop()"
                return False, "a permutation drawn from random.Random(%s): the seed limits the number of possible layouts (a constant, a few bytes, or data-dependent seed makes layouts repeat)" % show(seed, maxdepth=3)[:60]
            return False, "sample() of an unknown generator %s" % show(gen, maxdepth=2)[:50]
        if src[0] == "cont" and any(m[0] == "shuffle" for m in src[3]):
            return True, "pop from a shuffled list"
        return False, "pop() from an ordered list (%s)" % show(init, maxdepth=3)[:60]
    if k[0] == "prim" and k[1].startswith("prp"):
        keyed = any(isinstance(x, tuple) and x and x[0] == "attr" and x[1] == ("param", enc.params[1]) for x in walk(k[3][0])) if k[3] else False
        if keyed:
            return True, "keyed PRP %s of a counter" % k[1]
        return False, "an unkeyed permutation"
    if k[0] == "call" and k[1] in ("random.choice", "random.randrange", "random.randint"):
        return True, k[1]
    if k[0] == "counter":
        return False, "a counter"
    if k[0] == "rangevar":
        return False, "a range loop variable"
    if k[0] == "call" and k[1] == "len":
        return False, "len() of the data stored so far"
    if k[0] == "phi":
        res = [_placement_ok(x, enc) for x in k[1]]
        bad = [r for r in res if not r[0]]
        return (not bad), (bad[0][1] if bad else res[0][1])
    return False, show(k, maxdepth=3)[:80]


def _check_sample(r3, enc, key, s, line):
    k = key
    src = k[1]
    init = src[2] if src[0] == "cont" else src
    if not (init[0] == "call" and len(init[2]) >= 2):
        return
    pop, cnt = init[2][0], init[2][1]
    ok = pop[0] == "call" and pop[1] == "range" and len(pop[2]) == 2 and pop[2][0] == ("const", 1) and \
        cnt == ("binop", "Sub", pop[2][1], ("const", 1))
    r3.require(ok, enc, "sample covers free slots", "%s: the slot permutation is %s, expected random.sample(range(1, n), n - 1) over all free "
               "slots" % (s.name, show(init, maxdepth=3)[:120]))


def _check_dp17(repo, r2, s, enc, ft):
    cfg = ft.cfg
    n = 0
    # (a) the bucket index comes from random.choice over the feasible buckets
    stores = []
    for name, ms in ft.mutations().items():
        for (mn, kind, payload, subs) in ms:
            if kind in ("append", "extend") and len(subs) == 2:
                stores.append((name, mn, payload, subs))
    if not r2.require(bool(stores), enc, "DP17 bucket store", "DP17._Enc no longer places chunk entries into buckets"):
        return 0
    for (name, mn, call, subs) in stores:
        xt = ft.term(subs[1], mn)
        n += 1
        ok = xt[0] == "call" and xt[1] == "random.choice"
        r2.require(ok, enc, "DP17 bucket choice", "DP17: the bucket of a chunk is %s, expected random.choice over the buckets with room" % show(xt, maxdepth=3)[:80], call)
    # (b) each bucket list is shuffled before it is encrypted
    loops = [st for st in ast.walk(enc.node) if isinstance(st, ast.For) and any(
        isinstance(c, ast.Call) and isinstance(c.func, ast.Attribute) and c.func.attr == "Encrypt" for b in st.body for c in ast.walk(b))]
    def _direct(lp):
        for b in lp.body:
            for c in ast.walk(b):
                if isinstance(c, ast.Call) and isinstance(c.func, ast.Attribute) and c.func.attr == "Encrypt":
                    if not any(isinstance(a, ast.For) and a is not lp and any(x is a for bb in lp.body for x in ast.walk(bb)) for a in ancestors(c)):
                        return True
        return False
    inner = [lp for lp in loops if isinstance(lp.iter, ast.Name) and _direct(lp)]
    if not r2.require(bool(inner), enc, "DP17 encryption loop", "DP17._Enc: no loop encrypting the entries of a bucket list found"):
        return n
    for lp in inner:
        n += 1
        lst = lp.iter.id
        lpn = cfg.nodes_of(lp)
        sh = {m.id for m in cfg.nodes if m.stmt is not None and m.ast is not None and any(
            dotted(c.func) == "random.shuffle" and c.args and isinstance(c.args[0], ast.Name) and c.args[0].id == lst
            for c in calls_in_order(m.stmt if m.kind != "test" else m.ast))}
        ok = bool(sh) and all(not cfg.can_reach(cfg.entry, x, avoid=sh) for x in lpn)
        # no append to the list between shuffle and the loop
        r2.require(ok, enc, "DP17 in-bucket shuffle", "DP17: the entries of a bucket are encrypted in insertion order (no random.shuffle(%s) "
                   "dominating the encryption loop)" % lst, lp)
    return n


# ----------------------------------------------------------------------------- self-test variants
from ..selftest import V  # noqa: E402

VARIANTS = [
    V("pibas-sort-deleted", "fire", "R6.1", [("schemes/CJJ14/PiBas/structures.py", "PiBasEncryptedDatabase.build_from_list",
      "        kv_pairs.sort(key=lambda pair: pair[0])\n", "")]),
    V("ct14-sort-by-value", "fire", "R6.1", [("schemes/CT14/Pi/structures.py", "PiEncryptedDatabase.create_hash_table",
      "kv_pairs.sort(key=lambda pair: pair[0])", "kv_pairs.sort(key=lambda pair: pair[1])")]),
    V("pipack-dict-built-in-enc", "fire", "R6.1", [("schemes/CJJ14/PiPack/construction.py", "PiPack._Enc",
      "        return PiPackEncryptedDatabase.build_from_list(L)", "        return PiPackEncryptedDatabase(dict(L))")]),
    V("anss16-shuffle-after-sort", "fire", "R6.1", [("schemes/ANSS16/Scheme3/structures.py", "PiEncryptedDatabase.create_hash_table",
      "        kv_pairs.sort(key=lambda pair: pair[0])\n", "        kv_pairs.sort(key=lambda pair: pair[0])\n        kv_pairs.append(kv_pairs.pop(0))\n")]),
    V("piptr-sequential-slots", "fire", "R6.2", [("schemes/CJJ14/PiPtr/construction.py", "PiPtr._Enc",
      "available_pos_list = random.sample(range(1, A_len), A_len - 1)", "available_pos_list = list(range(1, A_len))")]),
    V("pi2lev-sorted-slots-pop0", "fire", "R6.2", [("schemes/CJJ14/Pi2Lev/construction.py", "Pi2Lev._Enc",
      "available_pos_list = random.sample(range(1, A_len), A_len - 1)", "available_pos_list = sorted(random.sample(range(1, A_len), A_len - 1))")]),
    V("dp17-shuffle-dropped", "fire", "R6.2", [("schemes/DP17/Pi/construction.py", "Pi._Enc",
      "                random.shuffle(w_id_pair_list)\n", "")]),
    V("dp17-first-fit-bucket", "fire", "R6.2", [("schemes/DP17/Pi/construction.py", "Pi._Enc", "x = random.choice(A)", "x = A[0]")]),
    V("sse1-address-without-prp", "fire", "R6.2", [("schemes/CGKO06/SSE1/construction.py", "SSE1._Enc",
      "                addr_in_A = self.config.prp_psi(Bitset(K1, length=self.config.param_k_bits),\n                                                Bitset(ctr, length=self.config.param_log2_s))",
      "                addr_in_A = Bitset(ctr, length=self.config.param_log2_s)")]),
    V("piptr-sample-too-small", "fire", "R6.3", [("schemes/CJJ14/PiPtr/construction.py", "PiPtr._Enc",
      "random.sample(range(1, A_len), A_len - 1)", "random.sample(range(1, A_len), A_len - 2)")]),
    V("benign-sorted-function", "silent", None, [("schemes/CJJ14/PiBas/structures.py", "PiBasEncryptedDatabase.build_from_list",
      "        kv_pairs.sort(key=lambda pair: pair[0])\n        D = {key: value for key, value in kv_pairs}", "        D = {key: value for key, value in sorted(kv_pairs, key=lambda pair: pair[0])}")]),
    V("benign-shuffle-then-pop", "silent", None, [("schemes/CJJ14/PiPtr/construction.py", "PiPtr._Enc",
      "available_pos_list = random.sample(range(1, A_len), A_len - 1)  # index of A start at 1 !!", "available_pos_list = list(range(1, A_len))\n        random.shuffle(available_pos_list)")]),
]
