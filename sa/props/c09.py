"""C09 - end to end: results delivered through client and server equal the local answer.

Decides protocol conformance between the two programs - the part of the end-to-end property that is
a relation between two pieces of source text - and the load-before-use discipline that makes a
re-created client or a restarted server equivalent to the original object.  The end-to-end value
equality composes C01/C03 with this and is not claimed.  See DESIGN.md section 3, C09.
"""
import ast

from ..core import Rule
from ..model import AnalysisError, dotted, unparse, short, ancestors
from ..cfg import cfg_of, calls_in_order
from ..effects import EffectScanner, stmts_in_order, dict_literal_of
from .. import frontend as F
from .c10 import REPLY_TYPE

EXPLANATION = ("Two-program conformance by set comparison and dominance: message types the client emits are accepted by the "
               "server and vice versa (constants resolved, pairwise distinct); each client request registers its future under "
               "the reply type before the await that sends the request, the server handler bound to the request type replies with "
               "exactly that type on every path (shared table with C10), and the client's receive loop resolves futures by the "
               "received type; fields read by a receiver are written by the matching sender and pickle.dumps/loads are paired at "
               "every hop; every dereference of a lazily loaded attribute (scheme, key, index, config object, module loader) is "
               "dominated by the loader that assigns it, and each loader deserialises, with the class family that serialised it, "
               "the artifact its writer wrote; both sides instantiate the scheme from the uploaded config dict; the keyword "
               "encoding of the search command equals the database converter's default.")
ASSUMPTIONS = ["websocket transport and timing are outside the source", "value equality of delivered results composes C01/C03 and is not claimed here"]

LAZY = {"sse_scheme": "_load_sse_scheme", "key": "_load_sse_key", "edb": "_load_sse_encrypted_database",
        "config_object": "_load_config_object", "sse_module_loader": "_load_sse_module"}


def _loader_closure(ci):
    """loader name -> set of attributes guaranteed assigned after it returns"""
    direct = {}
    calls = {}
    for attr, ld in LAZY.items():
        f = ci.methods.get(ld)
        if f is None:
            continue
        assigned = {t.attr for st in ast.walk(f.node) if isinstance(st, ast.Assign) for t in st.targets
                    if isinstance(t, ast.Attribute) and isinstance(t.value, ast.Name) and t.value.id == "self"}
        direct[ld] = assigned & set(LAZY)
        calls[ld] = {c.func.attr for c in ast.walk(f.node) if isinstance(c, ast.Call) and isinstance(c.func, ast.Attribute) and dotted(c.func.value) == "self" and c.func.attr in LAZY.values()}
    closure = {}
    for ld in direct:
        seen, stack, got = set(), [ld], set()
        while stack:
            x = stack.pop()
            if x in seen or x not in direct:
                continue
            seen.add(x)
            got |= direct[x]
            stack += list(calls.get(x, ()))
        closure[ld] = got
    return closure


def _check_typestate(repo, rule, rel, whitelist):
    ci = repo.cls(rel, "Service")
    closure = _loader_closure(ci)
    for attr, ld in LAZY.items():
        if ld not in ci.methods:
            if attr == "key" and rel == F.SRV:
                continue
            rule.fail(rel, "Service", 0, "loader %s missing" % ld, "%s: Service.%s vanished" % (rel, ld))
    n_deref = 0
    for mname, fi in ci.methods.items():
        if mname in LAZY.values() or mname == "__init__":
            continue
        cfg = cfg_of(fi.node)
        for n in cfg.nodes:
            if n.stmt is None or n.ast is None:
                continue
            root = n.ast if n.kind == "test" else n.stmt
            from ..cfg import header_exprs
            roots = [root] if n.kind == "test" else [e for e in header_exprs(n.stmt) if e is not None]
            for r_ in roots:
                for x in ast.walk(r_):
                    if not (isinstance(x, ast.Attribute) and isinstance(x.value, ast.Name) and x.value.id == "self" and x.attr in LAZY and isinstance(x.ctx, ast.Load)):
                        continue
                    par = getattr(x, "_parent", None)
                    # a dereference: attribute access / call argument / method receiver; `is None` tests are not
                    if isinstance(par, ast.Compare) and any(isinstance(c, ast.Constant) and c.value is None for c in par.comparators):
                        continue
                    n_deref += 1
                    ok_nodes = set()
                    for m in cfg.nodes:
                        if m.stmt is None or m.ast is None:
                            continue
                        for c in calls_in_order(m.stmt if m.kind != "test" else m.ast):
                            if isinstance(c.func, ast.Attribute) and dotted(c.func.value) == "self" and c.func.attr in closure and x.attr in closure[c.func.attr]:
                                ok_nodes.add(m.id)
                        if m.kind == "stmt" and isinstance(m.stmt, ast.Assign) and any(isinstance(t, ast.Attribute) and unparse(t) == "self." + x.attr for t in m.stmt.targets) \
                                and not (isinstance(m.stmt.value, ast.Constant) and m.stmt.value.value is None):
                            ok_nodes.add(m.id)
                    same_node_ok = n.id in ok_nodes and isinstance(n.stmt, ast.Assign) and any(unparse(t) == "self." + x.attr for t in n.stmt.targets)
                    dominated = bool(ok_nodes - {n.id}) and not cfg.can_reach(cfg.entry, n.id, avoid=ok_nodes - {n.id})
                    desc = {"class": rel, "method": mname, "attribute": x.attr, "line": getattr(x, "lineno", n.line)}
                    if dominated or same_node_ok:
                        rule.ok(desc)
                    elif (mname, x.attr) in whitelist:
                        desc["accepted"] = whitelist[(mname, x.attr)]
                        rule.ok(desc)
                    else:
                        rule.fail_fn(fi, x, "self.%s used before it is loaded" % x.attr,
                                     "%s.%s dereferences self.%s without a dominating %s(): on an object freshly created from its on-disk state (re-created client, restarted "
                                     "server) the attribute is still None" % (ci.name, mname, x.attr, LAZY[x.attr]), witness=desc)
    return n_deref


def check(repo):
    r1 = Rule("R9.1", "message-type closure between client and server")
    r2 = Rule("R9.2", "request -> reply routing")
    r3 = Rule("R9.3", "field agreement and paired pickling")
    r4 = Rule("R9.4", "load-before-use typestate; loaders read what the writers wrote")
    r5 = Rule("R9.5", "both sides instantiate the scheme from the uploaded configuration")
    r6 = Rule("R9.6", "keyword and identifier encodings agree")
    rules = [r1, r2, r3, r4, r5, r6]
    mt = F.msg_types(repo)
    inv = {v: k for k, v in mt.items()}
    scanner = EffectScanner(repo)
    cli = repo.cls(F.CLI, "Service")
    srv = repo.cls(F.SRV, "Service")

    # ---------------------------------------------------------------- R9.1
    r1.require(len(set(mt.values())) == len(mt), list(cli.methods.values())[0], "message type constants distinct", "two MsgType constants share a value: %s" % mt)
    srv_table, _ = F.dispatch_table(repo, F.SRV)
    cli_table, _ = F.dispatch_table(repo, F.CLI)
    cli_emits, srv_emits = {}, {}
    for fi in cli.methods.values():
        for st in stmts_in_order(fi.node):
            for e in scanner.stmt_effects(fi, st, depth=99):
                if e.kind == "send":
                    cli_emits.setdefault(e.name, []).append((fi, e))
    for rel in (F.SRV, F.SRV_MGR):
        for fi in repo.module(rel).all_functions():
            for st in stmts_in_order(fi.node):
                for e in scanner.stmt_effects(fi, st, depth=99):
                    if e.kind == "send" and fi.name != "send_message":
                        srv_emits.setdefault(e.name, []).append((fi, e))
    for t, sites in sorted(cli_emits.items(), key=lambda kv: str(kv[0])):
        fi, e = sites[0]
        r1.require(t in srv_table, fi, "client emits %r" % (t,), "the client sends message type %r, which the server's dispatch table %s does not handle" % (t, sorted(srv_table)), e.node)
    init_reply = mt.get("INIT")
    for t, sites in sorted(srv_emits.items(), key=lambda kv: str(kv[0])):
        fi, e = sites[0]
        ok = t in cli_table or t == init_reply
        r1.require(ok, fi, "server emits %r" % (t,), "the server sends message type %r, which the client's dispatch table %s does not handle (KeyError in the receive loop)" % (t, sorted(cli_table)), e.node)
    r1.require(set(cli_emits) == {mt["CONFIG"], mt["UPLOAD_DB"], mt["TOKEN"]}, list(cli.methods.values())[0], "client request types", "the client emits %s" % sorted(map(str, cli_emits)))
    r1.require({mt["INIT"], mt["CONFIG"], mt["UPLOAD_DB"], mt["RESULT"], mt["CONTROL"]} <= set(srv_emits), list(srv.methods.values())[0], "server reply types", "the server emits %s" % sorted(map(str, srv_emits)))
    # INIT handshake
    lw = cli.methods.get("load_websocket")
    src = unparse(lw.node)
    r1.require("KEY_TYPE: TYPE_INIT" in src and "KEY_SID: self.sid" in src and "await websocket.send(pickle.dumps(event))" in src, lw, "client init event", "load_websocket no longer sends {KEY_TYPE: TYPE_INIT, KEY_SID: sid}")
    hd = repo.func(F.SRV_CONN, "handler")
    hs = unparse(hd.node)
    r1.require("event = pickle.loads(message)" in hs and "event[KEY_TYPE] == TYPE_INIT" in hs and "sid = event[KEY_SID]" in hs, hd, "server init handshake", "connector.handler no longer expects the pickled init event with KEY_TYPE / KEY_SID")
    fc = repo.module("frontend/constants.py")
    try:
        ti = repo.const_value(fc, fc.globals["TYPE_INIT"])
    except Exception:
        ti = None
    r1.require(ti == mt.get("INIT"), hd, "TYPE_INIT equals MsgType.INIT", "frontend.constants.TYPE_INIT (%r) differs from MsgType.INIT (%r)" % (ti, mt.get("INIT")))

    # ---------------------------------------------------------------- R9.2
    want = {"handle_upload_config": (mt["CONFIG"], mt["CONFIG"]), "handle_upload_encrypted_database": (mt["UPLOAD_DB"], mt["UPLOAD_DB"]),
            "handle_keyword_search": (mt["TOKEN"], mt["RESULT"])}
    for hname, (q, p) in want.items():
        fi = cli.methods.get(hname)
        if fi is None:
            raise AnalysisError("client handler vanished: %s" % hname)
        cfg = cfg_of(fi.node)
        regs, sends = [], []
        for n in cfg.nodes:
            if n.stmt is None or n.ast is None:
                continue
            for c in calls_in_order(n.stmt if n.kind != "test" else n.ast):
                d = dotted(c.func) or ""
                if d in ("self.register_upload_echo_future_once", "self.register_result_future_once") and c.args:
                    try:
                        regs.append((n, repo.const_value(fi.module, c.args[0]), d))
                    except Exception:
                        regs.append((n, None, d))
                if d == "self._send_message" and c.args:
                    try:
                        sends.append((n, repo.const_value(fi.module, c.args[0])))
                    except Exception:
                        sends.append((n, None))
        r2.require(REPLY_TYPE.get(q) == p, fi, "reply type table", "C10's reply-type table maps %r to %r, the client expects %r" % (q, REPLY_TYPE.get(q), p))
        ok_send = len(sends) == 1 and sends[0][1] == q
        r2.require(ok_send, fi, "%s sends %r" % (hname, q), "%s sends %s" % (hname, [s[1] for s in sends]))
        ok_reg = len(regs) == 1 and regs[0][1] == p and regs[0][2] == "self.register_upload_echo_future_once"
        r2.require(ok_reg, fi, "%s waits for %r" % (hname, p), "%s registers its future under %s; the server replies to %r with %r and the receive loop resolves echo futures by the received type" % (
            hname, [(r_[1], r_[2].split(".")[-1]) for r_ in regs], q, p))
        if ok_send and ok_reg:
            # registration precedes the send on the waiting path
            r2.require(cfg.can_reach(regs[0][0].id, sends[0][0].id) and not cfg.can_reach(sends[0][0].id, regs[0][0].id), fi, "future registered before the request is sent",
                       "%s sends the request before registering the future: a fast reply is dropped and the caller waits for the timeout" % hname)
        # wait_for on the same future
        r2.require("await asyncio.wait_for(fut, 60)" in unparse(fi.node) and "fut.add_done_callback(wait_callback_func)" in unparse(fi.node), fi, "%s awaits the reply" % hname, "%s no longer awaits its future" % hname)
    rm = cli.methods.get("_recv_message")
    src = unparse(rm.node)
    r2.require("for fut in self.echo_futures.get(msg_type, [])" in src and "fut.set_result(content_byte)" in src and "self.echo_futures[msg_type] = []" in src, rm,
               "receive loop resolves futures by received type", "client _recv_message no longer resolves echo futures registered under the received message type with the content")
    r2.require("self.recv_msg_handler[msg_type](content_byte)" in src and "sid != self.sid" in src, rm, "client dispatch", "client _recv_message no longer dispatches by type / skips foreign sids")
    reg = cli.methods.get("register_upload_echo_future_once")
    r2.require("self.echo_futures[msg_type].append(fut)" in unparse(reg.node), reg, "future stored under its type", "register_upload_echo_future_once no longer stores the future under msg_type")
    r2.require("asyncio.create_task(self._recv_message())" in unparse(lw.node), lw, "receive loop started on connect", "load_websocket no longer starts the receive loop")

    # ---------------------------------------------------------------- R9.3
    sm = cli.methods.get("_send_message")
    d = next((x for x in ast.walk(sm.node) if isinstance(x, ast.Dict)), None)
    ckeys = {k.value for k in d.keys if isinstance(k, ast.Constant)} if d is not None else set()
    r3.require(ckeys == {"type", "sid", "content"} and "msg_dict.update(additional_field)" in unparse(sm.node) and "pickle.dumps(msg_dict)" in unparse(sm.node), sm, "client message fields",
               "client _send_message writes %s" % sorted(ckeys))
    ssm = repo.func(F.SRV_COMM, "send_message")
    d2 = next((x for x in ast.walk(ssm.node) if isinstance(x, ast.Dict)), None)
    skeys = {k.value for k in d2.keys if isinstance(k, ast.Constant)} if d2 is not None else set()
    r3.require(skeys == {"type", "sid", "content"} and "msg_dict.update(additional_field)" in unparse(ssm.node) and "pickle.dumps(msg_dict)" in unparse(ssm.node), ssm, "server message fields",
               "server send_message writes %s" % sorted(skeys))
    srm = srv.methods.get("_recv_message")
    for side, f, written, extra in (("server", srm, ckeys, set()), ("client", rm, skeys, {"token_digest"})):
        reads = {c.args[0].value for c in ast.walk(f.node) if isinstance(c, ast.Call) and isinstance(c.func, ast.Attribute) and c.func.attr == "get"
                 and dotted(c.func.value) == "message_dict" and c.args and isinstance(c.args[0], ast.Constant)}
        r3.require(reads <= written | extra and {"type", "sid", "content"} <= reads, f, "%s reads only written fields" % side, "%s _recv_message reads %s, the sender writes %s" % (side, sorted(reads), sorted(written | extra)))
        r3.require("pickle.loads(message_bytes)" in unparse(f.node), f, "%s unpickles messages" % side, "%s _recv_message no longer unpickles the message" % side)
    # token_digest: client sends it as keyword, server reads it from the raw message and echoes it as keyword, client reads it
    ks = cli.methods.get("handle_keyword_search")
    r3.require("token_digest=token_digest" in unparse(ks.node), ks, "client sends token_digest", "handle_keyword_search no longer sends token_digest")
    st = srv.methods.get("handle_search_token")
    ssrc = unparse(st.node)
    r3.require("raw_msg_dict.get('token_digest')" in ssrc and "token_digest=tk_digest" in ssrc, st, "server echoes token_digest", "handle_search_token no longer reads / echoes token_digest")
    r3.require("self.recv_msg_handler[msg_type](content_byte, message_dict)" in unparse(srm.node), srm, "server passes the raw message", "server _recv_message no longer passes the raw message dict to the handler")
    # init echo content
    ie = srv.methods.get("send_init_echo")
    dd = None
    for c in ast.walk(ie.node):
        if isinstance(c, ast.Call) and dict_literal_of(c) is not None:
            dd = dict_literal_of(c)
    ikeys = {k.value for k in dd.keys if isinstance(k, ast.Constant)} if dd is not None else set()
    lws = unparse(lw.node)
    r3.require({"ok", "state"} <= ikeys and "echo_content.get('ok')" in lws and "echo_content.get('state', 0)" in lws and "pickle.loads(echo_dict.get('content'))" in lws, lw,
               "init echo fields", "the init echo writes %s; the client reads ok/state from the unpickled content" % sorted(ikeys))
    r3.require("self.update_current_client_service_state_by_server_service_state(server_state)" in lws, lw, "client adopts the server state", "load_websocket no longer adopts the reported server state")
    # reply dicts: ok / reason
    for hname in ("handle_upload_config_echo", "handle_upload_encrypted_database_echo"):
        f = cli.methods.get(hname)
        s_ = unparse(f.node)
        r3.require("content = pickle.loads(content_bytes)" in s_ and "content.get('ok', False)" in s_, f, "%s reads ok" % hname, "%s no longer unpickles the reply and reads 'ok'" % hname)
    # payload pickling: config
    uc = cli.methods.get("handle_upload_config")
    r3.require("pickle.dumps(self.config)" in unparse(uc.node), uc, "config pickled by the client", "handle_upload_config no longer sends pickle.dumps(self.config)")
    sc = srv.methods.get("handle_upload_config")
    r3.require("config = pickle.loads(config_bytes)" in unparse(sc.node), sc, "config unpickled by the server", "server handle_upload_config no longer unpickles the configuration")

    # ---------------------------------------------------------------- R9.4
    n1 = _check_typestate(repo, r4, F.SRV, {})
    n2 = _check_typestate(repo, r4, F.CLI, {("handle_result", "sse_module_loader"): "assigned in __init__ when the config exists (a result arrives only after a search, which requires it)",
                                            ("handle_result", "config_object"): "assigned in __init__ when the config exists",
                                            ("handle_result_future", "sse_module_loader"): "assigned in __init__ when the config exists",
                                            ("handle_result_future", "config_object"): "assigned in __init__ when the config exists"})
    r4.require(n1 + n2 >= 14, list(srv.methods.values())[0], "dereference floor", "only %d dereferences of lazily loaded attributes found (expected >= 14)" % (n1 + n2))
    ci_src = unparse(cli.methods["__init__"].node)
    r4.require("if ClientServiceState.is_config_created(self.get_current_service_state()):" in ci_src and "self._load_sse_module()" in ci_src and "self._load_config_object()" in ci_src,
               cli.methods["__init__"], "client constructor loads module and config object", "client Service.__init__ no longer loads the module and config object when the configuration exists")
    # loaders: artifact + class family
    pairs = [(F.CLI, "_load_sse_key", "FileManager.read_key(self.sid)", "self.sse_module_loader.SSEKey", "self.key"),
             (F.CLI, "_load_sse_encrypted_database", "FileManager.read_encrypted_database(self.sid)", "self.sse_module_loader.SSEEncryptedDatabase", "self.edb"),
             (F.SRV, "_load_sse_encrypted_database", "FileManager.read_encrypted_database(self.sid)", "self.sse_module_loader.SSEEncryptedDatabase", "self.edb")]
    for rel, ld, read, fam, attr in pairs:
        f = repo.func(rel, "Service." + ld)
        s_ = unparse(f.node)
        ok = read in s_ and fam in s_ and ".deserialize(" in s_ and ", self.config_object)" in s_ and (attr + " =") in s_
        r4.require(ok, f, "%s reads its artifact and deserialises with the scheme's class" % ld, "%s.%s no longer reads %s and deserialises with %s and the config object" % (rel, ld, read, fam))
    for rel in (F.CLI, F.SRV):
        for ld, body in (("_load_sse_module", "self.sse_module_loader = schemes.load_sse_module(scheme_name)"), ("_load_config_object", "self.config_object = self.sse_module_loader.SSEConfig(self.config)"),
                         ("_load_sse_scheme", "self.sse_scheme = self.sse_module_loader.SSEScheme(self.config)")):
            f = repo.func(rel, "Service." + ld)
            r5.require(body in unparse(f.node), f, "%s" % ld, "%s Service.%s no longer does `%s`" % (rel, ld, body))
        f = repo.func(rel, "Service._load_sse_module")
        r5.require("scheme_name = self.config['scheme']" in unparse(f.node), f, "scheme named by the config", "%s _load_sse_module no longer takes the scheme from config['scheme']" % rel)
    # writers
    ck = cli.methods.get("handle_create_key")
    r4.require("sse_key = self.sse_scheme.KeyGen()" in unparse(ck.node) and "FileManager.write_key(self.sid, sse_key.serialize())" in unparse(ck.node), ck, "key written in its serialized form", "handle_create_key no longer writes KeyGen().serialize()")
    ce = cli.methods.get("handle_encrypt_database")
    r4.require("self.edb = self.sse_scheme.EDBSetup(self.key, database)" in unparse(ce.node) and "FileManager.write_encrypted_database(self.sid, self.edb.serialize())" in unparse(ce.node), ce,
               "index written in its serialized form", "handle_encrypt_database no longer writes EDBSetup(key, db).serialize()")
    ue = cli.methods.get("handle_upload_encrypted_database")
    r4.require("self._send_message(MsgType.UPLOAD_DB, self.edb.serialize())" in unparse(ue.node), ue, "index uploaded in its serialized form", "handle_upload_encrypted_database no longer uploads self.edb.serialize()")
    kss = unparse(ks.node)
    r4.require("token = self.sse_scheme.TokenGen(self.key, keyword)" in kss and "token_bytes = token.serialize()" in kss and "self._send_message(MsgType.TOKEN, token_bytes" in kss, ks,
               "token sent in its serialized form", "handle_keyword_search no longer sends TokenGen(key, keyword).serialize()")
    r4.require("self.sse_module_loader.SSEToken.deserialize(token_bytes, self.config_object)" in ssrc and "result = self.sse_scheme.Search(self.edb, tk_object)" in ssrc and
               "content=result.serialize()" in ssrc, st, "server deserialises the token, searches, serialises the result", "server handle_search_token no longer deserialises the token with its config / searches its index / replies result.serialize()")
    for hname in ("handle_result", "handle_result_future"):
        f = cli.methods.get(hname)
        r4.require("self.sse_module_loader.SSEResult.deserialize(" in unparse(f.node) and "self.config_object)" in unparse(f.node), f, "%s deserialises with SSEResult" % hname, "%s no longer deserialises the result with SSEResult" % hname)
    # server constructor reloads config and module for an existing service
    ss = unparse(srv.methods["__init__"].node)
    r4.require("self.config = FileManager.read_service_config(sid)" in ss and "self._load_sse_module()" in ss and "self._load_config_object()" in ss, srv.methods["__init__"],
               "server constructor reloads config", "server Service.__init__ no longer reloads config / module / config object of an existing service")
    cs = unparse(cli.methods["__init__"].node)
    r4.require("self.config = FileManager.read_service_config(sid)" in cs, cli.methods["__init__"], "client constructor reloads config", "client Service.__init__ no longer reloads the stored configuration")

    r7 = Rule("R9.7", "a step's accepted state survives the close of its connection (no stale write-back over a later connection)")
    rules.append(r7)
    from .c12 import check_writeback_freshness
    check_writeback_freshness(repo, r7)

    # ---------------------------------------------------------------- R9.6
    se = repo.func(F.CLI_CMD, "search")
    s_ = unparse(se.node)
    r6.require("keyword_bytes = bytes(keyword, encoding='utf-8')" in s_, se, "search encodes the keyword as utf-8", "commands.search no longer encodes the keyword as utf-8 (the database converter's default)")
    r6.require("output_format not in BytesConverter.supported_format" in s_, se, "output format validated", "commands.search no longer validates the output format")
    cd = repo.func("toolkit/database_utils.py", "convert_database_keyword_to_bytes")
    dflt = cd.node.args.defaults
    r6.require(bool(dflt) and isinstance(dflt[0], ast.Constant) and dflt[0].value == "utf-8", cd, "converter default utf-8", "convert_database_keyword_to_bytes no longer defaults to utf-8")
    cds = unparse(cd.node)
    kw_exprs = [unparse(st.value) for st in ast.walk(cd.node) if isinstance(st, ast.Assign) and unparse(st.targets[0]) == "keyword_bytes"]
    r6.require(kw_exprs == ["bytes(keyword, encoding=encoding)"] and "for keyword in db" in cds and "result[keyword_bytes] = identifier_bytes_list" in cds, cd,
               "converter encodes the keyword exactly as search does",
               "convert_database_keyword_to_bytes derives the stored keyword as %s; commands.search encodes the typed keyword with bytes(keyword, encoding='utf-8') and nothing "
               "else, so any further transformation on one side only makes such keywords unsearchable" % kw_exprs)
    ed = repo.func(F.CLI_CMD, "encrypt_database")
    r6.require("db = convert_database_keyword_to_bytes(db)" in unparse(ed.node) and "json.load(f)" in unparse(ed.node), ed, "database converted with the default encoding", "commands.encrypt_database no longer converts the JSON database with the default encoding")
    eh = repo.func(F.CLI_CMD, "__search_echo_handler")
    s2 = unparse(eh.node)
    r6.require("SSEResult.deserialize(content, __client_service.config_object)" in s2 and "BytesConverter.convert_bytes(identifier_bytes, output_format)" in s2 and "result.get_result_list()" in s2, eh,
               "result formatting", "__search_echo_handler no longer deserialises the result and converts each identifier with the chosen format")
    for cmd in ("upload_config", "upload_encrypted_database", "search", "generate_key", "encrypt_database"):
        f = repo.func(F.CLI_CMD, cmd)
        r6.require("__client_service = Service(sid)" in unparse(f.node), f, "%s re-creates the client from disk" % cmd, "commands.%s no longer creates Service(sid) from the stored state" % cmd)
    return rules


# ----------------------------------------------------------------------------- self-test variants
from ..selftest import V  # noqa: E402

VARIANTS = [
    V("server-replies-token-type", "fire", "R9.", [(F.SRV, "Service.handle_search_token", "self.send_message(MsgType.RESULT, content=result.serialize(), token_digest=tk_digest)", "self.send_message(MsgType.TOKEN, content=result.serialize(), token_digest=tk_digest)")]),
    V("future-registered-after-send", "fire", "R9.2", [(F.CLI, "Service.handle_upload_config",
      "            self.register_upload_echo_future_once(MsgType.CONFIG, fut)\n\n        await self._send_message(MsgType.CONFIG, pickle.dumps(self.config))",
      "        await self._send_message(MsgType.CONFIG, pickle.dumps(self.config))\n        if wait:\n            self.register_upload_echo_future_once(MsgType.CONFIG, fut)")]),
    V("search-without-loading-key", "fire", "R9.4", [(F.CLI, "Service.handle_keyword_search", "        self._load_sse_key()\n", "")]),
    V("server-edb-loader-skips-config-object", "fire", "R9.4", [(F.SRV, "Service._load_sse_encrypted_database", "        self._load_config_object()\n", "")]),
    V("token-digest-renamed", "fire", "R9.3", [(F.CLI, "Service.handle_keyword_search", "token_digest=token_digest)", "digest=token_digest)")]),
    V("server-default-config-scheme", "fire", "R9.5", [(F.SRV, "Service._load_sse_scheme", "self.sse_scheme = self.sse_module_loader.SSEScheme(self.config)", "self.sse_scheme = self.sse_module_loader.SSEScheme(self.sse_module_loader.SSEConfig.get_default_config())")]),
    V("search-utf16", "fire", "R9.6", [(F.CLI_CMD, "search", "keyword_bytes = bytes(keyword, encoding=\"utf-8\")", "keyword_bytes = bytes(keyword, encoding=\"utf-16\")")]),
    V("search-registers-under-token", "fire", "R9.2", [(F.CLI, "Service.handle_keyword_search", "self.register_upload_echo_future_once(MsgType.RESULT, fut)", "self.register_upload_echo_future_once(MsgType.TOKEN, fut)")]),
    V("client-key-loaded-with-token-class", "fire", "R9.4", [(F.CLI, "Service._load_sse_key", "KeyClass = self.sse_module_loader.SSEKey", "KeyClass = self.sse_module_loader.SSEToken")]),
    V("server-search-before-loading-edb", "fire", "R9.4", [(F.SRV, "Service.handle_search_token", "        self._load_sse_encrypted_database()\n", "")]),
    V("upload-sends-unserialized", "fire", "R9.4", [(F.CLI, "Service.handle_upload_encrypted_database", "await self._send_message(MsgType.UPLOAD_DB, self.edb.serialize())", "await self._send_message(MsgType.UPLOAD_DB, pickle.dumps(self.edb))")]),
]
